"""C03 - BaseStorage.checkCurrentSerialInTransaction (shared by FileStorage, MappingStorage and the storages built on
BaseStorage): the check behind Connection.readCurrent - it returns normally ONLY for the transaction in progress and
only if the tid of the object's current committed revision equals the serial the transaction read; otherwise
ReadConflictError naming (committed tid, serial read).  getTid is the storage's own query (FileStorage.getTid: proved in
contracts/fs_load.py) - here an abstract function of the committed state (A-GETTID).

C17 - BaseStorage.copy (copyTransactionsFrom of storages without blobs): see contracts/copytxn.py for the loop idiom."""
import z3

from pyvc import prims, timestamp
from pyvc.contract import LoopSpec, Outcome, Spec
from pyvc.engine import RaiseSig, Unsupported, bytes_num
from pyvc.values import (B, I, NONE, Obj, VBool, VBytes, VExc, VNone, VOpaque, VRef, VStr, VTuple,
                         fresh_name)

from .common import POSKeyError, ReadConflictError, StorageTransactionError

CURTID = z3.Function('committed_tid', I, I)
KNOWN = z3.Function('oid_has_a_committed_revision', I, B)


class CheckCurrent(Spec):
    func = 'ZODB.BaseStorage:checkCurrentSerialInTransaction'
    props = ('C03',)
    cases = ('same', 'other')
    assumptions = ('A-GETTID: self.getTid(oid) returns the tid of the current committed revision of oid or raises '
                   'POSKeyError (FileStorage.getTid proved; MappingStorage/DemoStorage: bounded)',)

    def setup(self, c, case=None):
        st = c.fresh_opaque('storage')
        txn = c.fresh_opaque('transaction')
        t = txn if case == 'same' else c.fresh_opaque('other_transaction')
        if case == 'other':
            c.assume(t.t != txn.t)
        c.ghost['cc'] = {'txn': txn, 'same': case == 'same'}
        return {'self': st, 'oid': c.fresh_bytes(8, 'oid'), 'serial': c.fresh_bytes(8, 'serial'), 'transaction': t}

    def hooks(self, c):
        def oattr(cc, v, name, node):
            if v.tag == 'storage' and name == '_transaction':
                return cc.ghost['cc']['txn']
            return None

        def ometh(cc, v, name, args, kwargs, node):
            if v.tag == 'storage' and name == 'getTid':
                o = bytes_num(cc, args[0], node)
                cc.event('getTid', o)
                if cc.choose([KNOWN(o), z3.Not(KNOWN(o))], 'getTid') == 1:
                    raise RaiseSig(VExc(POSKeyError))
                t = cc.fresh_bytes(8, 'committed_tid')
                cc.assume(bytes_num(cc, t) == CURTID(o))
                return t
            return None
        return {'opaque_attr': oattr, 'opaque_method': ometh, 'opaque_is_none': lambda cc, v: False}

    def modifies(self, c, E):
        return set()

    def outcomes(self, c, E):
        g = c.ghost['cc']
        o, ser = bytes_num(c, E['oid']), bytes_num(c, E['serial'])
        if not g['same']:
            return [Outcome('wrong-transaction', 'raise', StorageTransactionError,
                            post=lambda cc, E, x: [('nothing-asked', not any(e[0] == 'getTid' for e in cc.events))])]

        def conflict(cc, E, x):
            a = x.attrs if isinstance(x, VExc) else {}
            s = a.get('serials')
            ok = isinstance(s, VTuple) and len(s.items) == 2 and all(isinstance(i, VBytes) for i in s.items)
            out = [('names-the-oid', isinstance(a.get('oid'), VBytes) and bytes_num(cc, a['oid']) == o),
                   ('names-(committed tid, serial read)', ok and z3.And(
                       bytes_num(cc, s.items[0]) == CURTID(o), bytes_num(cc, s.items[1]) == ser))]
            return out
        return [Outcome('current', guard=z3.And(KNOWN(o), CURTID(o) == ser), result=lambda cc, E: NONE,
                        post=lambda cc, E, r: [('asked-about-this-oid', any(
                            e[0] == 'getTid' and e[1].eq(o) for e in cc.events))]),
                Outcome('changed-since-read', 'raise', ReadConflictError,
                        guard=z3.And(KNOWN(o), CURTID(o) != ser), post=conflict),
                Outcome('no-such-object', 'raise', POSKeyError, guard=z3.Not(KNOWN(o)))]


SPECS = [CheckCurrent]
INLINE = []


# ======================================================================================
from . import copytxn  # noqa: E402  (registers the cursor kinds txnseq / recseq)


class BaseCopy(Spec):
    """BaseStorage.copy (copyTransactionsFrom of FileStorage without blobs, MappingStorage, ...): every transaction of
    the source is begun with its own status and UNDER ITS OWN TID - unless the source's tids do not grow, in which case
    the next later stamp is used - every record is restored exactly once with its oid, tid, data, version and data_txn
    hint inside that transaction, which is then voted and finished (obligations at the calls of the loop bodies, for
    an arbitrary record of an arbitrary transaction; A-ITER as in contracts/copytxn.py; A-TIMESTAMP)."""
    func = 'ZODB.BaseStorage:copy'
    props = ('C17',)
    assumptions = tuple(copytxn.ASSUMPTIONS[:1]) + tuple(timestamp.ASSUMPTIONS)

    def setup(self, c, case=None):
        timestamp.install(c.hooks)
        c.ghost['ct'] = {'trans': None, 'tstate': None, 'record': None, 'rstate': None, 'loaded': None,
                         'tmp': None, 'copied': False, 'bytes_tids': True, 'prev_raw': None}
        from pyvc.values import VInt
        return {'source': c.fresh_opaque('source'), 'dest': c.fresh_opaque('destination'), 'verbose': VInt(0)}

    def hooks(self, c):
        G = lambda cc: cc.ghost['ct']
        same = lambda a, b: a is b or (isinstance(a, VOpaque) and isinstance(b, VOpaque) and a.t.eq(b.t)) or \
            (isinstance(a, VRef) and isinstance(b, VRef) and a.id == b.id) or \
            (isinstance(a, VStr) and isinstance(b, VStr) and a.s == b.s)

        def ometh(cc, v, name, args, kwargs, node):
            g = G(cc)
            if v.tag == 'source' and name == 'iterator':
                cc.oblige('iterates-the-whole-source', not args and not kwargs, node, assume_after=False)
                return cc.new_obj('txnseq', None, {}, {'name': 'source.iterator()'})
            if v.tag == 'destination':
                t = g['trans']
                if name == 'tpc_begin':
                    tf = cc.obj(t).f if t is not None else {}
                    ok = g['tstate'] == 'new' and len(args) == 3 and same(args[0], t) and same(args[2], tf.get('status'))
                    cc.oblige('tpc_begin.with-the-source-transaction-and-its-status', ok, node, assume_after=False)
                    if ok and isinstance(args[1], VBytes) and isinstance(tf.get('tid'), VBytes):
                        given, own = bytes_num(cc, args[1]), bytes_num(cc, tf['tid'])
                        prev = g['prev_raw']
                        in_order = z3.BoolVal(True) if prev is None else own > prev
                        cc.oblige('tpc_begin.under-the-source-transactions-own-tid-when-tids-grow',
                                  z3.Implies(in_order, given == own), node, assume_after=False)
                        if prev is not None:
                            cc.oblige('tpc_begin.otherwise-under-a-later-stamp', z3.Implies(z3.Not(in_order), given > prev),
                                      node, assume_after=False)
                    else:
                        cc.oblige('tpc_begin.tid-is-eight-bytes', False, node, assume_after=False)
                    g['tstate'] = 'begun'
                    return NONE
                if name == 'restore':
                    r = cc.obj(g['record']).f if g['record'] is not None else None
                    cc.oblige('restore.inside-the-transaction-once-per-record',
                              g['tstate'] == 'begun' and g['rstate'] == 'pending', node, assume_after=False)
                    want = [r['oid'], r['tid'], r['data'], r['version'], r['data_txn'], t] if r else []
                    cc.oblige('restore.with-the-records-oid-tid-data-version-and-hint',
                              r is not None and len(args) == 6 and all(same(a, w) for a, w in zip(args, want)), node,
                              assume_after=False)
                    g['rstate'] = 'restored'
                    return NONE
                if name == 'store':
                    cc.oblige('restore-is-used-when-the-destination-offers-it', False, node, assume_after=False)
                    return NONE
                if name == 'tpc_vote':
                    cc.oblige('tpc_vote.after-all-records', g['tstate'] == 'begun' and
                              g['rstate'] in (None, 'restored') and len(args) == 1 and same(args[0], t), node,
                              assume_after=False)
                    g['tstate'] = 'voted'
                    return NONE
                if name == 'tpc_finish':
                    cc.oblige('tpc_finish.after-the-vote', g['tstate'] == 'voted' and len(args) == 1 and
                              same(args[0], t), node, assume_after=False)
                    g['tstate'] = 'finished'
                    return NONE
            return None
        hk = {'opaque_method': ometh, 'opaque_is_none': lambda cc, v: False,
              'prim:builtins.print': lambda cc, interp, a, k, n: NONE}
        timestamp.install(hk)
        return hk

    @property
    def loops(self):
        def inv_txn(cc, fr):
            return [('previous-transaction-begun-voted-and-finished', cc.ghost['ct']['tstate'] in (None, 'finished'))]

        def hv_txn(cc, fr):
            cc.ghost['ct'].update(tstate='finished', rstate=None, record=None)

        def ts_kind(cc, fr):
            g = cc.ghost['ct']
            if cc.choose([True, True], 'first-transaction') == 0:
                g['prev_raw'] = None
                return NONE
            ts = timestamp.new_ts(cc)
            g['prev_raw'] = cc.obj(ts).f['raw']
            return ts

        def inv_rec(cc, fr):
            g = cc.ghost['ct']
            return [('previous-record-restored-exactly-once', g['rstate'] in (None, 'restored')),
                    ('still-inside-the-transaction', g['tstate'] == 'begun')]

        def hv_rec(cc, fr):
            cc.ghost['ct'].update(rstate='restored')
        none = lambda cc, fr: NONE
        return {0: LoopSpec(inv=inv_txn, havoc=hv_txn, kinds={'_ts': ts_kind, 't': none, 'transaction': none, 'r': none}),
                1: LoopSpec(inv=inv_rec, havoc=hv_rec, kinds={'r': none})}

    def modifies(self, c, E):
        return set()

    def outcomes(self, c, E):
        return [Outcome('copied', result=lambda cc, E: NONE, post=lambda cc, E, r: [
            ('every-transaction-finished', cc.ghost['ct']['tstate'] in (None, 'finished'))])]


SPECS.append(BaseCopy)
