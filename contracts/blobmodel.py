"""Ghost model of the blob directory (C13): a namespace of committed blob files keyed by
(oid, tid), the helper object `fshelper`, and the transaction's dirty list."""
import z3

from pyvc import prims
from pyvc.engine import RaiseSig, Unsupported, bytes_num, num_to_bytes
from pyvc.values import (B, I, NONE, V, VBool, VBytes, VExc, VInt, VNone, VRef, VStr, VTuple,
                         fresh_name)

AIB = z3.ArraySort(I, B)

ASSUMPTIONS = [
    'A-BLOBFS: the blob directory is a namespace (oid, tid) -> file; FilesystemHelper.getBlobFilename '
    'is injective in (oid, tid); remove_committed(path) removes exactly that file; '
    'rename_or_copy_blob(src, dst) makes dst exist with the bytes of src and removes src',
]


class VBlobPath(V):
    """the path <blob_dir>/<oid>/<tid>.blob"""

    def __init__(self, o, t):
        self.o = o
        self.t = t


class VTmpPath(V):
    """an uncommitted blob file (temporary directory)"""

    def __init__(self, ident):
        self.ident = ident


def new_blobfs(c, name='blobdir'):
    return c.new_obj('blobfs', None, {
        'files': z3.Array(fresh_name(name + '_files'), I, AIB),     # oid -> tid -> exists
        'tmp': z3.Array(fresh_name(name + '_tmp'), I, B),           # temp file id -> exists
    }, {'name': name})


def new_fshelper(c, blobfs):
    return c.new_obj('fshelper', None, {}, {'fs': blobfs, 'name': 'fshelper'})


def new_dirty(c, name='dirty_oids', empty=False):
    if empty:
        s = z3.K(I, z3.K(I, z3.BoolVal(False)))
    else:
        s = z3.Array(fresh_name(name), I, AIB)
    return c.new_obj('pairset', None, {'set': s}, {'name': name})


def has(arr2, o, t):
    return z3.Select(z3.Select(arr2, o), t)


def set2(arr2, o, t, val):
    return z3.Store(arr2, o, z3.Store(z3.Select(arr2, o), t, z3.BoolVal(val)))


def fshelper_method(c, interp, ref, o, name, args, kwargs, node):
    if name == 'getBlobFilename':
        return VBlobPath(bytes_num(c, args[0], node), bytes_num(c, args[1], node))
    if name == 'getPathForOID':
        return VStr('<oid dir>')
    if name == 'temp_dir':
        return VStr('<tmp>')
    raise Unsupported('fshelper method %s' % name, node)


def pairset_method(c, interp, ref, o, name, args, kwargs, node):
    s = o.f['set']
    if name == 'pop':
        a, b = z3.Int(fresh_name('po')), z3.Int(fresh_name('pt'))
        c.assume(has(s, a, b))
        c.assume(z3.And(a >= 0, a < 2 ** 64, b >= 0, b < 2 ** 64))
        o.f['set'] = set2(s, a, b, False)
        return VTuple([num_to_bytes(c, a, 8, 'doid'), num_to_bytes(c, b, 8, 'dtid')])
    if name == 'append':
        v = args[0]
        if not isinstance(v, VTuple) or len(v.items) != 2:
            raise Unsupported('dirty_oids.append of non-pair', node)
        a, b = bytes_num(c, v.items[0], node), bytes_num(c, v.items[1], node)
        o.f['set'] = set2(s, a, b, True)
        c.event('dirty-append', ref, a, b)
        return NONE
    raise Unsupported('dirty list method %s' % name, node)


def pairset_truthy(c, ref, o, node):
    s = o.f['set']
    a, b = z3.Int(fresh_name('wo')), z3.Int(fresh_name('wt'))
    ne = z3.Bool(fresh_name('dirty_nonempty'))
    from pyvc.ground import All
    c.assume(z3.Implies(ne, has(s, a, b)))
    c.assume(('or', [ne, All(['boid', 'btid'], lambda x, y: z3.Not(has(s, x, y)))]))
    c.roles.nested_array(s, 'boid', 'btid')
    return ne


prims.KIND_METHOD['fshelper'] = fshelper_method
prims.KIND_METHOD['pairset'] = pairset_method
prims.KIND_TRUTHY['pairset'] = pairset_truthy


def find_blobfs(c):
    for oid, o in c.heap.items():
        if o.kind == 'blobfs':
            return o
    return None


@prims.prim('os.path.exists')
def p_exists(c, interp, args, kwargs, node):
    p = args[0]
    if isinstance(p, VBlobPath):
        fs = find_blobfs(c)
        return VBool(has(fs.f['files'], p.o, p.t))
    if isinstance(p, VTmpPath):
        fs = find_blobfs(c)
        return VBool(z3.Select(fs.f['tmp'], p.ident))
    h = c.hooks.get('path_exists')
    if h:
        return h(c, p, node)
    raise Unsupported('os.path.exists of %r' % (p,), node)


def remove_committed(c, interp, args, kwargs, node):
    p = args[0]
    if isinstance(p, VBlobPath):
        fs = find_blobfs(c)
        fs.f['files'] = set2(fs.f['files'], p.o, p.t, False)
        c.event('blob-remove', p.o, p.t)
        return NONE
    raise Unsupported('remove_committed of %r' % (p,), node)


def rename_or_copy_blob(c, interp, args, kwargs, node):
    src, dst = args[0], args[1]
    if isinstance(dst, VBlobPath):
        fs = find_blobfs(c)
        fs.f['files'] = set2(fs.f['files'], dst.o, dst.t, True)
        if isinstance(src, VTmpPath):
            fs.f['tmp'] = z3.Store(fs.f['tmp'], src.ident, z3.BoolVal(False))
        c.event('blob-create', dst.o, dst.t)
        return NONE
    raise Unsupported('rename_or_copy_blob to %r' % (dst,), node)


def register(reg):
    from pyvc.values import VFunc
    reg.overrides[('ZODB.blob', 'remove_committed')] = VFunc('spec', 'remove_committed', None,
                                                            lambda c, a, k, n: remove_committed(c, None, a, k, n))
    reg.overrides[('ZODB.blob', 'rename_or_copy_blob')] = VFunc(
        'spec', 'rename_or_copy_blob', None,
        lambda c, a, k, n: rename_or_copy_blob(c, None, a, k, n))
