"""C13 - blob files follow their record: BlobStorageMixin._blob_storeblob / storeBlob,
BlobStorage.tpc_abort / tpc_finish (the wrapper over a blob-unaware storage)."""
import z3

from pyvc import contract, prims
from pyvc.contract import LoopSpec, Outcome, Spec
from pyvc.engine import RaiseSig, Unsupported, bytes_num
from pyvc.ground import All, Ex, FAnd, FNot, FOr
from pyvc.values import (B, I, NONE, Obj, VBool, VBytes, VExc, VFunc, VInt, VNone, VOpaque,
                         VRef, VStr, VTuple, fresh_name)

from . import blobmodel
from . import fsmodel as M
from .common import inst
from .fs_load import ghost_of
from .fs_write import WriteSpec

BLOBSTORAGE = 'ZODB.blob:BlobStorage'
has = blobmodel.has


class BlobStoreBlob(WriteSpec):
    func = 'ZODB.blob:BlobStorageMixin._blob_storeblob'
    props = ('C13',)

    def setup(self, c, case=None):
        h, t = self.mk(c, None)
        src = blobmodel.VTmpPath(z3.Int(fresh_name('tmpfile')))
        c.ghost['src'] = src
        c.roles.nested_array(c.obj(h.dirty).f['set'], 'boid', 'btid')
        c.roles.nested_array(c.obj(h.blobfs).f['files'], 'boid', 'btid')
        return {'self': h.self, 'oid': c.fresh_bytes(8, 'oid'), 'serial': c.fresh_bytes(8, 'serial'),
                'blobfilename': src}

    def modifies(self, c, E):
        h = ghost_of(c, E['self'])
        return {(h.dirty.id, 'set'), (h.blobfs.id, 'files'), (h.blobfs.id, 'tmp')}

    def outcomes(self, c, E):
        h = ghost_of(c, E['self'])
        d0 = c.obj(h.dirty).f['set']
        f0 = c.obj(h.blobfs).f['files']
        t0 = c.obj(h.blobfs).f['tmp']
        o, s = bytes_num(c, E['oid']), bytes_num(c, E['serial'])
        src = E['blobfilename']

        def post(c, E, r):
            d1 = c.obj(h.dirty).f['set']
            f1 = c.obj(h.blobfs).f['files']
            t1 = c.obj(h.blobfs).f['tmp']
            here = lambda x, y: z3.And(x == o, y == s)
            return [
                ('blob-file-in-place-under-oid-and-tid', has(f1, o, s)),
                ('working-file-consumed', z3.Not(z3.Select(t1, src.ident))),
                ('listed-as-dirty', has(d1, o, s)),
                ('other-committed-blob-files-untouched', All(['boid', 'btid'], lambda x, y: z3.Implies(
                    z3.Not(here(x, y)), has(f1, x, y) == has(f0, x, y)))),
                ('dirty-list-otherwise-unchanged', All(['boid', 'btid'], lambda x, y: z3.Implies(
                    z3.Not(here(x, y)), has(d1, x, y) == has(d0, x, y)))),
                ('storage-lock-balanced',
                 c.obj(h.lock).f['held'] == E.old[h.lock.id]['held']),
            ]
        return [Outcome('ok', post=post)]


class WrapperSpec(Spec):
    props = ('C13', 'C05')
    assumptions = tuple(blobmodel.ASSUMPTIONS)

    def mk(self, c):
        blobfs = blobmodel.new_blobfs(c)
        dirty = blobmodel.new_dirty(c)
        fsh = blobmodel.new_fshelper(c, blobfs)
        wrapped = c.fresh_opaque('wrapped_storage')
        cur = c.fresh_opaque('transaction_in_progress')
        me = c.new_obj('inst', BLOBSTORAGE, {'__storage': wrapped, 'dirty_oids': dirty,
                                             'fshelper': fsh}, {'name': 'BlobStorage'})
        c.roles.nested_array(c.obj(dirty).f['set'], 'boid', 'btid')
        c.roles.nested_array(c.obj(blobfs).f['files'], 'boid', 'btid')
        c.ghost['w'] = {'self': me, 'blobfs': blobfs, 'dirty': dirty, 'wrapped': wrapped, 'cur': cur}
        return me

    def hooks(self, c):
        def ometh(cc, v, name, args, kwargs, node):
            if v.tag == 'wrapped_storage':
                cc.event('wrapped-call', name, tuple(args))
                if name == 'tpc_finish':
                    # the wrapped storage may refuse (another transaction's handle, a failing callback):
                    # nothing is durable then, and the tpc_abort that follows must still find the dirty list
                    if cc.choose([True, True], 'wrapped-finish') == 1:
                        cc.event('wrapped-finish-raised')
                        raise RaiseSig(VExc('ZODB.POSException:StorageTransactionError'))
                    return cc.fresh_bytes(8, 'tid')
                if name == 'tpc_transaction':
                    return cc.ghost['w']['cur']
                return NONE
            return None
        return {'opaque_method': ometh}


class WrapperTpcAbort(WrapperSpec):
    func = 'ZODB.blob:BlobStorage.tpc_abort'
    cases = ('own', 'foreign')

    def setup(self, c, case=None):
        me = self.mk(c)
        g = c.ghost['w']
        t = g['cur'] if case == 'own' else c.fresh_opaque('other_transaction')
        if case == 'foreign':
            c.assume(t.t != g['cur'].t)
        c.ghost['w']['arg'] = t
        return {'self': me, 'transaction': t, 'arg': VTuple([])}

    def modifies(self, c, E):
        g = c.ghost['w']
        return {(g['dirty'].id, 'set'), (g['blobfs'].id, 'files')}

    def outcomes(self, c, E):
        g = c.ghost['w']
        d0 = c.obj(g['dirty']).f['set']
        f0 = c.obj(g['blobfs']).f['files']
        own = g['arg'].t.eq(g['cur'].t)

        def post(c, E, r):
            d1 = c.obj(g['dirty']).f['set']
            f1 = c.obj(g['blobfs']).f['files']
            calls = [e for e in c.events if e[0] == 'wrapped-call' and e[1] == 'tpc_abort']
            out = [('delegated-once', len(calls) == 1)]
            if own:
                out += [('dirty-blob-files-removed', All(['boid', 'btid'], lambda x, y: z3.Implies(
                    has(d0, x, y), z3.Not(has(f1, x, y))))),
                    ('dirty-list-empty', All(['boid', 'btid'], lambda x, y: z3.Not(has(d1, x, y))))]
            else:
                # a call with a transaction other than the one in progress is without effect
                out += [('foreign-transaction.blob-files-untouched', All(
                    ['boid', 'btid'], lambda x, y: has(f1, x, y) == has(f0, x, y))),
                    ('foreign-transaction.dirty-list-untouched', All(
                        ['boid', 'btid'], lambda x, y: has(d1, x, y) == has(d0, x, y)))]
            return out
        return [Outcome('ok', post=post)]


class WrapperTpcFinish(WrapperSpec):
    func = 'ZODB.blob:BlobStorage.tpc_finish'

    def setup(self, c, case=None):
        me = self.mk(c)
        return {'self': me, 'arg': VTuple([c.ghost['w']['cur']])}

    def modifies(self, c, E):
        g = c.ghost['w']
        return {(g['self'].id, 'dirty_oids')}

    def outcomes(self, c, E):
        g = c.ghost['w']
        d0 = c.obj(g['dirty']).f['set']
        f0 = c.obj(g['blobfs']).f['files']

        def post(c, E, r):
            d = c.obj(g['self']).f['dirty_oids']
            empty = isinstance(d, VRef) and c.obj(d).kind == 'list' and not c.obj(d).meta.get('items')
            return [('returns-the-tid-of-the-wrapped-storage', isinstance(r, VBytes)),
                    ('dirty-list-forgotten-files-kept', empty)]

        def post_refused(c, E, r):
            d = c.obj(g['self']).f['dirty_oids']
            same = isinstance(d, VRef) and d.id == g['dirty'].id
            return [('wrapped-storage-was-asked', any(e[0] == 'wrapped-finish-raised' for e in c.events)),
                    ('refused-finish.dirty-list-kept-for-the-abort-that-follows',
                     z3.BoolVal(False) if not same else All(
                         ['boid', 'btid'], lambda x, y: has(c.obj(d).f['set'], x, y) == has(d0, x, y))),
                    ('refused-finish.blob-files-untouched', All(
                        ['boid', 'btid'], lambda x, y: has(c.obj(g['blobfs']).f['files'], x, y) == has(f0, x, y)))]
        return [Outcome('ok', post=post, result=lambda c, E: c.fresh_bytes(8, 'tid')),
                Outcome('wrapped-finish-refused', 'raise', 'ZODB.POSException:StorageTransactionError',
                        post=post_refused)]


SPECS = [BlobStoreBlob, WrapperTpcAbort, WrapperTpcFinish]
INLINE = ['ZODB.blob:BlobStorageMixin._blob_tpc_finish']
