"""Shared helpers for sidecar contracts."""
import z3

from pyvc import prims
from pyvc.contract import Env, LoopSpec, Outcome, Spec
from pyvc.engine import as_z3_bool, be_num, bytes_elems, bytes_num
from pyvc.values import (B, I, NONE, Obj, VBool, VBytes, VExc, VFunc, VInt, VNone,
                         VOpaque, VRef, VStr, VTuple, fresh_name)

KeyError_ = 'builtins:KeyError'
ValueError_ = 'builtins:ValueError'
TypeError_ = 'builtins:TypeError'
OSError_ = 'builtins:OSError'

POSKeyError = 'ZODB.POSException:POSKeyError'
ReadOnlyError = 'ZODB.POSException:ReadOnlyError'
StorageTransactionError = 'ZODB.POSException:StorageTransactionError'
ConflictError = 'ZODB.POSException:ConflictError'
ReadConflictError = 'ZODB.POSException:ReadConflictError'
UndoError = 'ZODB.POSException:UndoError'
MultipleUndoErrors = 'ZODB.POSException:MultipleUndoErrors'
StorageError = 'ZODB.POSException:StorageError'

U48 = 2 ** 48
U64 = 2 ** 64
U16 = 65536


def inst(c, cls, **fields):
    return c.new_obj('inst', cls, fields, {'name': cls.split(':')[-1]})


def num8(c, v):
    """big-endian number of an 8-byte value"""
    return bytes_num(c, v)


def forall(vs, body, patterns=None):
    if patterns:
        return z3.ForAll(vs, body, patterns=patterns)
    return z3.ForAll(vs, body)
