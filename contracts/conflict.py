"""C10 - ConflictResolution: tryToResolveConflict as a dataflow over uninterpreted pickling
functions (what is pinned is WHICH three states reach the class's resolver, in which order, with
which serials, and what is stored / raised), PersistentReference for every reference format,
PersistentReferenceFactory.persistent_load (one reference object per SPELLING)."""
import z3

from pyvc import contract, prims
from pyvc.contract import LoopSpec, Outcome, Spec
from pyvc.engine import RaiseSig, Unsupported, bytes_num, values_equal
from pyvc.ground import All, Ex, FAnd, FNot, FOr
from pyvc.values import (B, I, NONE, Obj, V, VBool, VBytes, VClass, VExc, VFunc, VInt, VNone,
                         VOpaque, VRef, VStr, VTuple, fresh_name)

from .common import ConflictError, inst

MOD = 'ZODB.ConflictResolution'
PR = MOD + ':PersistentReference'
PRF = MOD + ':PersistentReferenceFactory'
BADCLASS = MOD + ':BadClass'
ASSUMPTIONS = [
    'A-PICKLE: the unpickler returns the class-meta pickle on its first load() and the state on the second; '
    'dump() appends; pickling/unpickling are uninterpreted functions (zodbpickle C code is not verified)',
    'A-RESOLVER: _p_resolveConflict of the class is an uninterpreted function of (old, committed, new)',
]
O = Obj
U = z3.Function('untransform', O, O)
T = z3.Function('transform', O, O)
META = z3.Function('first_pickle_meta', O, O)
STATE2 = z3.Function('second_pickle_state', O, O)
KLASS = z3.Function('class_of_meta', O, O)
LOADSERIAL = z3.Function('loadSerial', I, I, O)
RESOLVE = z3.Function('p_resolveConflict', O, O, O, O, O)      # (class, old, committed, new)
DUMP = z3.Function('dump_meta_then_state', O, O, O)
STATEOF = z3.Function('state_of_record', O, O)                # contract of state(): second pickle of U(p)


class VUnpickler(V):
    def __init__(self, src):
        self.src = src
        self.n = 0


def conflict_hooks(c, spec_state):
    g = spec_state

    def bytesio(cc, interp, args, kwargs, node):
        return cc.new_obj('bytesio', None, {}, {'value': args[0] if args else None, 'dumped': []})

    def unpickler(cc, args, kwargs, node):
        f = args[2]
        return cc.new_obj('unpickler', None, {}, {'src': cc.obj(f).meta['value'], 'n': 0})

    def pickler(cc, args, kwargs, node):
        cc.event('pickler', args[0])
        return cc.new_obj('pickler', None, {}, {'file': args[1]})

    def prf(cc, interp, args, kwargs, node):
        return cc.fresh_opaque('prfactory')
    return {'construct:ext:io.BytesIO': bytesio,
            'call-ext:ZODB._compat.PersistentUnpickler': unpickler,
            'call-ext:ZODB._compat.PersistentPickler': pickler}


def opq(t, tag='obj'):
    return VOpaque(t, tag)


def unpickler_method(c, interp, ref, o, name, args, kwargs, node):
    if name == 'load':
        src = o.meta['src']
        o.meta['n'] += 1
        if not isinstance(src, VOpaque):
            raise Unsupported('unpickler source', node)
        if o.meta['n'] == 1:
            return opq(META(src.t), 'meta')
        if o.meta['n'] == 2:
            return opq(STATE2(src.t), 'state')
        raise Unsupported('third load()', node)
    raise Unsupported('unpickler method %s' % name, node)


def pickler_method(c, interp, ref, o, name, args, kwargs, node):
    if name == 'dump':
        c.obj(o.meta['file']).meta['dumped'].append(args[0])
        return NONE
    raise Unsupported('pickler method %s' % name, node)


def bytesio_method(c, interp, ref, o, name, args, kwargs, node):
    if name == 'getvalue':
        d = o.meta['dumped']
        if len(d) != 2 or not all(isinstance(x, VOpaque) for x in d):
            c.event('bad-dump', len(d))
            return c.fresh_opaque('pickle')
        return opq(DUMP(d[0].t, d[1].t), 'pickle')
    raise Unsupported('BytesIO method %s' % name, node)


def pydict_contains(c, cont, o, item, node):
    if isinstance(item, VOpaque):
        # module-level cache keyed by classes (e.g. _unresolvable): content unknown
        return z3.Bool(fresh_name('in_cache'))
    for k, v in o.meta['pairs']:
        e = prims.decided_equal(c, k, item, node)
        if e is True:
            return True
        if e is not False:
            raise Unsupported('symbolic key in literal dict', node)
    return False


prims.KIND_CONTAINS['pydict'] = pydict_contains

_orig_pydict_setitem = prims.KIND_SETITEM['pydict']


def pydict_setitem(c, recv, o, key, v, node):
    if isinstance(key, VOpaque) and key.tag in ('klass', 'meta'):
        # the process-wide cache of classes without resolver (_unresolvable)
        c.event('class-cached-as-unresolvable', key)
        return
    return _orig_pydict_setitem(c, recv, o, key, v, node)


prims.KIND_SETITEM['pydict'] = pydict_setitem
prims.KIND_METHOD['unpickler'] = unpickler_method
prims.KIND_METHOD['pickler'] = pickler_method
prims.KIND_METHOD['bytesio'] = bytesio_method
prims.EXT_CLASSES.add('io.BytesIO')


class TryToResolveBody(Spec):
    func = MOD + ':tryToResolveConflict'
    props = ('C10', 'C03')
    cases = ('committed-data-given', 'committed-data-empty')
    assumptions = tuple(ASSUMPTIONS)
    callable_contract = False      # call sites use the storage-level contract in fs_write / demostorage
    label = 'body'

    def setup(self, c, case=None):
        st = c.fresh_opaque('storage')
        newp = c.fresh_opaque('newpickle')
        cd = c.fresh_opaque('committedData') if case == 'committed-data-given' else VBytes([])
        c.ghost['cr'] = {'case': case}
        return {'self': st, 'oid': c.fresh_bytes(8, 'oid'),
                'committedSerial': c.fresh_bytes(8, 'committedSerial'),
                'oldSerial': c.fresh_bytes(8, 'oldSerial'), 'newpickle': newp,
                'committedData': cd}

    def hooks(self, c):
        def ometh(cc, v, name, args, kwargs, node):
            if v.tag == 'storage':
                if name == '_crs_untransform_record_data':
                    return opq(U(args[0].t), 'pickle')
                if name == '_crs_transform_record_data':
                    return opq(T(args[0].t), 'pickle')
                if name == 'loadSerial':
                    cc.event('loadSerial', args[0], args[1])
                    i = cc.choose([True, True], 'loadSerial-outcome')
                    if i == 1:
                        raise RaiseSig(VExc('ZODB.POSException:POSKeyError'))
                    return opq(LOADSERIAL(bytes_num(cc, args[0]), bytes_num(cc, args[1])), 'pickle')
            if v.tag in ('klass', 'meta') and name == '__new__':
                cc.ghost['cr']['klass'] = v       # the class whose resolver is used
                return VOpaque(z3.Const(fresh_name('instance'), O), 'instance', )
            return None

        def oattr(cc, v, name, node):
            if v.tag == 'instance' and name == '_p_resolveConflict':
                i = cc.choose([True, True], 'has-resolver')
                if i == 1:
                    cc.event('class-offers-no-resolver')
                    raise RaiseSig(VExc('builtins:AttributeError'))
                k = cc.ghost['cr']['klass']

                def resolve(c2, args, kwargs, node2):
                    c2.event('resolve', tuple(args))
                    j = c2.choose([True, True, True, True], 'resolver-outcome')
                    if j == 1:
                        raise RaiseSig(VExc(ConflictError))
                    if j == 2:
                        raise RaiseSig(VExc('builtins:RuntimeError'))
                    if j == 3:
                        # a resolver that fails with AttributeError (say, touching an attribute of a referenced
                        # object, which is only a PersistentReference here) is a FAILING resolver, not a missing one
                        raise RaiseSig(VExc('builtins:AttributeError'))
                    a = [x.t for x in args]
                    return opq(RESOLVE(k.t, a[0], a[1], a[2]), 'state')
                return VFunc('spec', 'resolver', None, resolve)
            return None

        def oisinst(cc, v, clsname):
            if v.tag == 'meta' and clsname == 'builtins:tuple':
                i = cc.choose([True, True], 'meta-is-tuple')
                cc.ghost['cr']['meta_tuple'] = (i == 0)
                return i == 0
            if v.tag == 'klass' and clsname == 'builtins:tuple':
                return False
            return None

        def truthy(cc, v):
            if v.tag in ('pickle', 'committedData'):
                return True
            if v.tag == 'newargs':
                return z3.Bool(fresh_name('newargs_nonempty'))
            raise Unsupported('truth value of opaque %s' % v.tag)

        def unpickler(cc, args, kwargs, node):
            f = args[2]
            return cc.new_obj('unpickler', None, {}, {'src': cc.obj(f).meta['value'], 'n': 0})

        def pickler(cc, args, kwargs, node):
            return cc.new_obj('pickler', None, {}, {'file': args[1]})

        def state_fn(cc, args, kwargs, node):
            # contract of ConflictResolution.state(self, oid, serial, prfactory, p)
            p = args[4]
            cc.event('state', args[1], args[2], p)
            if isinstance(p, VBytes) and p.conc_len() == 0:
                raise Unsupported('state() without data', node)
            return opq(STATEOF(p.t), 'state')

        def bytesio(cc, interp, args, kwargs, node):
            return cc.new_obj('bytesio', None, {}, {'value': args[0] if args else None,
                                                    'dumped': []})
        return {'opaque_method': ometh, 'opaque_attr': oattr, 'opaque_isinstance': oisinst,
                'opaque_truthy': truthy,
                'construct:ext:io.BytesIO': bytesio,
                'call:ZODB._compat:PersistentUnpickler': unpickler,
                'call:ZODB._compat:PersistentPickler': pickler,
                'call:%s:state' % MOD: state_fn,
                'call:%s:PersistentReferenceFactory.__init__' % MOD: lambda cc, a, k, n: NONE}

    def outcomes(self, c, E):
        oid = bytes_num(c, E['oid'])
        cs, os_ = bytes_num(c, E['committedSerial']), bytes_num(c, E['oldSerial'])
        newp = E['newpickle'].t
        cd = E['committedData']
        meta = META(U(newp))
        new_state = STATE2(U(newp))
        old_data = LOADSERIAL(oid, os_)
        comm_data = cd.t if isinstance(cd, VOpaque) else LOADSERIAL(oid, cs)

        def resolved(c, E, r):
            k = c.ghost['cr'].get('klass')
            if k is None or not isinstance(r, VOpaque):
                return [('class-determined', False)]
            want = T(DUMP(meta, RESOLVE(k.t, STATEOF(old_data), STATEOF(comm_data), new_state)))
            calls = [e for e in c.events if e[0] == 'loadSerial']
            return [('stores-exactly-resolver(old-state, committed-state, new-state)-under-the-new-meta',
                     r.t == want),
                    ('committed-data-argument-used-when-given',
                     (len(calls) == 1) if isinstance(cd, VOpaque) else (len(calls) == 2))]

        def failed(c, E, exc):
            a = exc.attrs
            ser = a.get('serials')
            return [('conflict-error-names-the-oid', isinstance(a.get('oid'), VBytes)
                     and bytes_num(c, a['oid']) == oid),
                    ('conflict-error-carries-(committed, old)-serials', isinstance(ser, VTuple)
                     and len(ser.items) == 2 and z3.And(bytes_num(c, ser.items[0]) == cs,
                                                        bytes_num(c, ser.items[1]) == os_))]
        return [Outcome('resolved', post=resolved),
                Outcome('unresolvable', 'raise', ConflictError, post=failed)]

    def at_exit(self, c, E, kind, val):
        marked = [e for e in c.events if e[0] == 'class-cached-as-unresolvable']
        return [('class-remembered-as-unresolvable-only-if-it-offers-no-resolver',
                 not marked or any(e[0] == 'class-offers-no-resolver' for e in c.events))]


# klass extraction helpers for the opaque meta (meta[0], meta[1])
def _getitem_hook(c):
    pass


_orig_get_item = prims.get_item


def get_item(ctx, recv, key, node):
    if isinstance(recv, VOpaque) and recv.tag == 'meta' and isinstance(key, VInt):
        k = key.conc()
        if k == 0:
            r = VOpaque(KLASS(recv.t), 'klass')
            if 'cr' in ctx.ghost:
                ctx.ghost['cr']['klass'] = r
            return r
        if k == 1:
            return VOpaque(z3.Const(fresh_name('newargs'), O), 'newargs')
    return _orig_get_item(ctx, recv, key, node)


prims.get_item = get_item


# ======================================================================================
# PersistentReference for every reference format of serialize.py
# ======================================================================================
FORMS = ('oid', 'oid-class', 'weak', 'weak-db', 'multi-oid', 'multi', 'old-weak', 'oid-badclass',
         'multi-badclass', 'str-oid')


class PersistentReferenceInit(Spec):
    func = PR + '.__init__'
    props = ('C10', 'C14')
    cases = FORMS
    callable_contract = False       # callers run the (inlined) constructor itself

    def setup(self, c, case=None):
        oid = c.fresh_bytes(8, 'oid')
        cls = c.fresh_opaque('klass')
        db = c.fresh_opaque('dbname')
        L = lambda *items: c.new_obj('list', meta={'items': list(items)})
        bad = c.new_obj('inst', BADCLASS, {'args': VTuple([VStr('mod'), VStr('Name')])},
                        {'name': 'BadClass'})
        data = {
            'oid': oid, 'oid-class': VTuple([oid, cls]), 'weak': L(VStr('w'), VTuple([oid])),
            'weak-db': L(VStr('w'), VTuple([oid, db])), 'multi-oid': L(VStr('n'), VTuple([db, oid])),
            'multi': L(VStr('m'), VTuple([db, oid, cls])), 'old-weak': L(oid),
            'oid-badclass': VTuple([oid, bad]), 'multi-badclass': L(VStr('m'), VTuple([db, oid, bad])),
            'str-oid': VStr(codes=[z3.Int(fresh_name('ch')) for _ in range(8)]),
        }[case]
        if case == 'str-oid':
            for t in data.code_terms():
                c.assume(z3.And(t >= 0, t < 128))
        me = c.new_obj('inst', PR, {}, {'name': 'PersistentReference'})
        c.ghost['pr'] = {'oid': oid, 'cls': cls, 'db': db, 'bad': bad, 'case': case, 'data': data}
        return {'self': me, 'data': data}

    def hooks(self, c):
        return {'opaque_isinstance': lambda cc, v, n: False}

    def modifies(self, c, E):
        return {(E['self'].id, '*')} | ({(E['data'].id, '*')} if isinstance(E['data'], VRef) else set())

    def outcomes(self, c, E):
        g = c.ghost['pr']
        case = g['case']

        def same(c, a, b):
            r = values_equal(c, a, b)
            return r

        def post(c, E, r):
            S = c.obj(E['self']).f
            weak = S.get('weak', VBool(False))
            db = S.get('database_name', NONE)
            want_weak = case in ('weak', 'weak-db', 'old-weak')
            want_db = case in ('weak-db', 'multi-oid', 'multi', 'multi-badclass')
            out = []
            if case == 'str-oid':
                o = S.get('oid')
                out.append(('ascii-oid-normalised-to-bytes', isinstance(o, VBytes)
                            and o.conc_len() == 8))
            else:
                out.append(('oid', isinstance(S.get('oid'), VBytes)
                            and bytes_num(c, S['oid']) == bytes_num(c, g['oid'])))
            out.append(('weak-flag', isinstance(weak, VBool) and weak.conc() == want_weak))
            out.append(('database-name', (isinstance(db, VOpaque) and db.t.eq(g['db'].t))
                        if want_db else isinstance(db, VNone)))
            d = S.get('data')
            if case == 'oid-badclass':
                out.append(('unimportable-class-replaced-by-its-(module, name)-pair', isinstance(
                    d, VTuple) and len(d.items) == 2 and isinstance(d.items[1], VTuple)
                    and [x.s for x in d.items[1].items] == ['mod', 'Name']))
            elif case == 'multi-badclass':
                inner = c.obj(d).meta['items'][1] if isinstance(d, VRef) else None
                out.append(('unimportable-class-replaced-by-its-(module, name)-pair', isinstance(
                    inner, VTuple) and isinstance(inner.items[2], VTuple)))
            else:
                # the spelling is preserved: persistent_id(reference) is the very same data
                out.append(('reference-data-preserved-as-given', d is E['data'] or (
                    isinstance(d, VRef) and isinstance(E['data'], VRef) and d.id == E['data'].id)))
            return out
        return [Outcome('ok', post=post)]


class PersistentLoad(Spec):
    """one reference object per SPELLING: a cached reference spelled differently (strong vs weak,
    with / without class) for the same target must not be returned"""
    func = PRF + '.persistent_load'
    props = ('C10',)
    cases = ('empty-cache', 'other-spelling-cached', 'same-spelling-cached')

    def setup(self, c, case=None):
        oid = c.fresh_bytes(8, 'oid')
        cls = c.fresh_opaque('klass')
        L = lambda *items: c.new_obj('list', meta={'items': list(items)})
        ref = L(VStr('w'), VTuple([oid]))               # a weak reference
        me = c.new_obj('inst', PRF, {}, {'name': 'PersistentReferenceFactory'})
        cached = None
        if case != 'empty-cache':
            strong = VTuple([oid, cls])
            spelled = strong if case == 'other-spelling-cached' else VTuple([VStr('w'), VTuple([oid])])
            cached = c.new_obj('inst', PR, {'data': strong if case == 'other-spelling-cached' else ref,
                                            'oid': oid, 'weak': VBool(case != 'other-spelling-cached')},
                               {'name': 'cached-reference'})
            c.obj(me).f['data'] = c.new_obj('pydict', meta={'pairs': [(spelled, cached)]})
        c.ghost['pl'] = {'ref': ref, 'cached': cached, 'case': case, 'me': me}
        return {'self': me, 'ref': ref}

    def hooks(self, c):
        return {'opaque_isinstance': lambda cc, v, n: False}

    def modifies(self, c, E):
        g = c.ghost['pl']
        m = {(g['me'].id, 'data')}
        d = c.obj(g['me']).f.get('data')
        if isinstance(d, VRef):
            m.add((d.id, '*'))
        return m

    def outcomes(self, c, E):
        g = c.ghost['pl']

        def post(c, E, r):
            if not isinstance(r, VRef) or c.obj(r).cls != PR:
                return [('returns-a-PersistentReference', False)]
            d = c.obj(r).f.get('data')
            out = [('reference-spelled-exactly-as-the-record-spells-it',
                    isinstance(d, VRef) and d.id == g['ref'].id)]
            if g['case'] == 'same-spelling-cached':
                out.append(('same-spelling-gives-the-cached-object', r.id == g['cached'].id))
            if g['case'] == 'other-spelling-cached':
                out.append(('other-spelling-is-not-reused', r.id != g['cached'].id))
            return out
        return [Outcome('ok', post=post)]


SPECS = [PersistentReferenceInit, PersistentLoad]
VARIANTS = [TryToResolveBody]      # its call-site contract is fs_write.TryToResolve
INLINE = [PR + '.__init__', MOD + ':BadClass.__init__']
