"""C11 (and the Connection side of C03 / C10): bookkeeping of ZODB.Connection over the ghost universe
of persistent objects (connmodel).  Every postcondition is stated over the WHOLE universe: what
happens to the objects the operation is about AND that every other object keeps its four
persistence attributes.

  disowned(x)   jar' = None, oid' = None, changed' = False if it was True else as before
  ghost(x)      changed' = None
"""
import z3

from pyvc import contract, prims
from pyvc.contract import LoopSpec, Outcome, Spec
from pyvc.engine import ContractStale, RaiseSig, Unsupported, as_z3_bool, bytes_num
from pyvc.ground import All
from pyvc.values import (B, I, NONE, Obj, VBool, VBytes, VExc, VFunc, VInt, VNone, VOpaque, VRef, VStr,
                         VTuple, fresh_name)

from . import connmodel as CM
from .common import inst
from .connmodel import CONN, U, cached, conninv, inlist, world

sel = z3.Select
ConnectionStateError = 'ZODB.POSException:ConnectionStateError'


def unchanged(u0, u1, x):
    return z3.And([sel(u1[k], x) == sel(u0[k], x) for k in ('oid', 'jar', 'serial', 'changed')])


def disowned(u0, u1, x):
    return z3.And(sel(u1['jar'], x) == 0, sel(u1['oid'], x) == -1,
                  sel(u1['serial'], x) == sel(u0['serial'], x),
                  sel(u1['changed'], x) == z3.If(sel(u0['changed'], x) == 1, 0, sel(u0['changed'], x)))


def ghostified(u0, u1, x):
    return z3.And(sel(u1['jar'], x) == sel(u0['jar'], x), sel(u1['oid'], x) == sel(u0['oid'], x),
                  sel(u1['serial'], x) == sel(u0['serial'], x), sel(u1['changed'], x) == -1)


def is_empty_dict(c, v):
    if isinstance(v, VRef):
        o = c.obj(v)
        if o.kind == 'pydict':
            return len(o.meta['pairs']) == 0
        if o.kind == 'map':
            return All(['oid'], lambda q: z3.Not(sel(o.f['dom'], q)))
    return False


def is_empty_list(c, v):
    if isinstance(v, VRef):
        o = c.obj(v)
        if o.kind == 'list' and 'items' in o.meta:
            return len(o.meta['items']) == 0
        if o.kind == 'slist':
            return o.f['len'] == 0
    return False


def havoc_universe(c, w):
    u = U(c, w)
    for k in ('oid', 'jar', 'serial', 'changed'):
        u[k] = z3.Array(fresh_name(k), I, I)
        c.roles.array(u[k], 'obj')


def havoc_map(c, m_):
    o = c.obj(m_)
    ks = o.f['dom'].sort().domain()
    o.f['dom'] = z3.Array(fresh_name('dom'), ks, B)
    o.f['val'] = z3.Array(fresh_name('val'), ks, o.f['val'].sort().range())
    c.roles.array(o.f['dom'], 'oid')
    c.roles.array(o.f['val'], 'oid')


class ConnSpec(Spec):
    props = ('C11',)
    assumptions = CM.ASSUMPTIONS

    def hooks(self, c):
        hk = {}
        CM.install_hooks(c, hk)
        return hk

    def w(self, c):
        return world(c)

    def requires(self, c, E):
        return conninv(c, world(c))

    def universe_mods(self, c):
        w = world(c)
        return {(w.objects.id, k) for k in ('oid', 'jar', 'serial', 'changed')}


# ======================================================================================
class InvalidateCreating(ConnSpec):
    """every object this connection had handed to the storage as NEW in the transaction and that is
    filed in the cache is removed from the cache and disowned; every other object is untouched"""
    func = CONN + '._invalidate_creating'
    cases = ('own-set', 'given-set')

    def setup(self, c, case=None):
        w = CM.mk_conn(c)
        if case == 'given-set':
            g = prims.new_map(c, 'bytes8', 'bool', 'given_creating')
            c.roles.array(c.obj(g).f['dom'], 'oid')
            return {'self': w.self, 'creating': g}
        return {'self': w.self, 'creating': NONE}

    def requires(self, c, E):
        return conninv(c, world(c), only=('CACHE-INV', 'OID-RANGE'))

    def modifies(self, c, E):
        w = world(c)
        return self.universe_mods(c) | {(w.cache.id, 'dom'), (w.self.id, '_creating')}

    def havoc(self, c, E, outcome=None):
        w = world(c)
        havoc_universe(c, w)
        o = c.obj(w.cache)
        o.f['dom'] = z3.Array(fresh_name('cache_dom'), I, B)
        c.roles.array(o.f['dom'], 'oid')
        if isinstance(E['creating'], VNone):
            c.obj(w.self).f['_creating'] = c.new_obj('pydict', meta={'pairs': []})

    def hit(self, c, u0, cache0, members):
        """lambda x: x is cached under its oid and that oid is among `members` (Array oid->Bool)"""
        return lambda x: z3.And(cached(u0, cache0, x), sel(members, sel(u0['oid'], x)))

    def effect(self, c, E, members):
        w = world(c)
        u0, u1 = E.old[w.objects.id], U(c, w)
        cache0, cache1 = E.old[w.cache.id], c.obj(w.cache).f
        hit = self.hit(c, u0, cache0, members)
        return [
            ('created-objects-in-the-cache-are-disowned', All(['obj'], lambda x: z3.Implies(
                hit(x), disowned(u0, u1, x)))),
            ('every-other-object-untouched', All(['obj'], lambda x: z3.Implies(
                z3.Not(hit(x)), unchanged(u0, u1, x)))),
            ('their-cache-entries-are-removed-and-no-other', All(['oid'], lambda o: sel(cache1['dom'], o) == z3.And(
                sel(cache0['dom'], o), z3.Not(sel(members, o))))),
            ('cache-values-untouched', cache1['val'] == cache0['val']),
        ]

    @property
    def loops(self):
        def hv(cc, fr):
            w = world(cc)
            havoc_universe(cc, w)
            o = cc.obj(w.cache)
            o.f['dom'] = z3.Array(fresh_name('cache_dom'), I, B)
            cc.roles.array(o.f['dom'], 'oid')

        def inv(cc, fr):
            cur = fr.locals.get('$iter0')
            if cur is None:
                raise ContractStale('the loop contract expects the local(s) it names (iterating): the code has a different shape')
            cc.roles.array(cur.visited, 'oid') if hasattr(cur.visited, 'get_id') else None
            return self.effect(cc, cc.E, cur.visited)
        return {0: LoopSpec(inv=inv, havoc=hv, kinds={'o': lambda cc, fr: NONE})}

    def outcomes(self, c, E):
        w = world(c)
        given = E['creating']
        if isinstance(given, VNone):
            cr0 = c.obj(w.creating).f['dom']
        elif isinstance(given, VRef) and c.obj(given).kind == 'map':
            cr0 = c.obj(given).f['dom']
        else:
            raise Unsupported('_invalidate_creating(%r)' % (given,))

        def post(cc, E, r):
            out = self.effect(cc, E, cr0)
            if isinstance(given, VNone):
                out.append(('creating-set-forgotten', is_empty_dict(cc, cc.obj(w.self).f['_creating'])))
            else:
                out.append(('own-creating-set-untouched', contract.same_value(
                    cc, E.old[w.self.id]['_creating'], cc.obj(w.self).f['_creating'])))
            return out
        return [Outcome('ok', result=lambda cc, E: NONE, post=post)]


# ======================================================================================
class TpcCleanup(ConnSpec):
    func = CONN + '._tpc_cleanup'

    def setup(self, c, case=None):
        w = CM.mk_conn(c)
        return {'self': w.self}

    def requires(self, c, E):
        return []

    def modifies(self, c, E):
        w = world(c)
        cr = c.obj(w.self).f['_creating']
        m = {(w.self.id, '_needs_to_join'), (w.self.id, '_registered_objects')}
        if isinstance(cr, VRef):
            m |= {(cr.id, '*')}
        return m

    def havoc(self, c, E, outcome=None):
        w = world(c)
        S = c.obj(w.self).f
        S['_needs_to_join'] = VBool(True)
        S['_registered_objects'] = c.new_obj('list', meta={'items': []})
        cr = S['_creating']
        if isinstance(cr, VRef) and c.obj(cr).kind == 'map':
            c.obj(cr).f['dom'] = z3.K(I, z3.BoolVal(False))
        elif isinstance(cr, VRef) and c.obj(cr).kind == 'pydict':
            c.obj(cr).meta['pairs'] = []

    def outcomes(self, c, E):
        w = world(c)

        def post(cc, E, r):
            S = cc.obj(w.self).f
            ntj = S['_needs_to_join']
            return [('must-join-again', isinstance(ntj, VBool) and as_z3_bool(ntj.t)),
                    ('registered-list-emptied', is_empty_list(cc, S['_registered_objects'])),
                    ('creating-set-emptied', is_empty_dict(cc, S['_creating']))]
        return [Outcome('ok', result=lambda cc, E: NONE, post=post)]


# ======================================================================================
class AbortRegistered(ConnSpec):
    """Connection._abort: every registered object that was explicitly added is disowned and removed
    from _added and the cache; every other registered object that is in the cache becomes a ghost
    (so that it shows its last committed state on next access); nothing else changes"""
    func = CONN + '._abort'
    props = ('C11', 'C03')
    cases = ('plain', 'disowning-given')

    def setup(self, c, case=None):
        w = CM.mk_conn(c)
        if case == 'disowning-given':
            g = prims.new_map(c, 'bytes8', 'bool', 'disowning')
            c.roles.array(c.obj(g).f['dom'], 'oid')
            return {'self': w.self, 'disowning': g}
        return {'self': w.self, 'disowning': VTuple([])}

    def modifies(self, c, E):
        w = world(c)
        return self.universe_mods(c) | {(w.cache.id, 'dom'), (w.added.id, 'dom')}

    def havoc(self, c, E, outcome=None):
        w = world(c)
        havoc_universe(c, w)
        for m_ in (w.cache, w.added):
            o = c.obj(m_)
            o.f['dom'] = z3.Array(fresh_name('dom'), I, B)
            c.roles.array(o.f['dom'], 'oid')

    def effect(self, c, E, upto=None):
        w = world(c)
        u0, u1 = E.old[w.objects.id], U(c, w)
        cache0, cache1 = E.old[w.cache.id], c.obj(w.cache).f
        added0, added1 = E.old[w.added.id], c.obj(w.added).f
        reg = E.old[w.registered.id]
        seen = lambda x: inlist(w, reg, x, upto)
        was_added = lambda x: sel(added0['dom'], sel(u0['oid'], x))
        A = lambda x: z3.And(seen(x), was_added(x))
        # new objects that the caller is about to disown are left alone (they keep their state)
        creating0 = E.old[w.creating.id]
        dis = E['disowning']
        if isinstance(dis, VRef) and c.obj(dis).kind == 'map':
            dd = c.obj(dis).f['dom']
            spared = lambda o: z3.Or(sel(creating0['dom'], o), sel(dd, o))
        elif isinstance(dis, VTuple) and not dis.items:
            spared = lambda o: sel(creating0['dom'], o)
        else:
            raise Unsupported('_abort(disowning=%r)' % (dis,))
        Bc = lambda x: z3.And(seen(x), z3.Not(was_added(x)), cached(u0, cache0, x),
                              z3.Not(spared(sel(u0['oid'], x))))
        gone = lambda o: z3.And(sel(added0['dom'], o), seen(sel(added0['val'], o)))
        return [
            ('added-objects-are-disowned', All(['obj'], lambda x: z3.Implies(A(x), disowned(u0, u1, x)))),
            ('modified-objects-become-ghosts', All(['obj'], lambda x: z3.Implies(
                Bc(x), ghostified(u0, u1, x)))),
            ('every-other-object-untouched', All(['obj'], lambda x: z3.Implies(
                z3.And(z3.Not(A(x)), z3.Not(Bc(x))), unchanged(u0, u1, x)))),
            ('added-objects-leave-the-added-map', All(['oid'], lambda o: sel(added1['dom'], o) == z3.And(
                sel(added0['dom'], o), z3.Not(gone(o))))),
            ('added-objects-leave-the-cache', All(['oid'], lambda o: sel(cache1['dom'], o) == z3.And(
                sel(cache0['dom'], o), z3.Not(gone(o))))),
            ('maps-otherwise-untouched', z3.And(cache1['val'] == cache0['val'],
                                                added1['val'] == added0['val'])),
            # _abort also runs for savepoint rollbacks: what the transaction declared it depends on stays declared
            # (C03: "the same holds for objects a transaction declared it depends on being current")
            ('declared-read-dependencies-kept', z3.And(
                c.obj(w.readCurrent).f['dom'] == E.old[w.readCurrent.id]['dom'],
                c.obj(w.readCurrent).f['val'] == E.old[w.readCurrent.id]['val'])),
        ]

    @property
    def loops(self):
        def hv(cc, fr):
            self.havoc(cc, cc.E)

        def inv(cc, fr):
            cur = fr.locals.get('$iter0')
            if cur is None:
                raise ContractStale('the loop contract expects the local(s) it names (iterating): the code has a different shape')
            w = world(cc)
            reg = cc.E.old[w.registered.id]
            return [('iterating-the-registered-list', z3.And(cur.arr0 == reg['arr'],
                                                             cur.len0 == reg['len']))] + \
                self.effect(cc, cc.E, upto=cur.idx)
        none = lambda cc, fr: NONE
        return {0: LoopSpec(inv=inv, havoc=hv, kinds={'oid': none})}

    def outcomes(self, c, E):
        return [Outcome('ok', result=lambda cc, E: NONE, post=lambda cc, E, r: self.effect(cc, E))]


# ======================================================================================
def new_in_txn(c, E, w):
    """lambda x: x was NEW in the transaction: explicitly added and registered, or handed to the
    storage as new (in _creating) and filed in the cache"""
    u0 = E.old[w.objects.id]
    cache0, added0 = E.old[w.cache.id], E.old[w.added.id]
    creating0 = E.old[w.creating.id]
    reg = E.old[w.registered.id]
    A = lambda x: z3.And(inlist(w, reg, x), sel(added0['dom'], sel(u0['oid'], x)))
    Ccr = lambda x: z3.And(cached(u0, cache0, x), sel(creating0['dom'], sel(u0['oid'], x)))
    return lambda x: z3.Or(A(x), Ccr(x))


def not_owned(u0, u1, x):
    """belongs to no database any more AND keeps its state: a new object has no committed state to go
    back to, so it must not be turned into a ghost (changed stays as it was, True becomes False)"""
    return disowned(u0, u1, x)


class Abort(ConnSpec):
    """Connection.abort (no savepoint pending): every object that was new in the transaction belongs
    to no database any more (and is in no map of the connection), every other registered object in
    the cache is a ghost, all other objects are untouched, and the connection must join again"""
    func = CONN + '.abort'

    def setup(self, c, case=None):
        w = CM.mk_conn(c)
        return {'self': w.self, 'transaction': w.txn}

    def modifies(self, c, E):
        w = world(c)
        return self.universe_mods(c) | {(w.cache.id, 'dom'), (w.added.id, 'dom'), (w.creating.id, 'dom'),
                                        (w.self.id, '_creating'), (w.self.id, '_needs_to_join'),
                                        (w.self.id, '_registered_objects')}

    def outcomes(self, c, E):
        w = world(c)

        def post(cc, E, r):
            u0, u1 = E.old[w.objects.id], U(cc, w)
            cache0, cache1 = E.old[w.cache.id], cc.obj(w.cache).f
            added0, added1 = E.old[w.added.id], cc.obj(w.added).f
            creating0 = E.old[w.creating.id]
            reg = E.old[w.registered.id]
            N = new_in_txn(cc, E, w)
            Bc = lambda x: z3.And(inlist(w, reg, x), z3.Not(sel(added0['dom'], sel(u0['oid'], x))),
                                  cached(u0, cache0, x))
            gone = lambda o: z3.And(sel(added0['dom'], o), inlist(w, reg, sel(added0['val'], o)))
            S = cc.obj(w.self).f
            ntj = S['_needs_to_join']
            return [
                ('new-objects-belong-to-no-database', All(['obj'], lambda x: z3.Implies(
                    N(x), not_owned(u0, u1, x)))),
                ('modified-objects-show-committed-state-on-next-access', All(['obj'], lambda x: z3.Implies(
                    z3.And(z3.Not(N(x)), Bc(x)), ghostified(u0, u1, x)))),
                ('every-other-object-untouched', All(['obj'], lambda x: z3.Implies(
                    z3.And(z3.Not(N(x)), z3.Not(Bc(x))), unchanged(u0, u1, x)))),
                ('new-objects-leave-the-cache', All(['oid'], lambda o: sel(cache1['dom'], o) == z3.And(
                    sel(cache0['dom'], o), z3.Not(gone(o)), z3.Not(sel(creating0['dom'], o))))),
                ('added-objects-leave-the-added-map', All(['oid'], lambda o: sel(added1['dom'], o) == z3.And(
                    sel(added0['dom'], o), z3.Not(gone(o))))),
                ('must-join-again', isinstance(ntj, VBool) and as_z3_bool(ntj.t)),
                ('registered-list-emptied', is_empty_list(cc, S['_registered_objects'])),
                ('creating-set-emptied', is_empty_dict(cc, S['_creating'])),
            ]
        return [Outcome('ok', result=lambda cc, E: NONE, post=post)]


# ======================================================================================
def in_modified(c, E, w):
    u0 = E.old[w.objects.id]
    cache0 = E.old[w.cache.id]
    bag = E.old[w.modified.id]['bag']
    return lambda x: z3.And(cached(u0, cache0, x), sel(bag, sel(u0['oid'], x)) >= 1)


class TpcAbort(ConnSpec):
    """Connection.tpc_abort (failed commit; no savepoint pending): the storage transaction is aborted;
    objects stored as new or still only added belong to no database any more; objects stored as
    modified are ghosts; all others untouched; _added/_creating/_registered emptied"""
    func = CONN + '.tpc_abort'

    def setup(self, c, case=None):
        w = CM.mk_conn(c)
        CM.list_facts(c, c.obj(w.modified))
        return {'self': w.self, 'transaction': w.txn}

    def requires(self, c, E):
        return conninv(c, world(c), only=('CACHE-INV', 'ADDED-INV', 'OID-INJ', 'OID-RANGE',
                                          'ADDED-NOT-MODIFIED'))

    def modifies(self, c, E):
        w = world(c)
        return self.universe_mods(c) | {(w.cache.id, 'dom'), (w.added.id, 'dom'), (w.creating.id, 'dom'),
                                        (w.self.id, '_creating'), (w.self.id, '_needs_to_join'),
                                        (w.self.id, '_registered_objects'), (w.self.id, '_import')}

    def effect(self, cc, E, added_now):
        w = world(cc)
        u0, u1 = E.old[w.objects.id], U(cc, w)
        cache0, cache1 = E.old[w.cache.id], cc.obj(w.cache).f
        added0 = E.old[w.added.id]
        creating0 = E.old[w.creating.id]
        M = in_modified(cc, E, w)
        Ccr = lambda x: z3.And(cached(u0, cache0, x), sel(creating0['dom'], sel(u0['oid'], x)))
        Ad = lambda x: z3.And(sel(u0['oid'], x) >= 0, sel(added0['dom'], sel(u0['oid'], x)),
                              sel(added0['val'], sel(u0['oid'], x)) == x,
                              z3.Not(sel(added_now['dom'], sel(u0['oid'], x))))
        N = lambda x: z3.Or(Ccr(x), Ad(x))
        return [
            ('new-objects-belong-to-no-database', All(['obj'], lambda x: z3.Implies(
                N(x), not_owned(u0, u1, x)))),
            ('modified-objects-show-committed-state-on-next-access', All(['obj'], lambda x: z3.Implies(
                z3.And(z3.Not(N(x)), M(x)), ghostified(u0, u1, x)))),
            ('every-other-object-untouched', All(['obj'], lambda x: z3.Implies(
                z3.And(z3.Not(N(x)), z3.Not(M(x))), unchanged(u0, u1, x)))),
            ('created-objects-leave-the-cache', All(['oid'], lambda o: sel(cache1['dom'], o) == z3.And(
                sel(cache0['dom'], o), z3.Not(sel(creating0['dom'], o))))),
            ('added-map-values-untouched', added_now['val'] == added0['val']),
            ('added-map-only-shrinks', All(
                ['oid'], lambda o: z3.Implies(sel(added_now['dom'], o), sel(added0['dom'], o)))),
        ]

    @property
    def loops(self):
        def hv(cc, fr):
            w = world(cc)
            havoc_universe(cc, w)
            o = cc.obj(w.added)
            o.f['dom'] = z3.Array(fresh_name('added_dom'), I, B)
            cc.roles.array(o.f['dom'], 'oid')

        def inv(cc, fr):
            w = world(cc)
            S = cc.obj(w.self).f
            return self.effect(cc, cc.E, cc.obj(w.added).f) + [
                ('storage-transaction-aborted-first', any(e[0] == 'storage.tpc_abort' for e in cc.events)),
                ('creating-set-forgotten', is_empty_dict(cc, S['_creating']))]
        none = lambda cc, fr: NONE
        return {0: LoopSpec(inv=inv, havoc=hv, kinds={'oid': none, 'obj': none})}

    def outcomes(self, c, E):
        w = world(c)

        def post(cc, E, r):
            S = cc.obj(w.self).f
            ntj = S['_needs_to_join']
            ev = [e for e in cc.events if e[0] == 'storage.tpc_abort']
            td = cc.ghost.get('txn_data')
            return self.effect(cc, E, cc.obj(w.added).f) + [
                ('added-map-emptied', All(['oid'], lambda o: z3.Not(sel(cc.obj(w.added).f['dom'], o)))),
                ('storage-transaction-aborted-once-with-this-transaction',
                 bool(getattr(cc, 'in_apply', 0)) or (len(ev) == 1 and td is not None and
                                                       isinstance(ev[0][1], VOpaque) and ev[0][1].t.eq(td.t))),
                ('must-join-again', isinstance(ntj, VBool) and as_z3_bool(ntj.t)),
                ('registered-list-emptied', is_empty_list(cc, S['_registered_objects'])),
                ('creating-set-emptied', is_empty_dict(cc, S['_creating'])),
            ]
        return [Outcome('ok', result=lambda cc, E: NONE, post=post)]


# ======================================================================================
class TpcFinish(ConnSpec):
    """Connection.tpc_finish: after the storage has finished, every object stored in this transaction
    (as modified or as new) that is in the cache and not a ghost is clean and carries the new
    transaction id; ghosts and all other objects are untouched; bookkeeping reset.  If the
    storage's finish raises, nothing has been touched."""
    func = CONN + '.tpc_finish'

    def setup(self, c, case=None):
        w = CM.mk_conn(c)
        CM.list_facts(c, c.obj(w.modified))
        return {'self': w.self, 'transaction': w.txn}

    def requires(self, c, E):
        return conninv(c, world(c), only=('CACHE-INV', 'OID-INJ', 'OID-RANGE'))

    def modifies(self, c, E):
        w = world(c)
        return self.universe_mods(c) | {(w.creating.id, 'dom'), (w.self.id, '_needs_to_join'),
                                        (w.self.id, '_registered_objects')}

    def effect(self, cc, E, tid, done):
        """done: lambda oid -> Bool: the oid has been visited"""
        w = world(cc)
        u0, u1 = E.old[w.objects.id], U(cc, w)
        cache0 = E.old[w.cache.id]
        hit = lambda x: z3.And(cached(u0, cache0, x), done(sel(u0['oid'], x)),
                               sel(u0['changed'], x) != -1)
        return [
            ('stored-objects-are-clean-and-carry-the-transaction-id', All(['obj'], lambda x: z3.Implies(
                hit(x), z3.And(sel(u1['changed'], x) == 0, sel(u1['serial'], x) == tid,
                               sel(u1['oid'], x) == sel(u0['oid'], x),
                               sel(u1['jar'], x) == sel(u0['jar'], x))))),
            ('ghosts-and-all-other-objects-untouched', All(['obj'], lambda x: z3.Implies(
                z3.Not(hit(x)), unchanged(u0, u1, x)))),
        ]

    @property
    def loops(self):
        def hv(cc, fr):
            havoc_universe(cc, world(cc))

        def inv(cc, fr):
            w = world(cc)
            cur = fr.locals.get('$iter1')
            tid = cc.ghost.get('committed_tid')
            if cur is None or tid is None:
                raise ContractStale('the loop contract expects the local(s) it names (iterating-after-the-storage-finished): the code has a different shape')
            t = bytes_num(cc, tid)
            mod0 = cc.E.old[w.modified.id]
            cr0 = cc.E.old[w.creating.id]
            if isinstance(cur, prims.SlistCursor):
                # first pass: the list of modified oids, by index
                seen = lambda o: z3.And(sel(w.mfirst, o) >= 0, sel(w.mfirst, o) < cur.idx,
                                        sel(w.mfirst, o) < mod0['len'],
                                        sel(mod0['arr'], sel(w.mfirst, o)) == o)
                extra = [('iterating-the-modified-list', z3.And(cur.arr0 == mod0['arr'],
                                                                cur.len0 == mod0['len']))]
            else:
                cc.roles.array(cur.visited, 'oid')
                seen = lambda o: z3.Or(sel(mod0['bag'], o) >= 1, sel(cur.visited, o))
                extra = [('iterating-the-creating-map', cur.dom0 == cr0['dom'])]
            return extra + self.effect(cc, cc.E, t, seen)
        none = lambda cc, fr: NONE
        return {1: LoopSpec(inv=inv, havoc=hv, kinds={'obj': none})}

    def outcomes(self, c, E):
        w = world(c)

        def post(cc, E, r):
            S = cc.obj(w.self).f
            ntj = S['_needs_to_join']
            tid = cc.ghost.get('committed_tid')
            mod0, cr0 = E.old[w.modified.id], E.old[w.creating.id]
            stored = lambda o: z3.Or(sel(mod0['bag'], o) >= 1, sel(cr0['dom'], o))
            ev = [e for e in cc.events if e[0] == 'storage.tpc_finish']
            return self.effect(cc, E, bytes_num(cc, tid), stored) + [
                ('storage-finished-exactly-once', bool(getattr(cc, 'in_apply', 0)) or len(ev) == 1),
                ('must-join-again', isinstance(ntj, VBool) and as_z3_bool(ntj.t)),
                ('registered-list-emptied', is_empty_list(cc, S['_registered_objects'])),
                ('creating-set-emptied', is_empty_dict(cc, S['_creating'])),
            ]

        def post_fail(cc, E, x):
            # the transaction machinery calls tpc_abort next: it needs _creating/_modified/_added intact
            u0, u1 = E.old[w.objects.id], U(cc, w)
            S0, S1 = E.old[w.self.id], cc.obj(w.self).f
            cr0, cr1 = E.old[w.creating.id], cc.obj(w.creating).f
            return [('nothing-touched', All(['obj'], lambda x_: unchanged(u0, u1, x_))),
                    ('creating-set-kept-for-the-abort-that-follows',
                     isinstance(S1['_creating'], VRef) and S1['_creating'].id == w.creating.id
                     and cr1['dom'] is cr0['dom']),
                    ('join-state-and-registered-list-kept', z3.And(
                        contract.same_value(cc, S0['_needs_to_join'], S1['_needs_to_join']),
                        contract.same_value(cc, S0['_registered_objects'], S1['_registered_objects'])))]
        return [Outcome('ok', result=lambda cc, E: NONE, post=post),
                Outcome('storage-failed', 'raise', 'builtins:Exception', post=post_fail)]


# ======================================================================================
def appended(cc, w, reg0, x):
    """the registered list is the old one followed by object x"""
    S = cc.obj(w.self).f
    r = S['_registered_objects']
    if not (isinstance(r, VRef) and cc.obj(r).kind == 'slist'):
        return False
    r1 = cc.obj(r).f
    return z3.And(r1['len'] == reg0['len'] + 1, r1['arr'] == z3.Store(reg0['arr'], reg0['len'], x))


def same_list(cc, w, reg0):
    S = cc.obj(w.self).f
    r = S['_registered_objects']
    if not (isinstance(r, VRef) and cc.obj(r).kind == 'slist'):
        return False
    r1 = cc.obj(r).f
    return z3.And(r1['len'] == reg0['len'], r1['arr'] == reg0['arr'])


def joins(cc):
    return [e for e in cc.events if e[0] in ('txn.join', 'txn.join-refused')]


class Register_(ConnSpec):
    """Connection._register: joins the current transaction first if the connection is not joined, then
    appends the object; if joining is refused nothing changes - in particular the connection does NOT
    consider itself joined"""
    func = CONN + '._register'
    cases = ('object', 'no-object')

    def setup(self, c, case=None):
        w = CM.mk_conn(c)
        return {'self': w.self, 'obj': CM.fresh_pobj(c) if case == 'object' else NONE}

    def requires(self, c, E):
        return []

    def modifies(self, c, E):
        w = world(c)
        return {(w.self.id, '_needs_to_join'), (w.registered.id, 'arr'), (w.registered.id, 'len')}

    def havoc(self, c, E, outcome=None):
        w = world(c)
        S = c.obj(w.self).f
        if outcome is not None and outcome.label == 'registered':
            S['_needs_to_join'] = VBool(False)
            if not isinstance(E['obj'], VNone):
                r = c.obj(S['_registered_objects'])
                r.f['arr'] = z3.Store(r.f['arr'], r.f['len'], E['obj'].t)
                r.f['len'] = z3.simplify(r.f['len'] + 1)

    def outcomes(self, c, E):
        w = world(c)
        ntj0 = as_z3_bool(c.obj(w.self).f['_needs_to_join'].t)
        reg0 = dict(c.obj(w.registered).f)

        def post_ok(cc, E, r):
            S = cc.obj(w.self).f
            ntj = S['_needs_to_join']
            js = joins(cc)
            out = [('joined', isinstance(ntj, VBool) and z3.Not(as_z3_bool(ntj.t)))]
            if not getattr(cc, 'in_apply', 0):
                out.append(('joins-exactly-when-not-joined', z3.If(ntj0, len(js) == 1, len(js) == 0)))
            if isinstance(E['obj'], VNone):
                out.append(('registered-list-untouched', same_list(cc, w, reg0)))
            else:
                out.append(('object-appended-to-the-registered-list', appended(cc, w, reg0, E['obj'].t)))
            return out

        def post_refused(cc, E, x):
            S = cc.obj(w.self).f
            return [('still-not-joined', contract.same_value(cc, VBool(ntj0), S['_needs_to_join'])),
                    ('registered-list-untouched', same_list(cc, w, reg0))]
        return [Outcome('registered', result=lambda cc, E: NONE, post=post_ok),
                Outcome('join-refused', 'raise', 'builtins:Exception', guard=ntj0, post=post_refused)]


class Register(ConnSpec):
    """Connection.register (called by the persistence machinery when an object is first modified): the decision
    table below holds for a HISTORICAL connection exactly as for a live one - a modification made through a historical
    connection is registered like any other, which is what makes its commit reach _commit and fail there (C15), and
    what lets abort revert it."""
    func = CONN + '.register'
    props = ('C11', 'C15')
    cases = ('live', 'historical')

    def setup(self, c, case=None):
        w = CM.mk_conn(c)
        if case == 'historical':
            c.obj(w.self).f['before'] = c.fresh_bytes(8, 'before')
        return {'self': w.self, 'obj': CM.fresh_pobj(c)}

    def requires(self, c, E):
        return conninv(c, world(c), only=('OID-RANGE',))

    def modifies(self, c, E):
        return Register_.modifies(self, c, E)

    def outcomes(self, c, E):
        w = world(c)
        u = U(c, w)
        x = E['obj'].t
        ntj0 = as_z3_bool(c.obj(w.self).f['_needs_to_join'].t)
        reg0 = dict(c.obj(w.registered).f)
        added = c.obj(w.added).f
        mine = sel(u['jar'], x) == 1
        has_oid = sel(u['oid'], x) >= 0
        is_added = sel(added['dom'], sel(u['oid'], x))

        def untouched(cc, E, r):
            S = cc.obj(w.self).f
            return [('join-state-untouched', contract.same_value(cc, VBool(ntj0), S['_needs_to_join'])),
                    ('registered-list-untouched', same_list(cc, w, reg0))]

        def post_ok(cc, E, r):
            S = cc.obj(w.self).f
            ntj = S['_needs_to_join']
            return [('joined', isinstance(ntj, VBool) and z3.Not(as_z3_bool(ntj.t))),
                    ('object-appended-to-the-registered-list', appended(cc, w, reg0, x))]
        return [Outcome('foreign-object', 'raise', 'builtins:AssertionError', guard=z3.Not(mine),
                        post=untouched),
                Outcome('no-oid', 'raise', 'builtins:ValueError', guard=z3.And(mine, z3.Not(has_oid)),
                        post=untouched),
                Outcome('already-added', guard=z3.And(mine, has_oid, is_added), post=untouched),
                Outcome('registered', guard=z3.And(mine, has_oid, z3.Not(is_added)), post=post_ok),
                Outcome('join-refused', 'raise', 'builtins:Exception',
                        guard=z3.And(mine, has_oid, z3.Not(is_added), ntj0), post=untouched)]


class Add_(ConnSpec):
    """Connection._add: the object becomes this connection's, under the given oid, registered and
    listed as added; if joining the transaction is refused the object still belongs to no database"""
    func = CONN + '._add'

    def setup(self, c, case=None):
        w = CM.mk_conn(c)
        return {'self': w.self, 'obj': CM.fresh_pobj(c), 'oid': c.fresh_bytes(8, 'oid')}

    def requires(self, c, E):
        return conninv(c, world(c), only=('OID-RANGE',))

    def modifies(self, c, E):
        w = world(c)
        return self.universe_mods(c) | Register_.modifies(self, c, E) | {
            (w.added.id, 'dom'), (w.added.id, 'val')}

    def havoc(self, c, E, outcome=None):
        w = world(c)
        if outcome is not None and outcome.label == 'added':
            Register_.havoc(self, c, E, type('o', (), {'label': 'registered'}))
            u = U(c, w)
            x, o = E['obj'].t, bytes_num(c, E['oid'])
            u['oid'] = z3.Store(u['oid'], x, o)
            u['jar'] = z3.Store(u['jar'], x, 1)
            a = c.obj(w.added).f
            a['dom'] = z3.Store(a['dom'], o, z3.BoolVal(True))
            a['val'] = z3.Store(a['val'], o, x)

    def outcomes(self, c, E):
        w = world(c)
        u0 = dict(U(c, w))
        x, o = E['obj'].t, bytes_num(c, E['oid'])
        ntj0 = as_z3_bool(c.obj(w.self).f['_needs_to_join'].t)
        reg0 = dict(c.obj(w.registered).f)
        added0 = dict(c.obj(w.added).f)
        fresh = sel(u0['oid'], x) == -1

        def post_ok(cc, E, r):
            u1 = U(cc, w)
            a1 = cc.obj(w.added).f
            S = cc.obj(w.self).f
            ntj = S['_needs_to_join']
            return [
                ('object-owned-by-this-connection-under-the-oid', z3.And(
                    u1['oid'] == z3.Store(u0['oid'], x, o), u1['jar'] == z3.Store(u0['jar'], x, 1),
                    u1['serial'] == u0['serial'], u1['changed'] == u0['changed'])),
                ('listed-as-added', z3.And(a1['dom'] == z3.Store(added0['dom'], o, z3.BoolVal(True)),
                                           a1['val'] == z3.Store(added0['val'], o, x))),
                ('joined', isinstance(ntj, VBool) and z3.Not(as_z3_bool(ntj.t))),
                ('object-appended-to-the-registered-list', appended(cc, w, reg0, x)),
            ]

        def post_refused(cc, E, ex):
            u1 = U(cc, w)
            a1 = cc.obj(w.added).f
            S = cc.obj(w.self).f
            return [('object-still-belongs-to-no-database', All(['obj'], lambda y: unchanged(u0, u1, y))),
                    ('added-map-untouched', z3.And(a1['dom'] == added0['dom'], a1['val'] == added0['val'])),
                    ('still-not-joined', contract.same_value(cc, VBool(ntj0), S['_needs_to_join'])),
                    ('registered-list-untouched', same_list(cc, w, reg0))]
        return [Outcome('has-oid-already', 'raise', 'builtins:AssertionError', guard=z3.Not(fresh),
                        post=post_refused),
                Outcome('added', guard=fresh, result=lambda cc, E: NONE, post=post_ok),
                Outcome('join-refused', 'raise', 'builtins:Exception', guard=z3.And(fresh, ntj0),
                        post=post_refused)]


class Close(ConnSpec):
    """Connection.close refuses, before doing anything, while the connection is joined to a transaction"""
    func = CONN + '.close'
    cases = ('joined',)

    def setup(self, c, case=None):
        w = CM.mk_conn(c)
        c.obj(w.self).f['_needs_to_join'] = VBool(False)
        return {'self': w.self, 'primary': VBool(True)}

    def requires(self, c, E):
        return []

    def outcomes(self, c, E):
        def post(cc, E, x):
            return [('nothing-done', not [e for e in cc.events if e[0] != 'outcome:close'])]
        return [Outcome('refused', 'raise', ConnectionStateError, post=post)]


# ======================================================================================
class FrameOnlyCommit(ConnSpec):
    """_commit / savepoint / _commit_savepoint as Connection.commit sees them: they store objects (and
    drop written oids from _readCurrent); ASSUMED frame contracts - the storing itself is covered by the
    bounded harness"""
    verify = False
    props = ()

    def requires(self, c, E):
        return []

    def modifies(self, c, E):
        w = world(c)
        return self.universe_mods(c) | {(m_.id, '*') for m_ in (
            w.readCurrent, w.cache, w.added, w.creating, w.modified, w.registered)}

    def havoc(self, c, E, outcome=None):
        w = world(c)
        havoc_universe(c, w)
        for m_ in (w.readCurrent, w.cache, w.added, w.creating):
            havoc_map(c, m_)

    def outcomes(self, c, E):
        return [Outcome('ok', result=lambda cc, E: NONE),
                Outcome('fails', 'raise', 'builtins:Exception')]


class Commit_(FrameOnlyCommit):
    func = CONN + '._commit'


class Savepoint(FrameOnlyCommit):
    func = CONN + '.savepoint'


class CommitSavepoint(FrameOnlyCommit):
    func = CONN + '._commit_savepoint'


class Commit(ConnSpec):
    """Connection.commit: returns normally only after EVERY oid left in _readCurrent (those not written)
    has been handed, with the serial read, to the storage's checkCurrentSerialInTransaction inside the
    storage transaction of this commit - with and without savepoints; a conflict ghostifies the object"""
    func = CONN + '.commit'
    props = ('C03', 'C11')
    cases = ('plain', 'savepoint')

    def setup(self, c, case=None):
        w = CM.mk_conn(c)
        if case == 'savepoint':
            c.obj(w.self).f['_savepoint_storage'] = c.new_obj('inst', 'ZODB.Connection:TmpStore', {},
                                                              {'name': 'TmpStore'})
        return {'self': w.self, 'transaction': w.txn}

    def requires(self, c, E):
        return []

    def modifies(self, c, E):
        return FrameOnlyCommit.modifies(self, c, E)

    @property
    def loops(self):
        def hv(cc, fr):
            u = U(cc, world(cc))
            u['changed'] = z3.Array(fresh_name('changed'), I, I)
            world(cc).checked = z3.Array(fresh_name('checked'), I, B)
            cc.roles.array(world(cc).checked, 'oid')

        def inv(cc, fr):
            w = world(cc)
            cur = fr.locals.get('$iter0')
            if cur is None:
                raise ContractStale('the loop contract expects the local(s) it names (iterating): the code has a different shape')
            cc.roles.array(cur.visited, 'oid')
            return [('visited-oids-have-been-checked', All(['oid'], lambda o: z3.Implies(
                sel(cur.visited, o), sel(w.checked, o)))),
                ('iterating-the-read-current-map', z3.And(
                    cur.dom0 == cc.obj(w.readCurrent).f['dom'], cur.val0 == cc.obj(w.readCurrent).f['val']))]
        none = lambda cc, fr: NONE
        return {0: LoopSpec(inv=inv, havoc=hv, kinds={'oid': none, 'serial': none})}

    def outcomes(self, c, E):
        w = world(c)

        def post(cc, E, r):
            rc = cc.obj(w.readCurrent).f
            return [('every-read-current-oid-was-checked-in-this-transaction', All(
                ['oid'], lambda o: z3.Implies(sel(rc['dom'], o), sel(w.checked, o))))]
        return [Outcome('ok', result=lambda cc, E: NONE, post=post),
                Outcome('fails', 'raise', 'builtins:Exception')]


class TpcVote(ConnSpec):
    """Connection.tpc_vote: objects whose conflict the storage resolved are ghostified (so that the
    resolved state is loaded on next access); a read conflict ghostifies the object named"""
    func = CONN + '.tpc_vote'
    props = ('C10', 'C11')

    def setup(self, c, case=None):
        w = CM.mk_conn(c)
        return {'self': w.self, 'transaction': w.txn}

    def requires(self, c, E):
        return conninv(c, world(c), only=('CACHE-INV', 'OID-INJ', 'OID-RANGE'))

    def modifies(self, c, E):
        w = world(c)
        return {(w.objects.id, 'changed')}

    def effect(self, cc, E, seen):
        w = world(cc)
        u0, u1 = E.old[w.objects.id], U(cc, w)
        cache0 = E.old[w.cache.id]
        hit = lambda x: z3.And(cached(u0, cache0, x), seen(sel(u0['oid'], x)))
        return [('resolved-objects-become-ghosts', All(['obj'], lambda x: z3.Implies(
            hit(x), sel(u1['changed'], x) == -1))),
            ('every-other-object-untouched', All(['obj'], lambda x: z3.Implies(
                z3.Not(hit(x)), sel(u1['changed'], x) == sel(u0['changed'], x))))]

    @property
    def loops(self):
        def hv(cc, fr):
            u = U(cc, world(cc))
            u['changed'] = z3.Array(fresh_name('changed'), I, I)
            cc.roles.array(u['changed'], 'obj')

        def inv(cc, fr):
            cur = fr.locals.get('$iter0')
            r = cc.ghost.get('resolved')
            if cur is None or r is None:
                raise ContractStale('the loop contract expects the local(s) it names (iterating-the-resolved-list): the code has a different shape')
            ro = cc.obj(r).f
            first = cc.ghost['resolved_first']
            seen = lambda o: z3.And(sel(first, o) >= 0, sel(first, o) < cur.idx, sel(first, o) < ro['len'],
                                    sel(ro['arr'], sel(first, o)) == o)
            return [('iterating-the-resolved-list', z3.And(cur.arr0 == ro['arr'], cur.len0 == ro['len']))] + \
                self.effect(cc, cc.E, seen)
        return {0: LoopSpec(inv=inv, havoc=hv, kinds={'obj': lambda cc, fr: NONE})}

    def outcomes(self, c, E):
        w = world(c)

        def post(cc, E, r):
            res = cc.ghost.get('resolved')
            if res is None:
                u0, u1 = E.old[w.objects.id], U(cc, w)
                return [('nothing-resolved.nothing-touched', u1['changed'] == u0['changed'])]
            bag = cc.obj(res).f['bag']
            return self.effect(cc, E, lambda o: sel(bag, o) >= 1)

        def post_conflict(cc, E, x):
            u0, u1 = E.old[w.objects.id], U(cc, w)
            cache0 = E.old[w.cache.id]
            oid = cc.ghost.get('conflict_oid')
            if oid is None:
                return [('conflict-oid', False)]
            k = bytes_num(cc, oid)
            return [('conflicting-object-becomes-a-ghost', z3.Implies(
                sel(cache0['dom'], k), sel(u1['changed'], sel(cache0['val'], k)) == -1)),
                ('every-other-object-untouched', All(['obj'], lambda y: z3.Implies(
                    z3.Not(z3.And(sel(cache0['dom'], k), sel(cache0['val'], k) == y)),
                    sel(u1['changed'], y) == sel(u0['changed'], y))))]
        return [Outcome('voted', result=lambda cc, E: NONE, post=post),
                Outcome('read-conflict', 'raise', CM.ReadConflictError, post=post_conflict)]


TMPSTORE = 'ZODB.Connection:TmpStore'


def mk_tmpstore(c, w):
    """the savepoint storage as the connection sees it: index oid -> position of its latest record,
    creating oid -> flag, position (its own contracts are proved in C12: contracts.tmpstore)"""
    idx = prims.new_map(c, 'bytes8', 'int', 'sp_index')
    cr = prims.new_map(c, 'bytes8', 'bool', 'sp_creating')
    for m_ in (idx, cr):
        c.roles.array(c.obj(m_).f['dom'], 'oid')
        c.roles.array(c.obj(m_).f['val'], 'oid')
    src = inst(c, TMPSTORE, index=idx, creating=cr, position=c.fresh_int('sp_position'),
               _storage=w.storage, _closed=VBool(False))
    w.src, w.sp_index, w.sp_creating = src, idx, cr
    S = c.obj(w.self).f
    S['_storage'] = src
    S['_savepoint_storage'] = src
    return src


def install_tmpstore_hooks(c, hk):
    def reset(cc, args, kwargs, node):
        # TmpStore.reset(position, index, creating): installs COPIES (proved in contracts.tmpstore)
        me, pos, index, creating = args[0], args[1], args[2], args[3]
        o = cc.obj(me)
        for fld, src in (('index', index), ('creating', creating)):
            so = cc.obj(src)
            o.f[fld] = cc.new_obj('map', so.cls, dict(so.f), dict(so.meta))
        o.f['position'] = pos
        cc.event('tmpstore.reset', pos, index.id, creating.id)
        return NONE
    hk['call:' + TMPSTORE + '.reset'] = reset

    def close(cc, args, kwargs, node):
        cc.obj(args[0]).f['_closed'] = VBool(True)
        cc.event('tmpstore.close')
        return NONE
    hk['call:' + TMPSTORE + '.close'] = close


class RollbackSavepoint(ConnSpec):
    """Connection._rollback_savepoint(state): registered objects are aborted; objects created after the
    savepoint are disowned; every cached object with a record written AFTER the savepoint (position >=
    the saved position) is a ghost, so that its savepoint state is loaded on next access; the savepoint
    storage is reset to the saved state; every object not concerned keeps its attributes"""
    func = CONN + '._rollback_savepoint'
    props = ('C12', 'C11')

    def setup(self, c, case=None):
        w = CM.mk_conn(c)
        mk_tmpstore(c, w)
        sidx = prims.new_map(c, 'bytes8', 'int', 'saved_index')
        scr = prims.new_map(c, 'bytes8', 'bool', 'saved_creating')
        for m_ in (sidx, scr):
            c.roles.array(c.obj(m_).f['dom'], 'oid')
        w.saved = (c.fresh_int('saved_position'), sidx, scr)
        return {'self': w.self, 'state': VTuple(list(w.saved))}

    def hooks(self, c):
        hk = ConnSpec.hooks(self, c)
        install_tmpstore_hooks(c, hk)
        return hk

    def modifies(self, c, E):
        w = world(c)
        return self.universe_mods(c) | {(w.cache.id, 'dom'), (w.added.id, 'dom'),
                                        (w.self.id, '_registered_objects'), (w.src.id, 'index'),
                                        (w.src.id, 'creating'), (w.src.id, 'position')}

    def outcomes(self, c, E):
        w = world(c)
        spos, sidx, scr = w.saved

        def post(cc, E, r):
            u0, u1 = E.old[w.objects.id], U(cc, w)
            cache0, cache1 = E.old[w.cache.id], cc.obj(w.cache).f
            added0 = E.old[w.added.id]
            idx0, cr0 = E.old[w.sp_index.id], E.old[w.sp_creating.id]
            scr_dom = cc.obj(scr).f['dom']
            reg = E.old[w.registered.id]
            oid0 = lambda x: sel(u0['oid'], x)
            A = lambda x: z3.And(inlist(w, reg, x), sel(added0['dom'], oid0(x)))
            after = lambda o: z3.And(sel(cr0['dom'], o), z3.Not(sel(scr_dom, o)))
            CA = lambda x: z3.And(cached(u0, cache0, x), after(oid0(x)))
            N = lambda x: z3.Or(A(x), CA(x))
            written_after = lambda x: z3.And(cached(u0, cache0, x), sel(idx0['dom'], oid0(x)),
                                             sel(idx0['val'], oid0(x)) >= spos.t)
            own_creating0 = E.old[w.creating.id]
            modified = lambda x: z3.And(inlist(w, reg, x), z3.Not(sel(added0['dom'], oid0(x))),
                                        cached(u0, cache0, x), z3.Not(sel(own_creating0['dom'], oid0(x))))
            in_index = lambda x: z3.And(cached(u0, cache0, x), sel(idx0['dom'], oid0(x)))
            S = cc.obj(w.self).f
            src = cc.obj(w.src).f
            ev = [e for e in cc.events if e[0] == 'tmpstore.reset']
            return [
                ('objects-created-after-the-savepoint-belong-to-no-database', All(['obj'], lambda x: z3.Implies(
                    N(x), not_owned(u0, u1, x)))),
                ('objects-written-or-modified-after-the-savepoint-are-ghosts', All(['obj'], lambda x: z3.Implies(
                    z3.And(z3.Not(N(x)), z3.Or(written_after(x), modified(x))), ghostified(u0, u1, x)))),
                ('objects-saved-before-the-savepoint-keep-their-identity', All(['obj'], lambda x: z3.Implies(
                    z3.And(z3.Not(N(x)), in_index(x)),
                    z3.And(sel(u1['oid'], x) == oid0(x), sel(u1['jar'], x) == sel(u0['jar'], x),
                           sel(u1['serial'], x) == sel(u0['serial'], x),
                           z3.Or(sel(u1['changed'], x) == -1,
                                 sel(u1['changed'], x) == sel(u0['changed'], x)))))),
                ('every-other-object-untouched', All(['obj'], lambda x: z3.Implies(
                    z3.And(z3.Not(N(x)), z3.Not(in_index(x)), z3.Not(modified(x))), unchanged(u0, u1, x)))),
                ('created-objects-leave-the-cache', All(['oid'], lambda o: z3.Implies(
                    after(o), z3.Not(sel(cache1['dom'], o))))),
                ('registered-list-emptied', is_empty_list(cc, S['_registered_objects'])),
                ('savepoint-storage-reset-to-the-saved-state',
                 len(ev) == 1 and ev[0][1] is spos and ev[0][2] == sidx.id and ev[0][3] == scr.id),
            ]
        return [Outcome('ok', result=lambda cc, E: NONE, post=post)]


class CommitSavepointBody(ConnSpec):
    """Connection._commit_savepoint (the real body; call sites use the frame contract above): on EVERY
    exit - also when a store raises - the connection is back on its real storage, the savepoint storage
    is closed, and the bookkeeping the abort path needs is complete: every oid of the savepoint index is
    listed as modified and every object created in a savepoint is listed in _creating.  A normal
    return means every oid of the index was stored in the storage transaction of this commit."""
    func = CONN + '._commit_savepoint'
    props = ('C12', 'C11', 'C02')
    callable_contract = False
    label = 'body'

    def setup(self, c, case=None):
        w = CM.mk_conn(c)
        CM.list_facts(c, c.obj(w.modified))
        mk_tmpstore(c, w)
        c.obj(w.self).f['_storage'] = w.src
        c.obj(w.self).f['_log'] = prims.LOGGER
        c.obj(w.self).f['_reader'] = c.fresh_opaque('reader')
        w.stored = z3.K(I, z3.BoolVal(False))
        c.ghost['txn_data'] = c.fresh_opaque('txn_data')
        return {'self': w.self, 'transaction': c.ghost['txn_data']}

    def requires(self, c, E):
        return []

    def hooks(self, c):
        hk = ConnSpec.hooks(self, c)
        install_tmpstore_hooks(c, hk)
        base_method = hk['opaque_method']

        def load(cc, args, kwargs, node):
            return VTuple([cc.fresh_barr('sp_data'), cc.fresh_bytes(8, 'sp_serial')])
        hk['call:' + TMPSTORE + '.load'] = load
        hk['call:' + TMPSTORE + '.loadBlob'] = lambda cc, a, k, n: cc.fresh_opaque('blobfilename')

        def method(cc, v, name, args, kwargs, node):
            if v.tag == 'reader' and name == 'getGhost':
                return cc.fresh_opaque('ghost_of_record')
            return base_method(cc, v, name, args, kwargs, node)
        hk['opaque_method'] = method
        hk['opaque_isinstance'] = lambda cc, v, n: bool(cc.choose([True, True], 'is-a-blob') == 0) \
            if v.tag == 'ghost_of_record' else None
        return hk

    def modifies(self, c, E):
        w = world(c)
        return {(w.self.id, '_storage'), (w.self.id, '_savepoint_storage'), (w.modified.id, '*'),
                (w.creating.id, 'dom'), (w.creating.id, 'val'), (w.readCurrent.id, 'dom'),
                (w.objects.id, 'changed'), (w.src.id, '_closed')}

    def bookkeeping(self, cc, E):
        w = world(cc)
        S = cc.obj(w.self).f
        idx0, cr0 = E.old[w.sp_index.id], E.old[w.sp_creating.id]
        cr1 = cc.obj(w.creating).f
        mod1 = cc.obj(w.modified).f
        closed = cc.obj(w.src).f['_closed']
        return [
            ('back-on-the-real-storage', isinstance(S['_storage'], VRef) and S['_storage'].id == w.storage.id
             and isinstance(S['_savepoint_storage'], VNone)),
            ('savepoint-storage-closed', isinstance(closed, VBool) and as_z3_bool(closed.t)),
            ('objects-created-in-savepoints-are-listed-as-created', All(['oid'], lambda o: z3.Implies(
                sel(cr0['dom'], o), sel(cr1['dom'], o)))),
            ('oids-of-the-savepoint-index-are-listed-as-modified', All(['oid'], lambda o: z3.Implies(
                sel(idx0['dom'], o), sel(mod1['bag'], o) >= 1))),
        ]

    @property
    def loops(self):
        def hv(cc, fr):
            w = world(cc)
            u = U(cc, w)
            u['changed'] = z3.Array(fresh_name('changed'), I, I)
            cc.roles.array(u['changed'], 'obj')
            o = cc.obj(w.readCurrent)
            o.f['dom'] = z3.Array(fresh_name('rc_dom'), I, B)
            w.stored = z3.Array(fresh_name('stored'), I, B)
            cc.roles.array(w.stored, 'oid')

        def inv(cc, fr):
            w = world(cc)
            cur = fr.locals.get('$iter0')
            oids = fr.locals.get('oids')
            if cur is None or not isinstance(oids, VRef):
                raise ContractStale('the loop contract expects the local(s) it names (iterating-the-sorted-oids): the code has a different shape')
            lo = cc.obj(oids).f
            return [('iterating-the-sorted-oids', z3.And(cur.arr0 == lo['arr'], cur.len0 == lo['len'])),
                    ('oids-visited-so-far-are-stored', All(['sidx'], lambda i: z3.Implies(
                        z3.And(i >= 0, i < cur.idx), sel(w.stored, sel(lo['arr'], i)))))] + \
                self.bookkeeping(cc, cc.E)[2:]
        none = lambda cc, fr: NONE
        return {0: LoopSpec(inv=inv, havoc=hv, kinds={'data': none, 'serial': none, 'obj': none,
                                                      'blobfilename': none})}

    def outcomes(self, c, E):
        w = world(c)

        def post_ok(cc, E, r):
            idx0 = E.old[w.sp_index.id]
            return self.bookkeeping(cc, E) + [
                ('every-oid-of-the-savepoint-index-was-stored-in-this-transaction', All(
                    ['oid'], lambda o: z3.Implies(sel(idx0['dom'], o), sel(w.stored, o))))]
        return [Outcome('ok', result=lambda cc, E: NONE, post=post_ok),
                Outcome('store-failed', 'raise', 'builtins:Exception',
                        post=lambda cc, E, x: self.bookkeeping(cc, E))]


class AbortSavepoint(ConnSpec):
    """Connection._abort_savepoint: every object created in a savepoint (filed in the cache) is disowned
    and leaves the cache, every other cached object with a record in the savepoint storage becomes a
    ghost, the connection is back on its real storage and the savepoint storage is closed"""
    func = CONN + '._abort_savepoint'
    props = ('C12', 'C11')

    def setup(self, c, case=None):
        w = CM.mk_conn(c)
        mk_tmpstore(c, w)
        return {'self': w.self}

    def requires(self, c, E):
        return conninv(c, world(c), only=('CACHE-INV', 'OID-INJ', 'OID-RANGE'))

    def hooks(self, c):
        hk = ConnSpec.hooks(self, c)
        install_tmpstore_hooks(c, hk)
        return hk

    def modifies(self, c, E):
        w = world(c)
        return self.universe_mods(c) | {(w.cache.id, 'dom'), (w.self.id, '_storage'),
                                        (w.self.id, '_savepoint_storage'), (w.src.id, '_closed')}

    def outcomes(self, c, E):
        w = world(c)

        def post(cc, E, r):
            u0, u1 = E.old[w.objects.id], U(cc, w)
            cache0, cache1 = E.old[w.cache.id], cc.obj(w.cache).f
            idx0, cr0 = E.old[w.sp_index.id], E.old[w.sp_creating.id]
            oid0 = lambda x: sel(u0['oid'], x)
            created = lambda x: z3.And(cached(u0, cache0, x), sel(cr0['dom'], oid0(x)))
            stored = lambda x: z3.And(cached(u0, cache0, x), sel(idx0['dom'], oid0(x)))
            S = cc.obj(w.self).f
            closed = cc.obj(w.src).f['_closed']
            return [
                ('objects-created-in-savepoints-belong-to-no-database', All(['obj'], lambda x: z3.Implies(
                    created(x), not_owned(u0, u1, x)))),
                ('objects-stored-in-savepoints-are-ghosts', All(['obj'], lambda x: z3.Implies(
                    z3.And(z3.Not(created(x)), stored(x)), ghostified(u0, u1, x)))),
                ('every-other-object-untouched', All(['obj'], lambda x: z3.Implies(
                    z3.And(z3.Not(created(x)), z3.Not(stored(x))), unchanged(u0, u1, x)))),
                ('created-objects-leave-the-cache', All(['oid'], lambda o: sel(cache1['dom'], o) == z3.And(
                    sel(cache0['dom'], o), z3.Not(sel(cr0['dom'], o))))),
                ('back-on-the-real-storage', isinstance(S['_storage'], VRef) and S['_storage'].id == w.storage.id
                 and isinstance(S['_savepoint_storage'], VNone)),
                ('savepoint-storage-closed', isinstance(closed, VBool) and as_z3_bool(closed.t)),
            ]
        return [Outcome('ok', result=lambda cc, E: NONE, post=post)]


class Add(ConnSpec):
    """Connection.add: decision table over (connection open?, object's jar)"""
    func = CONN + '.add'
    cases = ('open', 'closed')

    def setup(self, c, case=None):
        w = CM.mk_conn(c)
        if case == 'closed':
            c.obj(w.self).f['opened'] = NONE
        return {'self': w.self, 'obj': CM.fresh_pobj(c)}

    def requires(self, c, E):
        return conninv(c, world(c), only=('OID-RANGE',))

    def modifies(self, c, E):
        return Add_.modifies(self, c, E)

    def outcomes(self, c, E):
        w = world(c)
        u0 = dict(U(c, w))
        x = E['obj'].t
        closed = isinstance(c.obj(w.self).f['opened'], VNone)
        ntj0 = as_z3_bool(c.obj(w.self).f['_needs_to_join'].t)
        reg0 = dict(c.obj(w.registered).f)
        added0 = dict(c.obj(w.added).f)
        jar = sel(u0['jar'], x)

        def untouched(cc, E, r):
            u1 = U(cc, w)
            a1 = cc.obj(w.added).f
            S = cc.obj(w.self).f
            return [('objects-untouched', All(['obj'], lambda y: unchanged(u0, u1, y))),
                    ('added-map-untouched', z3.And(a1['dom'] == added0['dom'], a1['val'] == added0['val'])),
                    ('join-state-untouched', contract.same_value(cc, VBool(ntj0), S['_needs_to_join'])),
                    ('registered-list-untouched', same_list(cc, w, reg0))]

        def post_added(cc, E, r):
            u1 = U(cc, w)
            a1 = cc.obj(w.added).f
            o = sel(u1['oid'], x)
            return [('object-owned-by-this-connection', z3.And(sel(u1['jar'], x) == 1, o >= 0)),
                    ('listed-as-added-under-its-oid', z3.And(sel(a1['dom'], o), sel(a1['val'], o) == x)),
                    ('object-appended-to-the-registered-list', appended(cc, w, reg0, x)),
                    ('other-objects-untouched', All(['obj'], lambda y: z3.Implies(
                        y != x, unchanged(u0, u1, y))))]
        if closed:
            return [Outcome('closed', 'raise', ConnectionStateError, post=untouched)]
        return [Outcome('added', guard=z3.And(jar == 0, sel(u0['oid'], x) == -1), post=post_added),
                Outcome('inconsistent-object', 'raise', 'builtins:AssertionError',
                        guard=z3.And(jar == 0, sel(u0['oid'], x) != -1), post=untouched),
                Outcome('join-refused', 'raise', 'builtins:Exception',
                        guard=z3.And(jar == 0, ntj0), post=untouched),
                Outcome('already-mine', guard=jar == 1, post=untouched),
                Outcome('foreign', 'raise', 'ZODB.POSException:InvalidObjectReference', guard=jar >= 2,
                        post=untouched)]


SPECS = [InvalidateCreating, TpcCleanup, AbortRegistered, Abort, TpcAbort, TpcFinish, Register_, Register,
         Add_, Add, Close, Commit_, Savepoint, CommitSavepoint, Commit, TpcVote, RollbackSavepoint,
         AbortSavepoint]
VARIANTS = [CommitSavepointBody]
INLINE = [CONN + '.new_oid']

# ======================================================================================
class ResetCache(ConnSpec):
    """Connection._resetCache (run at the next open() after ZODB.Connection.resetCaches()): the connection gets a
    new EMPTY cache of the same size, and its ObjectReader - which resolves every reference found in a loaded
    record through ITS cache attribute - is switched to the same new cache.  CACHE-SHARED is what makes
    "one in-memory object per id per connection" (C14) hold for objects reached by get() and by reference."""
    func = CONN + '._resetCache'
    props = ('C14',)
    cases = ('reader-present', 'no-reader')

    def requires(self, c, E):
        return []

    def setup(self, c, case=None):
        w = CM.mk_conn(c)
        co = c.obj(w.cache)
        co.f['cache_size'] = c.fresh_int('cache_size')
        co.f['cache_size_bytes'] = c.fresh_int('cache_size_bytes')
        if case == 'reader-present':
            rd = inst(c, 'ZODB.serialize:ObjectReader', _conn=w.self, _cache=w.cache,
                      _factory=c.fresh_opaque('factory'))
            c.obj(w.self).f['_reader'] = rd
            c.ghost['reader'] = rd
        c.obj(w.self).f['_reset_counter'] = c.fresh_int('_reset_counter')
        return {'self': w.self}

    def hooks(self, c):
        hk = ConnSpec.hooks(self, c)

        def mk(cc, interp, args, kwargs, node):
            w = world(cc)
            n = prims.new_map(cc, 'bytes8', 'pobj', 'new_cache')
            o = cc.obj(n)
            o.kind = 'pcache'
            o.meta['world'] = w
            o.f['dom'] = z3.K(I, z3.BoolVal(False))
            o.f['cache_size'], o.f['cache_size_bytes'] = args[1], args[2]
            cc.event('new-cache', n.id, args[0])
            return n
        hk['prim:persistent.PickleCache'] = mk
        return hk

    def modifies(self, c, E):
        w = world(c)
        m = {(w.self.id, '_cache'), (w.self.id, '_reset_counter')}
        if 'reader' in c.ghost:
            m.add((c.ghost['reader'].id, '_cache'))
        return m

    def outcomes(self, c, E):
        w = world(c)
        old = c.obj(w.cache).f

        def post(c, E, r):
            made = [e for e in c.events if e[0] == 'new-cache']
            cur = c.obj(w.self).f['_cache']
            fresh = isinstance(cur, VRef) and len(made) == 1 and cur.id == made[0][1] and cur.id != w.cache.id
            out = [('connection-gets-one-new-empty-cache', fresh),
                   ('new-cache-belongs-to-this-connection',
                    bool(made) and isinstance(made[0][2], VRef) and made[0][2].id == w.self.id)]
            if fresh:
                n = c.obj(cur).f
                out.append(('same-size-limits', z3.And(n['cache_size'].t == old['cache_size'].t,
                                                       n['cache_size_bytes'].t == old['cache_size_bytes'].t)))
            if 'reader' in c.ghost:
                rc = c.obj(c.ghost['reader']).f['_cache']
                out.append(('CACHE-SHARED.reader-resolves-references-through-the-connection-cache',
                            isinstance(rc, VRef) and isinstance(cur, VRef) and rc.id == cur.id))
            return out
        return [Outcome('ok', result=lambda cc, E: NONE, post=post)]


SPECS.append(ResetCache)


# ======================================================================================
class CommitBody(ConnSpec):
    """Connection._commit (the real body; Connection.commit uses the frame contract Commit_):
    - a HISTORICAL connection (before is not None) refuses with ReadOnlyHistoryError before anything is handed to
      the storage (C15: "any attempt to commit through it fails");
    - otherwise every registered object that was explicitly added, or that is changed and is not one of the objects
      being created in this transaction, is handed (through an ObjectWriter of ITS OWN) to _store_objects with the
      transaction given - and no other registered object is; an object of another connection stops the commit
      (InvalidObjectReference).
    _store_objects is an ASSUMED call-site contract here (it may change any object state and the maps, keeps CONNINV
    and the registered list, may fail); objects added as a side effect of pickling (_added_during_commit) are
    outside (A-NO-ADD-DURING-COMMIT): bounded harness."""
    func = CONN + '._commit'
    props = ('C11', 'C15')
    label = 'body'
    callable_contract = False
    cases = ('live', 'historical')
    assumptions = tuple(CM.ASSUMPTIONS) + (
        'A-STORE-OBJECTS (call site in _commit): _store_objects(writer, transaction) may change object states and the '
        'cache/_added/_creating/_readCurrent/_modified bookkeeping, keeps CONNINV, ADDED-SERIAL and the list of registered objects, and '
        'may raise; A-NO-ADD-DURING-COMMIT: pickling adds no objects (_added_during_commit stays empty)',)

    def setup(self, c, case=None):
        w = CM.mk_conn(c)
        S = c.obj(w.self).f
        S['_import'] = NONE
        if case == 'historical':
            S['before'] = c.fresh_bytes(8, 'before')
        c.ghost['cb'] = {'ok': z3.BoolVal(True), 'ev0': 0, 'snap': None, 'txn': c.fresh_opaque('txn_data')}
        return {'self': w.self, 'transaction': c.ghost['cb']['txn']}

    @staticmethod
    def added_serial(c, w):
        """an explicitly added object has never been stored: its serial is still z64 (the code asserts it)"""
        u = U(c, w)
        a = c.obj(w.added).f
        return ('ADDED-SERIAL', All(['oid'], lambda o: z3.Implies(
            sel(a['dom'], o), sel(u['serial'], sel(a['val'], o)) == 0)))

    def requires(self, c, E):
        w = world(c)
        return list(conninv(c, w)) + [self.added_serial(c, w)]

    @staticmethod
    def must_store(snap, x):
        o = sel(snap['oid'], x)
        return z3.Or(sel(snap['added'], o), z3.And(z3.Not(sel(snap['creating'], o)), sel(snap['changed'], x) == 1))

    def snapshot(self, c):
        w = world(c)
        u = U(c, w)
        return {'oid': u['oid'], 'changed': u['changed'], 'added': c.obj(w.added).f['dom'],
                'creating': c.obj(w.creating).f['dom']}

    def hooks(self, c):
        hk = ConnSpec.hooks(self, c)
        spec = self

        def writer(cc, interp, args, kwargs, node):
            if not (len(args) == 1 and isinstance(args[0], VOpaque) and args[0].tag == 'pobj'):
                raise Unsupported('ObjectWriter(%r)' % (args,), node)
            return VOpaque(args[0].t, 'writer')

        def store_objects(cc, args, kwargs, node):
            g = cc.ghost['cb']
            wr, txn = (args + [None, None])[1:3]
            ok = isinstance(wr, VOpaque) and wr.tag == 'writer'
            cc.oblige('_store_objects.given-a-writer-and-the-transaction-of-this-commit',
                      ok and txn is g['txn'], node, assume_after=False)
            if ok:
                cc.oblige('_store_objects.only-for-an-added-or-changed-object-not-being-created',
                          spec.must_store(spec.snapshot(cc), wr.t), node, assume_after=False)
                cc.event('store-graph', wr.t)
            w = world(cc)
            havoc_universe(cc, w)
            for m_ in (w.readCurrent, w.cache, w.added, w.creating):
                havoc_map(cc, m_)
            for lbl, f in list(conninv(cc, w)) + [spec.added_serial(cc, w)]:
                cc.assume(f)
            if cc.choose([True, True], '_store_objects-outcome') == 1:
                raise RaiseSig(VExc('ZODB.POSException:ConflictError'))
            return NONE
        hk['construct:ZODB.serialize:ObjectWriter'] = writer
        hk['call:' + CONN + '._store_objects'] = store_objects
        return hk

    @property
    def loops(self):
        spec = self

        def hv(cc, fr):
            w = world(cc)
            havoc_universe(cc, w)
            for m_ in (w.readCurrent, w.cache, w.added, w.creating):
                havoc_map(cc, m_)
            g = cc.ghost['cb']
            g['ok'] = z3.BoolVal(True)
            g['ev0'] = len(cc.events)
            g['snap'] = None

        def inv(cc, fr):
            cur = fr.locals.get('$iter0')
            if cur is None:
                raise ContractStale('the loop contract expects to iterate the registered objects: the code has a '
                                    'different shape')
            w = world(cc)
            reg = cc.E.old[w.registered.id]
            g = cc.ghost['cb']
            if g['snap'] is None:
                g['snap'] = spec.snapshot(cc)       # the state the next iteration decides on
            return [('iterating-the-registered-list', z3.And(cur.arr0 == reg['arr'], cur.len0 == reg['len'])),
                    ('every-added-or-changed-registered-object-met-was-handed-to-the-storage', g['ok'])] + \
                list(conninv(cc, w)) + [spec.added_serial(cc, w)]

        def step(cc, fr):
            g = cc.ghost['cb']
            x = fr.locals.get('obj')
            if not (isinstance(x, VOpaque) and x.tag == 'pobj') or g['snap'] is None:
                raise ContractStale('the loop contract expects the local obj: the code has a different shape')
            evs = [e for e in cc.events[g['ev0']:] if e[0] == 'store-graph']
            own = [e for e in evs if e[1].eq(x.t)]
            foreign = len(own) != len(evs)
            must = spec.must_store(g['snap'], x.t)
            g['ok'] = z3.And(z3.BoolVal(not foreign and len(own) <= 1),
                             z3.BoolVal(True) if own else z3.Not(must))
            g['snap'] = None
        none = lambda cc, fr: NONE
        return {0: LoopSpec(inv=inv, havoc=hv, ghost_step=step, kinds={'oid': none})}

    def modifies(self, c, E):
        w = world(c)
        return self.universe_mods(c) | {(m_.id, '*') for m_ in (w.readCurrent, w.cache, w.added, w.creating)} | \
            {(w.self.id, '_added_during_commit'), (w.self.id, '_import')}

    def outcomes(self, c, E):
        w = world(c)
        hist = not isinstance(c.obj(w.self).f['before'], VNone)
        stored = lambda cc: [e for e in cc.events if e[0] == 'store-graph']
        if hist:
            return [Outcome('historical-connection-refuses', 'raise', 'ZODB.POSException:ReadOnlyHistoryError',
                            post=lambda cc, E, r: [('nothing-handed-to-the-storage', not stored(cc))])]
        return [Outcome('stored', result=lambda cc, E: NONE, post=lambda cc, E, r: [
                    ('side-effect-list-dropped', isinstance(cc.obj(w.self).f['_added_during_commit'], VNone))]),
                Outcome('storing-fails', 'raise', 'ZODB.POSException:ConflictError'),
                Outcome('foreign-object', 'raise', 'ZODB.POSException:InvalidObjectReference')]


VARIANTS.append(CommitBody)


# ======================================================================================
class ConnectionInit(Spec):
    """Connection.__init__: a connection constructed with a bound reads through the storage's before_instance(bound)
    - the SAME bound it reports as .before and that _commit tests (C15) - and a live one through new_instance();
    its ObjectReader resolves references through the connection's own cache (CACHE-SHARED, C14); the transaction
    bookkeeping starts empty and the connection still has to join (C11)."""
    func = CONN + '.__init__'
    props = ('C15', 'C14', 'C11')
    cases = ('live', 'historical')
    assumptions = CM.ASSUMPTIONS

    def setup(self, c, case=None):
        db = c.fresh_opaque('db')
        me = c.new_obj('inst', CONN, {}, {'name': 'connection'})
        before = c.fresh_bytes(8, 'before') if case == 'historical' else NONE
        c.ghost['ci'] = {'me': me, 'db': db, 'before': before, 'made': []}
        return {'self': me, 'db': db, 'cache_size': c.fresh_int('cache_size'), 'before': before,
                'cache_size_bytes': c.fresh_int('cache_size_bytes')}

    def hooks(self, c):
        g = lambda cc: cc.ghost['ci']

        def oattr(cc, v, name, node):
            if v.tag == 'db':
                if name == '_mvcc_storage':
                    return VOpaque(z3.Const('mvcc_storage', Obj), 'mvcc_storage')
                return VOpaque(z3.Const('db_' + name, Obj), 'db_' + name)
            return None

        def ometh(cc, v, name, args, kwargs, node):
            if v.tag == 'mvcc_storage' and name in ('before_instance', 'new_instance'):
                r = cc.fresh_opaque('storage_instance')
                cc.event('instance', name, tuple(args), r)
                return r
            return None

        def cache(cc, interp, args, kwargs, node):
            n = cc.fresh_opaque('new_cache')
            cc.event('new-cache', n, tuple(args))
            return n

        def reader(cc, interp, args, kwargs, node):
            r = inst(cc, 'ZODB.serialize:ObjectReader', _conn=args[0], _cache=args[1], _factory=args[2])
            cc.event('new-reader', r)
            return r
        return {'opaque_attr': oattr, 'opaque_method': ometh, 'opaque_is_none': lambda cc, v: False,
                'prim:persistent.PickleCache': cache, 'construct:ZODB.serialize:ObjectReader': reader,
                'opaque_truthy': lambda cc, v: True}

    def modifies(self, c, E):
        return {(c.ghost['ci']['me'].id, '*')}

    def outcomes(self, c, E):
        g = c.ghost['ci']

        def post(c, E, r):
            S = c.obj(g['me']).f
            insts = [e for e in c.events if e[0] == 'instance']
            caches = [e for e in c.events if e[0] == 'new-cache']
            st = S.get('_storage')
            out = [('one-storage-instance', len(insts) == 1 and st is insts[0][3] and S.get('_normal_storage') is st),
                   ('reports-the-bound-it-was-given', contract.same_value(c, S.get('before'), g['before'])),
                   ('no-savepoint-storage-and-still-to-join', isinstance(S.get('_savepoint_storage'), VNone) and
                    isinstance(S.get('_needs_to_join'), VBool) and S['_needs_to_join'].t is not None and
                    contract.same_value(c, S['_needs_to_join'], VBool(True))),
                   ('one-cache-belonging-to-this-connection', len(caches) == 1 and S.get('_cache') is caches[0][1] and
                    isinstance(caches[0][2][0], VRef) and caches[0][2][0].id == g['me'].id)]
            if insts:
                if isinstance(g['before'], VNone):
                    out.append(('live-connection-reads-through-new_instance', insts[0][1] == 'new_instance'))
                else:
                    a = insts[0][2]
                    out.append(('historical-connection-reads-through-before_instance-of-ITS-bound',
                                insts[0][1] == 'before_instance' and len(a) == 1 and isinstance(a[0], VBytes) and
                                bytes_num(c, a[0]) == bytes_num(c, g['before'])))
            rd = S.get('_reader')
            out.append(('CACHE-SHARED.reader-resolves-references-through-the-connection-cache',
                        isinstance(rd, VRef) and c.obj(rd).f.get('_cache') is S.get('_cache') and
                        isinstance(c.obj(rd).f.get('_conn'), VRef) and c.obj(rd).f['_conn'].id == g['me'].id))
            for nm in ('_registered_objects', '_modified'):
                v = S.get(nm)
                out.append(('%s-starts-empty' % nm, isinstance(v, VRef) and c.obj(v).kind == 'list' and
                            not c.obj(v).meta.get('items')))
            for nm in ('_added', '_creating', '_readCurrent'):
                v = S.get(nm)
                out.append(('%s-starts-empty' % nm, isinstance(v, VRef) and c.obj(v).kind == 'pydict' and
                            not c.obj(v).meta.get('pairs')))
            return out
        return [Outcome('ok', post=post, result=lambda cc, E: NONE)]


SPECS.append(ConnectionInit)


# ======================================================================================
class ReadCurrent(ConnSpec):
    """Connection.readCurrent(ob): the object's oid is recorded with the serial of the state THIS connection holds
    (so that commit can ask the storage whether that is still the current one: Connection.commit, proved above) -
    unless the object is new (serial z64: nothing committed to depend on); no other entry changes."""
    func = CONN + '.readCurrent'
    props = ('C03',)

    def setup(self, c, case=None):
        w = CM.mk_conn(c)
        x = CM.fresh_pobj(c)
        c.ghost['rcur'] = x
        return {'self': w.self, 'ob': x}

    def requires(self, c, E):
        w = world(c)
        u = U(c, w)
        x = c.ghost['rcur'].t
        return list(conninv(c, w)) + [('the-object-belongs-to-this-connection',
                                       z3.And(sel(u['jar'], x) == 1, sel(u['oid'], x) >= 0))]

    def modifies(self, c, E):
        w = world(c)
        return {(w.readCurrent.id, 'dom'), (w.readCurrent.id, 'val')}

    def outcomes(self, c, E):
        w = world(c)
        u = U(c, w)
        x = c.ghost['rcur'].t
        o, ser = sel(u['oid'], x), sel(u['serial'], x)
        d0, v0 = c.obj(w.readCurrent).f['dom'], c.obj(w.readCurrent).f['val']

        def post(cc, E, r):
            f = cc.obj(w.readCurrent).f
            return [('committed-object.recorded-with-the-serial-this-connection-holds', z3.Implies(
                        ser != 0, z3.And(sel(f['dom'], o), sel(f['val'], o) == ser))),
                    ('new-object.nothing-recorded', z3.Implies(ser == 0, z3.And(f['dom'] == d0, f['val'] == v0))),
                    ('other-entries-untouched', All(['oid'], lambda q: z3.Implies(q != o, z3.And(
                        sel(f['dom'], q) == sel(d0, q), sel(f['val'], q) == sel(v0, q)))))]
        return [Outcome('ok', result=lambda cc, E: NONE, post=post)]


SPECS.append(ReadCurrent)


# ======================================================================================
class SavepointBody(ConnSpec):
    """Connection.savepoint (the real body; Connection.commit uses the frame contract Savepoint): loads are
    redirected to the temporary store (created over the NORMAL storage at the first savepoint); the current changes
    are stored through _commit(None) (frame contract) with the connection's creating set emptied first; what that
    step created is added to the store's creating set; the connection's creating set and registered list end empty;
    the Savepoint object is given the state (position, COPY of the index, COPY of the creating set) - copies, so that
    later stores into the temporary store cannot change what a rollback restores (C12: "any number of times")."""
    func = CONN + '.savepoint'
    props = ('C12', 'C11')
    label = 'body'
    callable_contract = False
    cases = ('first-savepoint', 'later-savepoint')

    def setup(self, c, case=None):
        w = CM.mk_conn(c)
        if case == 'later-savepoint':
            mk_tmpstore(c, w)
        c.ghost['sv'] = {'case': case, 'made': [], 'sp': []}
        return {'self': w.self}

    def hooks(self, c):
        hk = ConnSpec.hooks(self, c)
        install_tmpstore_hooks(c, hk)

        def new_store(cc, interp, args, kwargs, node):
            w = world(cc)
            base = args[0] if args else None
            cc.ghost['sv']['made'].append(base)
            S = cc.obj(w.self).f
            keep = (S['_storage'], S['_savepoint_storage'])
            src = mk_tmpstore(cc, w)
            S['_storage'], S['_savepoint_storage'] = keep      # the code under verification assigns them
            for m_ in (w.sp_index, w.sp_creating):
                cc.obj(m_).f['dom'] = z3.K(I, z3.BoolVal(False))
            return src

        def savepoint_obj(cc, interp, args, kwargs, node):
            cc.ghost['sv']['sp'].append(tuple(args))
            return cc.fresh_opaque('savepoint')

        def gc(cc, args, kwargs, node):
            cc.event('cacheGC')
            return NONE
        hk['construct:' + TMPSTORE] = new_store
        hk['construct:ZODB.Connection:Savepoint'] = savepoint_obj
        hk['call:' + CONN + '.cacheGC'] = gc
        return hk

    def requires(self, c, E):
        return list(conninv(c, world(c)))

    def modifies(self, c, E):
        w = world(c)
        m = self.universe_mods(c) | {(m_.id, '*') for m_ in (w.readCurrent, w.cache, w.added, w.creating, w.modified,
                                                             w.registered)}
        m |= {(w.self.id, '_storage'), (w.self.id, '_savepoint_storage'), (w.self.id, '_registered_objects')}
        if getattr(w, 'src', None) is not None:
            m |= {(w.sp_creating.id, '*'), (w.src.id, '*'), (w.sp_index.id, '*')}
        return m

    def outcomes(self, c, E):
        w = world(c)
        g = c.ghost['sv']
        spc0 = c.obj(w.sp_creating).f['dom'] if g['case'] == 'later-savepoint' else z3.K(I, z3.BoolVal(False))

        def post(cc, E, r):
            S = cc.obj(w.self).f
            src = S.get('_savepoint_storage')
            ok = isinstance(src, VRef) and cc.obj(src).cls == TMPSTORE
            out = [('a-savepoint-storage-exists', ok),
                   ('loads-and-stores-redirected-to-it', ok and isinstance(S.get('_storage'), VRef) and
                    S['_storage'].id == src.id)]
            if g['case'] == 'first-savepoint':
                out.append(('temporary-store-built-over-the-normal-storage', len(g['made']) == 1 and
                            isinstance(g['made'][0], VRef) and g['made'][0].id == w.storage.id))
            else:
                out.append(('existing-temporary-store-kept', not g['made'] and ok and src.id == w.src.id))
            commits = [e for e in cc.events if e[0] == 'outcome:_commit']
            reg = S.get('_registered_objects')
            out += [('registered-list-ends-empty', isinstance(reg, VRef) and cc.obj(reg).kind in ('list', 'slist') and (
                        not cc.obj(reg).meta.get('items') if cc.obj(reg).kind == 'list' else cc.obj(reg).f['len'] == 0)),
                    ('connection-creating-set-ends-empty', All(['oid'], lambda o: z3.Not(sel(
                        cc.obj(S['_creating']).f['dom'], o))))]
            if ok and len(g['sp']) == 1 and len(g['sp'][0]) == 2 and isinstance(g['sp'][0][1], VTuple) and \
                    len(g['sp'][0][1].items) == 3:
                so = cc.obj(src).f
                pos, idx, cr = g['sp'][0][1].items
                out += [('savepoint-made-for-this-connection', isinstance(g['sp'][0][0], VRef) and
                         g['sp'][0][0].id == w.self.id),
                        ('state.position-is-the-stores-position', contract.same_value(cc, pos, so['position'])),
                        ('state.index-is-a-COPY-equal-and-not-aliased', isinstance(idx, VRef) and
                         idx.id != so['index'].id and z3.And(cc.obj(idx).f['dom'] == cc.obj(so['index']).f['dom'],
                                                             cc.obj(idx).f['val'] == cc.obj(so['index']).f['val'])),
                        ('state.creating-is-a-COPY-equal-and-not-aliased', isinstance(cr, VRef) and
                         cr.id != so['creating'].id and
                         cc.obj(cr).f['dom'] == cc.obj(so['creating']).f['dom'])]
            else:
                out.append(('one-savepoint-object-with-(position, index, creating)', False))
            out.append(('returns-the-savepoint', isinstance(r, VOpaque) and r.tag == 'savepoint'))
            return out
        return [Outcome('saved', post=post, result=lambda cc, E: cc.fresh_opaque('savepoint')),
                Outcome('storing-fails', 'raise', 'builtins:Exception')]


VARIANTS.append(SavepointBody)


# ======================================================================================
class Get(ConnSpec):
    """Connection.get(oid) (every reference found in a loaded record is resolved through it - by the reader's cache
    lookups - and so is root()): ONE in-memory object per oid per connection (C14): an oid already filed in the cache,
    or explicitly added, gives THAT object; otherwise the record is loaded through the connection's storage (the
    snapshot, C02), a ghost is made from it and FILED IN THE CACHE under the oid before it is returned, so that the
    next request gives the same object; nothing else changes; a closed connection refuses."""
    func = CONN + '.get'
    props = ('C14', 'C11')
    cases = ('open', 'closed')
    assumptions = CM.ASSUMPTIONS + ('ObjectReader.getGhost(pickle) returns a new object that belongs to no database yet '
                                    '(constructor stand-in; the class comes from the pickle: bounded harness)',)

    def setup(self, c, case=None):
        w = CM.mk_conn(c)
        S = c.obj(w.self).f
        if case == 'closed':
            S['opened'] = NONE
        S['_pre_cache'] = c.new_obj('pydict', meta={'pairs': []})
        rd = inst(c, 'ZODB.serialize:ObjectReader', _conn=w.self, _cache=w.cache, _factory=c.fresh_opaque('factory'))
        S['_reader'] = rd
        c.ghost['gt'] = {'made': [], 'loads': []}
        return {'self': w.self, 'oid': c.fresh_bytes(8, 'oid')}

    def hooks(self, c):
        hk = ConnSpec.hooks(self, c)

        def get_ghost(cc, args, kwargs, node):
            w = world(cc)
            u = U(cc, w)
            x = CM.fresh_pobj(cc, 'ghost')
            cc.assume(z3.And(sel(u['jar'], x.t) == 0, sel(u['oid'], x.t) == -1))
            # a NEW object: not one the connection already knows
            cc.assume(All(['oid'], lambda o: z3.And(
                z3.Implies(sel(cc.obj(w.cache).f['dom'], o), sel(cc.obj(w.cache).f['val'], o) != x.t),
                z3.Implies(sel(cc.obj(w.added).f['dom'], o), sel(cc.obj(w.added).f['val'], o) != x.t))))
            cc.ghost['gt']['made'].append((args[1] if len(args) > 1 else None, x))
            return x
        hk['call:ZODB.serialize:ObjectReader.getGhost'] = get_ghost
        return hk

    def requires(self, c, E):
        return list(conninv(c, world(c)))

    def modifies(self, c, E):
        w = world(c)
        return self.universe_mods(c) | {(w.cache.id, 'dom'), (w.cache.id, 'val'), (w.storage.id, 'calls')}

    def outcomes(self, c, E):
        w = world(c)
        u0 = dict(U(c, w))
        cache0, added0 = dict(c.obj(w.cache).f), dict(c.obj(w.added).f)
        o = bytes_num(c, E['oid'])
        closed = isinstance(c.obj(w.self).f['opened'], VNone)
        if closed:
            return [Outcome('closed', 'raise', 'ZODB.POSException:ConnectionStateError')]
        in_cache, in_added = sel(cache0['dom'], o), sel(added0['dom'], o)

        def post(cc, E, r):
            if not (isinstance(r, VOpaque) and r.tag == 'pobj'):
                return [('returns-a-persistent-object', False)]
            u1 = U(cc, w)
            cache1 = cc.obj(w.cache).f
            made = cc.ghost['gt']['made']
            known = z3.Or(in_cache, in_added)
            out = [('cached-oid-gives-the-cached-object', z3.Implies(in_cache, r.t == sel(cache0['val'], o))),
                   ('added-oid-gives-the-added-object', z3.Implies(z3.And(z3.Not(in_cache), in_added),
                                                                   r.t == sel(added0['val'], o))),
                   ('known-oid.nothing-changes', z3.Implies(known, z3.And(
                       cache1['dom'] == cache0['dom'], cache1['val'] == cache0['val'],
                       *[u1[k] == u0[k] for k in ('oid', 'jar', 'serial', 'changed')]))),
                   ('unknown-oid.loaded-made-and-FILED-under-the-oid-before-it-is-returned', z3.Implies(
                       z3.Not(known), z3.And(sel(cache1['dom'], o), sel(cache1['val'], o) == r.t,
                                             sel(u1['oid'], r.t) == o, sel(u1['jar'], r.t) == 1,
                                             sel(u1['changed'], r.t) == -1))),
                   ('unknown-oid.every-other-cache-entry-untouched', All(['oid'], lambda q: z3.Implies(
                       q != o, z3.And(sel(cache1['dom'], q) == sel(cache0['dom'], q),
                                      sel(cache1['val'], q) == sel(cache0['val'], q))))),
                   ('every-other-object-untouched', All(['obj'], lambda x: z3.Implies(
                       x != r.t, unchanged(u0, u1, x)))),
                   ('at-most-one-object-made', len(made) <= 1 and (not made or made[0][1].t.eq(r.t)))]
            pc = cc.obj(cc.obj(w.self).f['_pre_cache'])
            out.append(('pre-cache-left-empty', pc.kind == 'pydict' and not pc.meta['pairs']))
            return out
        return [Outcome('object', post=post, result=lambda cc, E: CM.fresh_pobj(cc)),
                Outcome('no-such-object', 'raise', 'ZODB.POSException:POSKeyError')]


SPECS.append(Get)


# ======================================================================================
class SetState(ConnSpec):
    """Connection.setstate(obj) (unghostifying): state AND serial of the object come from ONE load of its oid through
    the connection's storage (the snapshot: C02 "whether a state comes from the storage or from the cache") - the
    pickle handed to the reader and the serial stored on the object belong to the same revision; a Blob's committed
    file is asked for under that same (oid, serial) (C13); every other object is untouched; a closed connection
    refuses before loading."""
    func = CONN + '.setstate'
    props = ('C02', 'C11')
    cases = ('open', 'closed')
    assumptions = CM.ASSUMPTIONS + ('ObjectReader.setGhostState(obj, pickle) sets the state of obj from the pickle and '
                                    'touches no other persistent object (unpickling: bounded harness, C14)',)

    def setup(self, c, case=None):
        w = CM.mk_conn(c)
        S = c.obj(w.self).f
        if case == 'closed':
            S['opened'] = NONE
        S['_load_count'] = c.fresh_int('_load_count')
        S['_log'] = c.fresh_opaque('logger')
        S['_reader'] = c.fresh_opaque('reader')
        x = CM.fresh_pobj(c)
        c.ghost['ss'] = {'x': x, 'set': [], 'blob': [], 'is_blob': None}
        return {'self': w.self, 'obj': x}

    def requires(self, c, E):
        w = world(c)
        u = U(c, w)
        x = c.ghost['ss']['x'].t
        return list(conninv(c, w)) + [('the-object-belongs-to-this-connection',
                                       z3.And(sel(u['jar'], x) == 1, sel(u['oid'], x) >= 0))]

    def hooks(self, c):
        hk = ConnSpec.hooks(self, c)
        g = lambda cc: cc.ghost['ss']
        base_meth = hk.get('opaque_method')
        base_isinst = hk.get('opaque_isinstance')

        def ometh(cc, v, name, args, kwargs, node):
            if v.tag == 'reader' and name == 'setGhostState':
                g(cc)['set'].append(tuple(args))
                w = world(cc)
                u = U(cc, w)
                if isinstance(args[0], VOpaque) and args[0].tag == 'pobj':
                    u['changed'] = z3.Store(u['changed'], args[0].t, 0)
                return NONE
            if v.tag == 'logger':
                return NONE
            return base_meth(cc, v, name, args, kwargs, node) if base_meth else None

        def isinst(cc, v, clsname):
            if v.tag == 'pobj' and clsname.endswith('Blob'):
                if g(cc)['is_blob'] is None:
                    g(cc)['is_blob'] = (cc.choose([True, True], 'is-a-blob') == 0)
                return g(cc)['is_blob']
            return base_isinst(cc, v, clsname) if base_isinst else None
        base_set = hk.get('opaque_setattr')

        def osetattr(cc, v, name, val, node):
            if v.tag == 'pobj' and name in ('_p_blob_uncommitted', '_p_blob_committed'):
                g(cc)['blob'].append((v, name, val))
                return True
            return base_set(cc, v, name, val, node) if base_set else None
        hk['opaque_setattr'] = osetattr
        hk['opaque_method'] = ometh
        hk['opaque_isinstance'] = isinst
        hk['call:ZODB.Connection:className'] = lambda cc, a, k, n: VStr('<class>')
        hk['call:ZODB.utils:oid_repr'] = lambda cc, a, k, n: VStr('<oid>')
        return hk

    def modifies(self, c, E):
        w = world(c)
        return self.universe_mods(c) | {(w.self.id, '_load_count'), (w.storage.id, 'calls')}

    def outcomes(self, c, E):
        w = world(c)
        g = c.ghost['ss']
        u0 = dict(U(c, w))
        x = g['x'].t
        o = sel(u0['oid'], x)
        if isinstance(c.obj(w.self).f['opened'], VNone):
            return [Outcome('closed', 'raise', 'ZODB.POSException:ConnectionStateError',
                            post=lambda cc, E, r: [('nothing-loaded', not cc.ghost.get('loaded'))])]

        def post(cc, E, r):
            u1 = U(cc, w)
            loads = cc.ghost.get('loaded') or []
            ok = len(loads) == 1 and isinstance(loads[0][0], VBytes) and len(g['set']) == 1
            out = [('one-load-of-this-objects-oid-and-one-state-assignment', ok)]
            if ok:
                p, ser = loads[0][1].items
                sa = g['set'][0]
                out += [('loaded-under-the-objects-oid', bytes_num(cc, loads[0][0]) == o),
                        ('state-set-on-THIS-object-from-the-loaded-pickle', len(sa) == 2 and
                         isinstance(sa[0], VOpaque) and sa[0].t.eq(x) and sa[1] is p),
                        ('serial-is-the-serial-of-the-SAME-load', sel(u1['serial'], x) == bytes_num(cc, ser)),
                        ('object-is-no-longer-a-ghost-and-not-changed', sel(u1['changed'], x) == 0),
                        ('oid-and-owner-kept', z3.And(sel(u1['oid'], x) == o, sel(u1['jar'], x) == 1))]
            out.append(('every-other-object-untouched', All(['obj'], lambda y: z3.Implies(y != x, unchanged(u0, u1, y)))))
            lb = [e for e in cc.events if e[0] == 'storage.loadBlob']
            if g['is_blob']:
                okb = ok and len(lb) == 1 and len(lb[0][1]) == 2 and all(isinstance(a, VBytes) for a in lb[0][1])
                out.append(('blob.committed-file-asked-for-once', okb))
                if okb:
                    out.append(('blob.committed-file-of-the-SAME-(oid, serial)', z3.And(
                        bytes_num(cc, lb[0][1][0]) == o, bytes_num(cc, lb[0][1][1]) == bytes_num(cc, loads[0][1].items[1]))))
                    names = [b[1] for b in g['blob']]
                    out.append(('blob.working-copy-dropped-and-committed-file-installed',
                                names == ['_p_blob_uncommitted', '_p_blob_committed'] and
                                isinstance(g['blob'][0][2], VNone) and
                                isinstance(g['blob'][1][2], VOpaque) and g['blob'][1][2].tag == 'committed_blob_file'))
            else:
                out.append(('not-a-blob.no-blob-file-asked-for', not lb and not g['blob']))
            return out
        return [Outcome('loaded', post=post, result=lambda cc, E: NONE),
                Outcome('no-such-object', 'raise', 'ZODB.POSException:POSKeyError'),
                Outcome('blob-file-missing', 'raise', 'ZODB.POSException:POSKeyError')]


SPECS.append(SetState)
