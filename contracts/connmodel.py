"""Specification vocabulary for ZODB.Connection (C11, C03 readCurrent, C10 vote).

Persistent objects are elements of a ghost universe (Int ids); their persistence attributes are four
total maps on the heap object `objects` (so that the frame conditions of the contracts cover them):

    oid[x]      -1 = None, else the number of the 8-byte oid
    jar[x]       0 = None, 1 = THIS connection, >= 2 = some other connection
    serial[x]   number of the 8-byte _p_serial (0 = z64)
    changed[x]  -1 = None (ghost), 0 = False (up to date), 1 = True (modified)

An object value is VOpaque(id, 'pobj'); reads/writes/deletes of _p_oid/_p_jar/_p_serial/_p_changed go
through the opaque attribute hooks below (A-PERSISTENT: the C implementation of persistent.Persistent
stores these four attributes; `del o._p_changed` and o._p_invalidate() make a ghost).

PickleCache (C code, A-PICKLECACHE) is a map oid -> object with
    get(oid) -> object or None;  cache[oid] = o;  del cache[oid]  (KeyError if absent)
    invalidate(oid | [oids]): every cached object named becomes a ghost (changed := None)
    incrgc / update_object_size_estimation: no effect on the four attributes
"""
import z3

from pyvc import prims
from pyvc.engine import RaiseSig, Unsupported, as_z3_bool, bytes_num, num_to_bytes
from pyvc.ground import All
from pyvc.values import (B, I, NONE, Obj, VBool, VBytes, VExc, VFunc, VInt, VNone, VOpaque, VRef, VStr,
                         VTuple, fresh_name)

from .common import KeyError_, inst

CONN = 'ZODB.Connection:Connection'
ASSUMPTIONS = (
    'A-PERSISTENT: a persistent object carries _p_oid/_p_jar/_p_serial/_p_changed as plain attributes; '
    '`del o._p_changed` and o._p_invalidate() turn it into a ghost (persistent C code, ghostifiable objects)',
    'A-PICKLECACHE: PickleCache is a map oid -> object; invalidate(oid or list of oids) ghostifies exactly the '
    'cached objects named; incrgc/update_object_size_estimation do not touch the four attributes',
    'CONNINV (assumed representation invariant of a Connection): a cached/added object carries the oid it is '
    'filed under and this connection as jar; at most one live object per oid; registered objects have an oid '
    'and this jar; an explicitly added object is registered once',
)
AII = z3.ArraySort(I, I)


class ConnWorld:
    pass


def pobj(t):
    return VOpaque(t, 'pobj')


def fresh_pobj(c, name='obj'):
    return pobj(z3.Int(fresh_name(name)))


def U(c, w):
    return c.obj(w.objects).f


def mk_conn(c, savepoint=False):
    w = ConnWorld()
    w.c = c
    n = fresh_name('u')
    w.objects = c.new_obj('puniverse', None, {
        'oid': z3.Array('oid_' + n, I, I), 'jar': z3.Array('jar_' + n, I, I),
        'serial': z3.Array('serial_' + n, I, I), 'changed': z3.Array('changed_' + n, I, I)},
        {'name': 'objects'})
    w.registered = prims.new_slist(c, 'pobj', '_registered_objects')
    w.first = z3.Array(fresh_name('first'), I, I)      # ghost: object -> index of its first occurrence
    w.added = prims.new_map(c, 'bytes8', 'pobj', '_added')
    w.creating = prims.new_map(c, 'bytes8', 'bool', '_creating')
    w.modified = prims.new_slist(c, 'bytes8', '_modified', bag=True)
    w.cache = prims.new_map(c, 'bytes8', 'pobj', '_cache')
    c.obj(w.cache).kind = 'pcache'
    c.obj(w.cache).meta['world'] = w
    w.readCurrent = prims.new_map(c, 'bytes8', 'bytes8', '_readCurrent')
    w.storage = c.new_obj('connstorage', None, {'calls': z3.IntVal(0)}, {'name': '_storage', 'world': w})
    w.txn = c.fresh_opaque('transaction')
    w.tm = c.new_obj('txnmanager', None, {}, {'name': 'transaction_manager', 'world': w})
    w.needs_to_join = c.fresh_bool('_needs_to_join')
    w.checked = z3.K(I, z3.BoolVal(False))     # ghost: oids handed to checkCurrentSerialInTransaction
    w.self = inst(c, CONN, _registered_objects=w.registered, _added=w.added, _creating=w.creating,
                  _modified=w.modified, _cache=w.cache, _readCurrent=w.readCurrent, _storage=w.storage,
                  _normal_storage=w.storage, _savepoint_storage=NONE, _needs_to_join=w.needs_to_join,
                  _added_during_commit=NONE, _import=NONE, before=NONE, transaction_manager=w.tm,
                  opened=c.fresh_opaque('opened_time'), _store_count=c.fresh_int('_store_count'))
    c.ghost['conn'] = w
    register_roles(c, w)
    return w


def register_roles(c, w):
    r = c.roles
    u = U(c, w)
    for k in ('oid', 'jar', 'serial', 'changed'):
        r.array(u[k], 'obj')
    r.array(w.first, 'obj')
    reg = c.obj(w.registered).f
    r.array(reg['arr'], 'ridx')
    for m_ in (w.added, w.creating, w.cache, w.readCurrent):
        o = c.obj(m_)
        r.array(o.f['dom'], 'oid')
        r.array(o.f['val'], 'oid')
    mo = c.obj(w.modified).f
    r.array(mo['arr'], 'midx')
    r.array(mo['bag'], 'oid')


def world(c):
    return c.ghost['conn']


def list_facts(c, o, role='oid'):
    """list model (array, length, multiset view) + ghost mfirst: oid -> index of first occurrence"""
    w = world(c)
    arr, ln, bag = o.f['arr'], o.f['len'], o.f['bag']
    w.mfirst = z3.Array(fresh_name('mfirst'), I, I)
    o.meta['first'] = w.mfirst
    c.roles.array(w.mfirst, 'oid')
    c.roles.array(arr, 'midx')
    c.roles.array(bag, 'oid')
    sel = z3.Select
    c.assume(ln >= 0)
    c.assume(All(['midx'], lambda i: z3.Implies(z3.And(i >= 0, i < ln), z3.And(
        sel(bag, sel(arr, i)) >= 1, sel(w.mfirst, sel(arr, i)) >= 0, sel(w.mfirst, sel(arr, i)) <= i,
        sel(arr, sel(w.mfirst, sel(arr, i))) == sel(arr, i), sel(arr, i) >= 0, sel(arr, i) < 2 ** 64))))
    # an oid occurs in the multiset view iff it occurs at its first-occurrence index
    c.assume(All([role], lambda x: z3.And(sel(bag, x) >= 0, z3.Implies(
        sel(bag, x) >= 1, z3.And(sel(w.mfirst, x) >= 0, sel(w.mfirst, x) < ln,
                                 sel(arr, sel(w.mfirst, x)) == x)))))


# --------------------------------------------------------------------------------------
# predicates
# --------------------------------------------------------------------------------------
def cached(u, cache, x):
    """object x is the object filed in the cache under its own oid"""
    sel = z3.Select
    o = sel(u['oid'], x)
    return z3.And(o >= 0, sel(cache['dom'], o), sel(cache['val'], o) == x)


def conninv(c, w, only=None):
    out = _conninv(c, w)
    if only is not None:
        out = [(l, b) for l, b in out if l in only]
    return out


def _conninv(c, w):
    sel = z3.Select
    u = U(c, w)
    cache, added = c.obj(w.cache).f, c.obj(w.added).f
    reg = c.obj(w.registered).f
    oid, jar = u['oid'], u['jar']
    first = w.first
    return [
        ('CACHE-INV', All(['oid'], lambda o: z3.Implies(
            sel(cache['dom'], o), z3.And(sel(oid, sel(cache['val'], o)) == o,
                                         sel(jar, sel(cache['val'], o)) == 1, o >= 0, o < 2 ** 64)))),
        ('ADDED-INV', All(['oid'], lambda o: z3.Implies(
            sel(added['dom'], o), z3.And(sel(oid, sel(added['val'], o)) == o,
                                         sel(jar, sel(added['val'], o)) == 1, o >= 0, o < 2 ** 64)))),
        ('OID-INJ', All(['obj', 'obj'], lambda x, y: z3.Implies(
            z3.And(sel(oid, x) >= 0, sel(oid, x) == sel(oid, y), sel(jar, x) == 1, sel(jar, y) == 1),
            x == y))),
        ('OID-RANGE', All(['obj'], lambda x: z3.And(sel(oid, x) >= -1, sel(oid, x) < 2 ** 64,
                                                    sel(u['serial'], x) >= 0,
                                                    sel(u['serial'], x) < 2 ** 64,
                                                    sel(u['changed'], x) >= -1,
                                                    sel(u['changed'], x) <= 1, sel(jar, x) >= 0))),
        ('REG-INV', All(['ridx'], lambda k: z3.Implies(
            z3.And(k >= 0, k < reg['len']),
            z3.And(sel(oid, sel(reg['arr'], k)) >= 0, sel(jar, sel(reg['arr'], k)) == 1)))),
        # ghost `first`: index of the first occurrence (definition; exists for every list)
        ('FIRST', All(['ridx'], lambda k: z3.Implies(
            z3.And(k >= 0, k < reg['len']),
            z3.And(sel(first, sel(reg['arr'], k)) >= 0, sel(first, sel(reg['arr'], k)) <= k,
                   sel(reg['arr'], sel(first, sel(reg['arr'], k))) == sel(reg['arr'], k))))),
        ('REG-ADDED-ONCE', All(['ridx'], lambda k: z3.Implies(
            z3.And(k >= 0, k < reg['len'], sel(added['dom'], sel(oid, sel(reg['arr'], k)))),
            sel(first, sel(reg['arr'], k)) == k))),
        ('LEN', reg['len'] >= 0),
        # an explicitly added object has not been stored yet: its oid is not among the modified ones
        ('ADDED-NOT-MODIFIED', All(['oid'], lambda o: z3.Implies(
            sel(added['dom'], o), sel(c.obj(w.modified).f['bag'], o) == 0))),
    ]


def inlist(w, reg, x, upto=None):
    sel = z3.Select
    f = sel(w.first, x)
    hi = reg['len'] if upto is None else upto
    return z3.And(f >= 0, f < hi, f < reg['len'], sel(reg['arr'], f) == x)


# --------------------------------------------------------------------------------------
# attribute protocol of persistent objects
# --------------------------------------------------------------------------------------
def install_hooks(c, hk):
    def get(cc, v, name, node):
        if v.tag != 'pobj':
            return None
        w = world(cc)
        u = U(cc, w)
        x = v.t
        if name == '_p_oid':
            o = z3.Select(u['oid'], x)
            if cc.choose([o < 0, o >= 0], 'p_oid') == 0:
                return NONE
            cc.assume(o < 2 ** 64)
            return num_to_bytes(cc, o, 8, 'p_oid')
        if name == '_p_jar':
            j = z3.Select(u['jar'], x)
            i = cc.choose([j == 0, j == 1, j >= 2], 'p_jar')
            if i == 0:
                return NONE
            if i == 1:
                return w.self
            return VOpaque(z3.Const(fresh_name('otherjar'), Obj), 'otherjar')
        if name == '_p_changed':
            ch = z3.Select(u['changed'], x)
            i = cc.choose([ch == -1, ch == 0, ch == 1], 'p_changed')
            return [NONE, VBool(False), VBool(True)][i]
        if name == '_p_serial':
            s = z3.Select(u['serial'], x)
            cc.assume(z3.And(s >= 0, s < 2 ** 64))
            return num_to_bytes(cc, s, 8, 'p_serial')
        if name == '_p_invalidate':
            def inval(cc2, args, kwargs, node2):
                u2 = U(cc2, world(cc2))
                u2['changed'] = z3.Store(u2['changed'], x, -1)
                return NONE
            return VFunc('spec', '_p_invalidate', None, inval)
        return None

    def enc_changed(v, node):
        if isinstance(v, VNone):
            return z3.IntVal(-1)
        if isinstance(v, VBool):
            return z3.If(as_z3_bool(v.t), 1, 0)
        if isinstance(v, VInt):
            return z3.If(v.t != 0, 1, 0)
        raise Unsupported('_p_changed := %r' % (v,), node)

    def setattr_(cc, v, name, val, node):
        if v.tag != 'pobj':
            return False
        w = world(cc)
        u = U(cc, w)
        x = v.t
        if name == '_p_changed':
            u['changed'] = z3.Store(u['changed'], x, enc_changed(val, node))
            return True
        if name == '_p_serial' and isinstance(val, VBytes) and val.conc_len() == 8:
            u['serial'] = z3.Store(u['serial'], x, bytes_num(cc, val))
            return True
        if name == '_p_oid':
            if isinstance(val, VNone):
                u['oid'] = z3.Store(u['oid'], x, -1)
                return True
            if isinstance(val, VBytes) and val.conc_len() == 8:
                u['oid'] = z3.Store(u['oid'], x, bytes_num(cc, val))
                return True
        if name == '_p_jar':
            if isinstance(val, VNone):
                u['jar'] = z3.Store(u['jar'], x, 0)
                return True
            if isinstance(val, VRef) and val.id == w.self.id:
                u['jar'] = z3.Store(u['jar'], x, 1)
                return True
        if name == '_p_estimated_size':
            return True
        return False

    def delattr_(cc, v, name, node):
        if v.tag != 'pobj':
            return False
        u = U(cc, world(cc))
        x = v.t
        if name == '_p_jar':
            u['jar'] = z3.Store(u['jar'], x, 0)
            return True
        if name == '_p_oid':
            u['oid'] = z3.Store(u['oid'], x, -1)
            return True
        if name == '_p_changed':
            u['changed'] = z3.Store(u['changed'], x, -1)
            return True
        return False
    def method(cc, v, name, args, kwargs, node):
        if v.tag == 'transaction' and name == 'data':
            # transaction.data(self): the storage-level transaction (TransactionMetaData) of this
            # connection in this transaction
            if 'txn_data' not in cc.ghost:
                cc.ghost['txn_data'] = cc.fresh_opaque('txn_data')
            return cc.ghost['txn_data']
        return None
    hk['opaque_method'] = method
    hk['opaque_attr'] = get
    hk['opaque_setattr'] = setattr_
    hk['opaque_delattr'] = delattr_
    hk['opaque_is_none'] = lambda cc, v: False


# --------------------------------------------------------------------------------------
# PickleCache
# --------------------------------------------------------------------------------------
def _key(c, k, node):
    if isinstance(k, VBytes) and k.conc_len() == 8:
        return bytes_num(c, k, node)
    return None


def pcache_get(c, recv, o, key, node):
    k = _key(c, key, node)
    if k is None:
        raise RaiseSig(VExc(KeyError_, [key]))
    present = z3.Select(o.f['dom'], k)
    if c.choose([present, z3.Not(present)], 'cache-getitem') == 1:
        raise RaiseSig(VExc(KeyError_, [key]))
    return pobj(z3.Select(o.f['val'], k))


def pcache_set(c, recv, o, key, v, node):
    k = _key(c, key, node)
    if k is None or not (isinstance(v, VOpaque) and v.tag == 'pobj'):
        raise Unsupported('cache[%r] = %r' % (key, v), node)
    o.f['dom'] = z3.Store(o.f['dom'], k, z3.BoolVal(True))
    o.f['val'] = z3.Store(o.f['val'], k, v.t)
    c.event('cache-set', k, v.t)


def pcache_del(c, recv, o, key, node):
    k = _key(c, key, node)
    if k is None:
        raise RaiseSig(VExc(KeyError_, [key]))
    present = z3.Select(o.f['dom'], k)
    if c.choose([present, z3.Not(present)], 'cache-del') == 1:
        raise RaiseSig(VExc(KeyError_, [key]))
    o.f['dom'] = z3.Store(o.f['dom'], k, z3.BoolVal(False))


def invalidated_by_list(c, w, cache, u_oid, lst):
    """lambda x: x is a cached object whose oid occurs in the list (multiset view)"""
    sel = z3.Select
    bag = lst['bag']
    return lambda x: z3.And(sel(u_oid, x) >= 0, sel(bag, sel(u_oid, x)) >= 1,
                            sel(cache['dom'], sel(u_oid, x)), sel(cache['val'], sel(u_oid, x)) == x)


def pcache_method(c, interp, ref, o, name, args, kwargs, node):
    w = o.meta['world']
    u = U(c, w)
    if name == 'get':
        k = _key(c, args[0], node)
        default = args[1] if len(args) > 1 else NONE
        if k is None:
            return default
        present = z3.Select(o.f['dom'], k)
        if c.choose([present, z3.Not(present)], 'cache-get') == 1:
            return default
        return pobj(z3.Select(o.f['val'], k))
    if name == 'invalidate':
        a = args[0]
        k = _key(c, a, node)
        if k is not None:
            u['changed'] = z3.If(z3.Select(o.f['dom'], k),
                                 z3.Store(u['changed'], z3.Select(o.f['val'], k), -1), u['changed'])
            c.event('cache-invalidate', k)
            return NONE
        if isinstance(a, VRef) and c.obj(a).kind == 'slist' and 'bag' in c.obj(a).f:
            hit = invalidated_by_list(c, w, dict(o.f), u['oid'], dict(c.obj(a).f))
            old = u['changed']
            new = z3.Array(fresh_name('changed'), I, I)
            c.roles.array(new, 'obj')
            c.assume(All(['obj'], lambda x: z3.Select(new, x) == z3.If(hit(x), -1, z3.Select(old, x))))
            u['changed'] = new
            c.event('cache-invalidate-list', a.id)
            return NONE
        if isinstance(a, VRef) and c.obj(a).kind == 'list' and c.obj(a).meta.get('items') == []:
            return NONE
        if isinstance(a, VRef) and c.obj(a).kind == 'map':
            # invalidate(mapping): every cached object whose oid is a key
            keys = c.obj(a).f['dom']
            cache = dict(o.f)
            uoid = u['oid']
            sel = z3.Select
            hit = lambda x: z3.And(sel(uoid, x) >= 0, sel(keys, sel(uoid, x)),
                                   sel(cache['dom'], sel(uoid, x)), sel(cache['val'], sel(uoid, x)) == x)
            old = u['changed']
            new = z3.Array(fresh_name('changed'), I, I)
            c.roles.array(new, 'obj')
            c.assume(All(['obj'], lambda x: z3.Select(new, x) == z3.If(hit(x), -1, z3.Select(old, x))))
            u['changed'] = new
            c.event('cache-invalidate-keys', a.id)
            return NONE
        raise Unsupported('cache.invalidate(%r)' % (a,), node)
    if name == 'new_ghost':
        # PickleCache.new_ghost(oid, obj): files a ghost under oid and makes it belong to the jar (A-PICKLECACHE:
        # sets _p_oid/_p_jar, state ghost); refuses an oid that is already filed
        k = _key(c, args[0], node)
        v = args[1]
        if k is None or not (isinstance(v, VOpaque) and v.tag == 'pobj'):
            raise Unsupported('cache.new_ghost(%r)' % (args,), node)
        present = z3.Select(o.f['dom'], k)
        if c.choose([present, z3.Not(present)], 'new_ghost') == 0:
            raise RaiseSig(VExc('builtins:ValueError'))
        o.f['dom'] = z3.Store(o.f['dom'], k, z3.BoolVal(True))
        o.f['val'] = z3.Store(o.f['val'], k, v.t)
        u['oid'] = z3.Store(u['oid'], v.t, k)
        u['jar'] = z3.Store(u['jar'], v.t, 1)
        u['changed'] = z3.Store(u['changed'], v.t, -1)
        c.event('new-ghost', k, v.t)
        return NONE
    if name in ('incrgc', 'update_object_size_estimation', 'minimize', 'full_sweep'):
        return NONE
    if name == '__len__':
        raise Unsupported('len(cache)', node)
    raise Unsupported('PickleCache method %s' % name, node)


def pcache_contains(c, container, o, item, node):
    k = _key(c, item, node)
    if k is None:
        return False
    return z3.Select(o.f['dom'], k)


prims.KIND_GETITEM['pcache'] = pcache_get
prims.KIND_SETITEM['pcache'] = pcache_set
prims.KIND_DELITEM['pcache'] = pcache_del
prims.KIND_METHOD['pcache'] = pcache_method
prims.KIND_CONTAINS['pcache'] = pcache_contains


# --------------------------------------------------------------------------------------
# the storage and the transaction manager as the connection sees them
# --------------------------------------------------------------------------------------
ConflictError = 'ZODB.POSException:ConflictError'
ReadConflictError = 'ZODB.POSException:ReadConflictError'


def storage_method(c, interp, ref, o, name, args, kwargs, node):
    w = o.meta['world']
    if name == 'tpc_finish':
        c.event('storage.tpc_finish', args[0] if args else None)
        if c.choose([True, True], 'storage-finish-fails') == 1:
            raise RaiseSig(VExc('builtins:Exception'))
        tid = c.fresh_bytes(8, 'committed_tid')
        c.ghost['committed_tid'] = tid
        return tid
    if name == 'load':
        # the connection's storage (MVCC instance): the record of oid as of the snapshot, or POSKeyError
        c.event('storage.load', args[0] if args else None)
        if c.choose([True, True], 'storage-load') == 1:
            raise RaiseSig(VExc('ZODB.POSException:POSKeyError'))
        r = VTuple([c.fresh_barr('pickle'), c.fresh_bytes(8, 'serial')])
        c.ghost.setdefault('loaded', []).append((args[0] if args else None, r))
        return r
    if name == 'loadBlob':
        c.event('storage.loadBlob', tuple(args))
        if c.choose([True, True], 'storage-loadBlob') == 1:
            raise RaiseSig(VExc('ZODB.POSException:POSKeyError'))
        return c.fresh_opaque('committed_blob_file')
    if name == 'tpc_abort':
        c.event('storage.tpc_abort', args[0] if args else None)
        return NONE
    if name == 'tpc_vote':
        c.event('storage.tpc_vote', args[0] if args else None)
        i = c.choose([True, True, True], 'vote')
        if i == 0:
            return NONE
        if i == 1:
            r = prims.new_slist(c, 'bytes8', 'resolved', bag=True)
            c.ghost['resolved'] = r
            keep = getattr(w, 'mfirst', None)
            list_facts(c, c.obj(r))
            c.ghost['resolved_first'] = w.mfirst
            w.mfirst = keep
            return r
        oid = c.fresh_bytes(8, 'conflict_oid')
        c.ghost['conflict_oid'] = oid
        raise RaiseSig(VExc(ReadConflictError, [], {'oid': oid}))
    if name == 'checkCurrentSerialInTransaction':
        k = _key(c, args[0], node)
        c.event('storage.checkCurrent', k, args[1], args[2])
        if c.choose([True, True], 'read-conflict') == 1:
            raise RaiseSig(VExc(ReadConflictError, [], {'oid': args[0]}))
        tx_ok = isinstance(args[2], VOpaque) and args[2].t.eq(c.ghost['txn_data'].t) \
            if 'txn_data' in c.ghost else True
        ser_ok = isinstance(args[1], VBytes) and args[1].conc_len() == 8
        if k is not None and tx_ok and ser_ok:
            rc = c.obj(w.readCurrent).f
            good = bytes_num(c, args[1]) == z3.Select(rc['val'], k)
            w.checked = z3.If(good, z3.Store(w.checked, k, z3.BoolVal(True)), w.checked)
        return NONE
    if name in ('store', 'storeBlob'):
        k = _key(c, args[0], node)
        txn = args[-1]
        c.event('storage.' + name, k, args[1], txn)
        if c.choose([True, True], 'store-fails') == 1:
            raise RaiseSig(VExc(ConflictError, [], {'oid': args[0]}))
        tx_ok = isinstance(txn, VOpaque) and 'txn_data' in c.ghost and txn.t.eq(c.ghost['txn_data'].t)
        if k is not None and tx_ok:
            w.stored = z3.Store(getattr(w, 'stored', z3.K(I, z3.BoolVal(False))), k, z3.BoolVal(True))
        return NONE
    if name == 'new_oid':
        return c.fresh_bytes(8, 'new_oid')
    if name == 'afterCompletion':
        return NONE
    raise Unsupported('storage method %s' % name, node)


prims.KIND_METHOD['connstorage'] = storage_method


def tm_method(c, interp, ref, o, name, args, kwargs, node):
    if name == 'get':
        return c.new_obj('txn', None, {}, {'name': 'transaction', 'world': o.meta['world']})
    if name == 'unregisterSynch':
        c.event('tm.unregisterSynch')
        return NONE
    raise Unsupported('transaction manager method %s' % name, node)


def txn_method(c, interp, ref, o, name, args, kwargs, node):
    if name == 'join':
        # joining may be refused (the transaction has failed, or there is none in explicit mode)
        if c.choose([True, True], 'join-refused') == 1:
            c.event('txn.join-refused')
            raise RaiseSig(VExc('builtins:Exception'))
        c.event('txn.join', args[0].id if isinstance(args[0], VRef) else None)
        return NONE
    raise Unsupported('transaction method %s' % name, node)


prims.KIND_METHOD['txnmanager'] = tm_method
prims.KIND_METHOD['txn'] = txn_method
