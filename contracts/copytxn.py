"""C17 / C13 - ZODB.blob.copyTransactionsFromTo (FileStorage(blob_dir=...).copyTransactionsFrom): every transaction of
the source is begun under its own tid and status, every record of it is restored exactly once with its oid, tid, data
and data_txn hint - as a BLOB (restoreBlob with a private copy of the source's blob file) whenever the record data is
a blob record and the source has the file for (oid, tid), whatever kind of record carries the data (a back-pointer
record written by undo IS a blob revision with a file of its own) - then voted and finished.

The two loops run over the source's iterator (A-ITER: an arbitrary finite sequence of transactions, each an arbitrary
finite sequence of records - FileIterator itself: contracts/fs_iter.py, fs_format.py); the obligations are stated at
the calls the loop bodies make, for an arbitrary record of an arbitrary transaction."""
import z3

from pyvc import prims
from pyvc.contract import LoopSpec, Outcome, Spec
from pyvc.engine import RaiseSig, Unsupported
from pyvc.values import (B, I, NONE, Obj, V, VBool, VBytes, VExc, VNone, VOpaque, VRef, VStr, VTuple,
                         fresh_name)

from .common import POSKeyError

ISBLOB = z3.Function('is_blob_record', Obj, B)
HASFILE = z3.Function('source_has_blob_file', Obj, Obj, B)
ASSUMPTIONS = ['A-ITER: source.iterator() yields a finite sequence of transactions (attributes tid, status), each '
               'iterable as a finite sequence of records (attributes oid, tid, data, data_txn)',
               'A-BLOBFILE: source.loadBlob(oid, tid) returns the committed file name or raises POSKeyError; '
               'tempfile.mkstemp returns a fresh name in the destination\'s temp dir; utils.cp copies all bytes']


class Cursor:
    def __init__(self, ctx, o, what, ref):
        self.o = o
        self.ctx = ctx

    def havoc(self, ctx):
        pass

    def has_more(self, ctx):
        return z3.Bool(fresh_name('more_' + self.o.kind))

    def next(self, ctx):
        g = ctx.ghost['ct']
        if self.o.kind == 'txnseq':
            tid = ctx.fresh_bytes(8, 'tid') if g.get('bytes_tids') else ctx.fresh_opaque('tid')
            t = ctx.new_obj('recseq', None, {'tid': tid, 'status': ctx.fresh_opaque('status')},
                            {'name': 'transaction'})
            g['trans'] = t
            g['tstate'] = 'new'
            return t
        r = ctx.new_obj('record', None, {'oid': ctx.fresh_opaque('oid'), 'tid': ctx.fresh_opaque('rtid'),
                                         'data': ctx.fresh_opaque('data'), 'data_txn': ctx.fresh_opaque('data_txn'),
                                         'version': VStr('')},
                        {'name': 'record', 'of': self.o})
        g['record'] = r
        g['rstate'] = 'pending'
        g['loaded'] = None
        g['tmp'] = None
        g['copied'] = False
        return r


prims.KIND_ITER['txnseq'] = lambda ctx, o, what, ref: Cursor(ctx, o, what, ref)
prims.KIND_ITER['recseq'] = lambda ctx, o, what, ref: Cursor(ctx, o, what, ref)


class CopyTransactionsFromTo(Spec):
    func = 'ZODB.blob:copyTransactionsFromTo'
    props = ('C17', 'C13')
    assumptions = tuple(ASSUMPTIONS)

    def setup(self, c, case=None):
        c.ghost['ct'] = {'trans': None, 'tstate': None, 'record': None, 'rstate': None, 'loaded': None,
                         'tmp': None, 'copied': False}
        return {'source': c.fresh_opaque('source'), 'destination': c.fresh_opaque('destination')}

    def hooks(self, c):
        G = lambda cc: cc.ghost['ct']
        same = lambda a, b: a is b or (isinstance(a, VOpaque) and isinstance(b, VOpaque) and a.t.eq(b.t)) or \
            (isinstance(a, VRef) and isinstance(b, VRef) and a.id == b.id)

        def rec_args_ok(cc, args, blob):
            g = G(cc)
            r = cc.obj(g['record']).f
            want = [r['oid'], r['tid'], r['data']]
            n = len(want)
            ok = len(args) == 6 and all(same(a, w) for a, w in zip(args[:n], want))
            ok = ok and same(args[4], r['data_txn']) and same(args[5], g['trans'])
            if blob:
                ok = ok and g['tmp'] is not None and same(args[3], g['tmp'])
            else:
                ok = ok and isinstance(args[3], VStr) and args[3].s == ''
            return ok

        def ometh(cc, v, name, args, kwargs, node):
            g = G(cc)
            if v.tag == 'source':
                if name == 'iterator':
                    cc.oblige('iterates-the-whole-source', not args and not kwargs, node, assume_after=False)
                    return cc.new_obj('txnseq', None, {}, {'name': 'source.iterator()'})
                if name == 'loadBlob':
                    r = cc.obj(g['record']).f
                    cc.oblige('loadBlob.asks-for-this-records-revision', len(args) == 2 and same(args[0], r['oid'])
                              and same(args[1], r['tid']), node, assume_after=False)
                    has = HASFILE(r['oid'].t, r['tid'].t)
                    if cc.choose([has, z3.Not(has)], 'source-has-the-blob-file') == 1:
                        g['loaded'] = 'missing'
                        raise RaiseSig(VExc(POSKeyError))
                    fn = cc.fresh_opaque('committed_blob_file')
                    g['loaded'] = fn
                    return fn
            if v.tag == 'destination':
                if name == 'tpc_begin':
                    t = g['trans']
                    tf = cc.obj(t).f if t is not None else {}
                    cc.oblige('tpc_begin.under-the-source-transactions-own-tid-and-status',
                              g['tstate'] == 'new' and len(args) == 3 and same(args[0], t) and
                              same(args[1], tf.get('tid')) and same(args[2], tf.get('status')), node,
                              assume_after=False)
                    g['tstate'] = 'begun'
                    return NONE
                if name in ('restore', 'restoreBlob'):
                    blob = name == 'restoreBlob'
                    r = cc.obj(g['record']).f if g['record'] is not None else None
                    cc.oblige('%s.inside-the-transaction-once-per-record' % name,
                              g['tstate'] == 'begun' and g['rstate'] == 'pending', node, assume_after=False)
                    cc.oblige('%s.with-the-records-oid-tid-data-and-hint' % name,
                              r is not None and rec_args_ok(cc, args, blob), node, assume_after=False)
                    if r is not None:
                        isb = ISBLOB(r['data'].t)
                        has = HASFILE(r['oid'].t, r['tid'].t)
                        if blob:
                            cc.oblige('restoreBlob.only-for-a-blob-record-with-a-complete-copy-of-its-file',
                                      z3.And(isb, has) if g['copied'] else z3.BoolVal(False), node,
                                      assume_after=False)
                        else:
                            cc.oblige('restore.plain-only-if-not-a-blob-record-or-the-source-has-no-file '
                                      '(whatever kind of record carries the data)',
                                      z3.Or(z3.Not(isb), z3.Not(has)), node, assume_after=False)
                    g['rstate'] = 'restored'
                    return NONE
                if name == 'tpc_vote':
                    cc.oblige('tpc_vote.after-all-records', g['tstate'] == 'begun' and
                              g['rstate'] in (None, 'restored') and len(args) == 1 and same(args[0], g['trans']),
                              node, assume_after=False)
                    g['tstate'] = 'voted'
                    return NONE
                if name == 'tpc_finish':
                    cc.oblige('tpc_finish.after-the-vote', g['tstate'] == 'voted' and len(args) == 1 and
                              same(args[0], g['trans']), node, assume_after=False)
                    g['tstate'] = 'finished'
                    return NONE
            return None

        def oattr(cc, v, name, node):
            if v.tag == 'destination' and name == 'fshelper':
                return cc.fresh_opaque('fshelper')
            if v.tag == 'fshelper' and name == 'temp_dir':
                return cc.fresh_opaque('temp_dir')
            return None

        def is_blob(cc, args, kwargs, node):
            if not (len(args) == 1 and isinstance(args[0], VOpaque)):
                raise Unsupported('is_blob_record(%r)' % (args,), node)
            return VBool(ISBLOB(args[0].t))

        def mkstemp(cc, interp, args, kwargs, node):
            nm = cc.fresh_opaque('temp_copy')
            G(cc)['tmp'] = nm
            cc.oblige('temporary-copy-made-in-the-destinations-temp-dir',
                      isinstance(kwargs.get('dir'), VOpaque) and kwargs['dir'].tag == 'temp_dir', node,
                      assume_after=False)
            return VTuple([cc.fresh_opaque('fd'), nm])

        def cp(cc, args, kwargs, node):
            g = G(cc)
            opened = {e[1].id: (e[2], e[3]) for e in cc.events if e[0] == 'open' and isinstance(e[1], VRef)}
            src = opened.get(args[0].id) if isinstance(args[0], VRef) else None
            dst = opened.get(args[1].id) if isinstance(args[1], VRef) else None
            ok = src is not None and dst is not None and same(src[0], g['loaded']) and src[1] == 'rb' and \
                same(dst[0], g['tmp']) and dst[1] == 'wb' and len(args) == 2
            cc.oblige('copy.all-bytes-of-this-records-blob-file-into-the-temporary-copy', ok, node,
                      assume_after=False)
            g['copied'] = bool(ok)
            return NONE
        return {'opaque_method': ometh, 'opaque_attr': oattr, 'opaque_is_none': lambda cc, v: False,
                'call:ZODB.blob:is_blob_record': is_blob, 'prim:tempfile.mkstemp': mkstemp,
                'prim:os.close': lambda cc, interp, a, k, n: NONE, 'call:ZODB.utils:cp': cp}

    @property
    def loops(self):
        def inv_txn(cc, fr):
            return [('previous-transaction-begun-voted-and-finished', cc.ghost['ct']['tstate'] in (None, 'finished'))]

        def hv_txn(cc, fr):
            g = cc.ghost['ct']
            g.update(tstate='finished', rstate=None, record=None)

        def inv_rec(cc, fr):
            g = cc.ghost['ct']
            return [('previous-record-restored-exactly-once', g['rstate'] in (None, 'restored')),
                    ('still-inside-the-transaction', g['tstate'] == 'begun')]

        def hv_rec(cc, fr):
            cc.ghost['ct'].update(rstate='restored')
        none = lambda cc, fr: NONE
        opq = lambda tag: (lambda cc, fr: cc.fresh_opaque(tag))
        return {0: LoopSpec(inv=inv_txn, havoc=hv_txn, kinds={'blobfilename': none, 'fd': none, 'name': none,
                                                             'record': none, 'trans': none}),
                1: LoopSpec(inv=inv_rec, havoc=hv_rec, kinds={'blobfilename': none, 'fd': none, 'name': none,
                                                             'record': none})}

    def modifies(self, c, E):
        return set()

    def outcomes(self, c, E):
        def post(c, E, r):
            return [('every-transaction-finished', c.ghost['ct']['tstate'] in (None, 'finished'))]
        return [Outcome('copied', post=post, result=lambda c, E: NONE)]


SPECS = [CopyTransactionsFromTo]
INLINE = []
