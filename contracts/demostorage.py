"""C16 - DemoStorage proved against the IStorage interface contract of its two layers.

Abstract storage (kind 'astorage'): ghost  rev[oid][tid] (a revision exists), live[oid] (the
current revision is not an un-creation), ltid.  Its methods are the interface contract
(DESIGN 4.4); every call is recorded so that `base` can be shown to receive read-only calls only.
LAYER_ORDER (assumed of a well-formed demo storage): every base tid < every changes tid."""
import z3

from pyvc import contract, prims, timestamp
from pyvc.contract import LoopSpec, Outcome, Spec
from pyvc.engine import (PathEnd, RaiseSig, Unsupported, as_z3_bool, be_num, bytes_elems,
                         bytes_eq, bytes_num, num_to_bytes)
from pyvc.ground import All, Ex, FAnd, FNot, FOr
from pyvc.values import (B, I, NONE, Obj, VBool, VBytes, VExc, VFunc, VInt, VNone, VOpaque,
                         VRef, VStr, VTuple, fresh_name)

from .common import (ConflictError, POSKeyError, StorageTransactionError, inst)
from .fs_format import b8_eq_num, field_eq

DEMO = 'ZODB.DemoStorage:DemoStorage'
AIB = z3.ArraySort(I, B)
MAXTID = 0x7fffffffffffffff
READONLY = {'getName', 'getTid', 'history', 'iterator', 'lastTransaction', 'loadBefore',
            'loadBlob', 'openCommittedBlobFile', 'loadSerial', 'close', 'cleanup', 'load',
            'getSize', 'isReadOnly', 'sortKey', '__len__'}

ASSUMPTIONS = [
    'A-ISTORAGE: base and changes satisfy the IStorage query contract over their own revision sets '
    '(loadBefore: greatest tid < bound, end = least tid >= bound; POSKeyError iff the oid has no revision); '
    'all tids are below maxtid',
    'LAYER_ORDER: every tid of the base is smaller than every tid of the changes layer',
]

# data of a revision: an uninterpreted function of (layer, oid, tid)
DATA = z3.Function('revdata', I, I, I, Obj)
RESOLVE = z3.Function('resolved_data', I, I, I, Obj, Obj)
RESOLVABLE = z3.Function('resolvable_d', I, I, I, Obj, B)


# history of a layer: number of revisions of an oid, and its revisions newest first (record ids)
HCNT = z3.Function('history_count', I, I, I)
HREC = z3.Function('history_records', I, I, z3.ArraySort(I, I))


def new_astorage(c, name, layer):
    return c.new_obj('astorage', None, {
        'rev': z3.Array(fresh_name(name + '_rev'), I, AIB),
        'ltid': z3.Int(fresh_name(name + '_ltid')),
        'in_txn': z3.BoolVal(False),
        # tid given explicitly to tpc_begin for the transaction in progress (-1: none; the storage
        # then chooses one later than its own last tid)
        'pending_tid': z3.Int(fresh_name(name + '_pending_tid')),
    }, {'name': name, 'layer': layer, 'calls': []})


def rev(o, oid, t):
    return z3.Select(z3.Select(o.f['rev'], oid), t)


def known(o, oid):
    return Ex(['tid'], lambda t: rev(o, oid, t))


def lb_spec(o, oid, bound, s, e, end_none):
    """s is the greatest revision tid < bound; e the least >= bound (end_none: there is none)"""
    parts = [rev(o, oid, s), s < bound,
             All(['tid'], lambda t: z3.Implies(z3.And(rev(o, oid, t), t < bound), t <= s))]
    if end_none:
        parts.append(All(['tid'], lambda t: z3.Implies(rev(o, oid, t), t < bound)))
    else:
        parts += [rev(o, oid, e), e >= bound,
                  All(['tid'], lambda t: z3.Implies(z3.And(rev(o, oid, t), t >= bound), t >= e))]
    return FAnd(*parts)


def register_roles(c, o):
    c.roles.nested_array(o.f['rev'], 'oid', 'tid')


def astorage_method(c, interp, ref, o, name, args, kwargs, node):
    o.meta['calls'].append(name)
    c.event('storage-call', o.meta['name'], name, tuple(args))
    layer = o.meta['layer']
    if name == 'loadBefore':
        oid, bound = bytes_num(c, args[0], node), bytes_num(c, args[1], node)
        c.roles.seed('oid', oid)
        c.roles.seed('tid', bound)
        s, e = z3.Int(fresh_name('s')), z3.Int(fresh_name('e'))
        c.roles.seed('tid', s)
        c.roles.seed('tid', e)
        kn = known(o, oid)
        nobefore = All(['tid'], lambda t: z3.Implies(rev(o, oid, t), t >= bound))
        i = c.choose([FNot(kn), FAnd(kn, nobefore), lb_spec(o, oid, bound, s, e, True),
                      lb_spec(o, oid, bound, s, e, False)], 'loadBefore')
        if i == 0:
            raise RaiseSig(VExc(POSKeyError))
        if i == 1:
            return NONE
        c.assume(z3.And(s >= 0, s < 2 ** 63, e >= 0, e < 2 ** 63))
        data = VOpaque(DATA(layer, oid, s), 'data')
        return VTuple([data, num_to_bytes(c, s, 8, 'serial'),
                       NONE if i == 2 else num_to_bytes(c, e, 8, 'end')])
    if name == 'loadSerial':
        oid, s = bytes_num(c, args[0], node), bytes_num(c, args[1], node)
        has = rev(o, oid, s)
        i = c.choose([has, z3.Not(has)], 'loadSerial')
        if i == 1:
            raise RaiseSig(VExc(POSKeyError))
        return VOpaque(DATA(layer, oid, s), 'data')
    if name == 'lastTransaction':
        c.assume(z3.And(o.f['ltid'] >= 0, o.f['ltid'] < 2 ** 63))
        return num_to_bytes(c, o.f['ltid'], 8, 'ltid')
    if name == 'store':
        return NONE
    if name == 'tpc_begin':
        i = c.choose([True, True], 'delegate-begin')
        if i == 1:
            # e.g. FileStorage: over-long user name / description.  The delegate's own LOCKINV
            # allows it to be left inside the transaction (its tpc_abort cleans up)
            o.f['in_txn'] = z3.Bool(fresh_name('delegate_in_txn'))
            raise RaiseSig(VExc('ZODB.POSException:StorageError'))
        o.f['in_txn'] = z3.BoolVal(True)
        if len(args) > 1 and isinstance(args[1], VBytes) and args[1].conc_len() == 8:
            o.f['pending_tid'] = bytes_num(c, args[1], node)
        elif len(args) > 1 or kwargs:
            o.f['pending_tid'] = z3.Int(fresh_name('explicit_tid'))
        else:
            o.f['pending_tid'] = z3.IntVal(-1)
        return NONE
    if name == 'tpc_vote':
        return NONE
    if name == 'tpc_abort':
        o.f['in_txn'] = z3.BoolVal(False)
        return NONE
    if name == 'tpc_finish':
        o.f['in_txn'] = z3.BoolVal(False)
        t = z3.Int(fresh_name('newtid'))
        # A-ISTORAGE: the new tid is later than every earlier tid of this storage; a tid given to
        # tpc_begin (later than the last one) is the tid of the transaction
        c.assume(z3.And(t < 2 ** 63, z3.If(o.f['pending_tid'] > o.f['ltid'], t == o.f['pending_tid'],
                                           t > o.f['ltid'])))
        o.f['ltid'] = t
        return num_to_bytes(c, t, 8, 'tid')
    if name == 'history':
        # A-ISTORAGE.history(oid, size): the min(size, count) newest revisions of the object in THIS layer,
        # newest first; POSKeyError when the layer has no revision of it
        oid = bytes_num(c, args[0], node)
        size = args[1] if len(args) > 1 else kwargs.get('size', VInt(z3.IntVal(1)))
        if not isinstance(size, VInt):
            raise Unsupported('history size', node)
        cnt = HCNT(layer, oid)
        c.assume(cnt >= 0)
        if c.choose([cnt == 0, cnt > 0], 'history-known') == 0:
            raise RaiseSig(VExc(POSKeyError))
        r = prims.new_slist(c, 'int', 'history')
        o_ = c.obj(r)
        o_.f['len'] = z3.If(size.t < cnt, z3.If(size.t > 0, size.t, 0), cnt)
        o_.f['arr'] = HREC(layer, oid)
        return r
    if name in ('getName', 'sortKey'):
        return VStr('<name>')
    # anything else: opaque call (recorded; judged by the base-frame obligation)
    return c.fresh_opaque('result')


prims.KIND_METHOD['astorage'] = astorage_method


def new_set(c, name, empty=False):
    m = prims.new_map(c, 'bytes8', 'int', name, empty=empty)
    c.obj(m).kind = 'bset'
    return m


def bset_method(c, interp, ref, o, name, args, kwargs, node):
    f = o.f
    if name == 'add':
        k = bytes_num(c, args[0], node)
        f['dom'] = z3.Store(f['dom'], k, z3.BoolVal(True))
        return NONE
    if name == 'discard':
        k = bytes_num(c, args[0], node)
        f['dom'] = z3.Store(f['dom'], k, z3.BoolVal(False))
        return NONE
    if name == 'difference_update':
        other = c.obj(args[0])
        q = z3.Int(fresh_name('q'))
        f['dom'] = z3.Lambda([q], z3.And(z3.Select(f['dom'], q),
                                         z3.Not(z3.Select(other.f['dom'], q))))
        return NONE
    raise Unsupported('set method %s' % name, node)


prims.KIND_METHOD['bset'] = bset_method
prims.KIND_CONTAINS['bset'] = lambda c, cont, o, item, node: z3.Select(
    o.f['dom'], bytes_num(c, item, node))


def c_set(c, interp, args, kwargs, node):
    if args:
        raise Unsupported('set(iterable)', node)
    return new_set(c, 'set', empty=True)


prims.CONSTRUCTORS['builtins:set'] = c_set


@prims.prim('random.randint')
def p_randint(c, interp, args, kwargs, node):
    lo, hi = args[0].t, args[1].t
    r = z3.Int(fresh_name('rand'))
    c.assume(z3.And(r >= lo, r <= hi))
    return VInt(r)


prims.EXT_MODULES.add('random')


class DemoSpec(Spec):
    props = ('C16',)
    assumptions = tuple(ASSUMPTIONS)

    def mk(self, c, in_txn=False):
        base = new_astorage(c, 'base', 1)
        changes = new_astorage(c, 'changes', 2)
        for r in (base, changes):
            register_roles(c, c.obj(r))
        lock = prims.new_lock(c, '_lock', reentrant=True, held=0)
        clock = prims.new_lock(c, '_commit_lock', reentrant=False, held=1 if in_txn else 0)
        txn = c.fresh_opaque('transaction')
        issued = new_set(c, '_issued_oids')
        stored = new_set(c, '_stored_oids')
        resolved = prims.new_slist(c, 'bytes8', '_resolved')
        nxt = c.fresh_int('_next_oid', 1, 2 ** 62)
        me = inst(c, DEMO, base=base, changes=changes, _lock=lock, _commit_lock=clock,
                  _transaction=(txn if in_txn else NONE), _issued_oids=issued,
                  _stored_oids=stored, _resolved=resolved, _next_oid=nxt)
        g = {'self': me, 'base': base, 'changes': changes, 'lock': lock, 'clock': clock,
             'txn': txn, 'issued': issued, 'stored': stored, 'resolved': resolved}
        c.ghost['demo'] = g
        c.roles.array(c.obj(issued).f['dom'], 'oid')
        return g

    def layer_order(self, c):
        g = c.ghost['demo']
        b, ch = c.obj(g['base']), c.obj(g['changes'])
        return [('LAYER_ORDER', All(['oid', 'tid', 'tid'], lambda o, t1, t2: z3.Implies(
            z3.And(rev(b, o, t1), rev(ch, o, t2)), t1 < t2))),
            ('tids-below-maxtid', All(['oid', 'tid'], lambda o, t: z3.Implies(
                z3.Or(rev(b, o, t), rev(ch, o, t)), z3.And(t >= 0, t < MAXTID))))]

    def at_exit(self, c, E, kind, val):
        g = c.ghost['demo']
        calls = c.obj(g['base']).meta['calls']
        bad = [n for n in calls if n not in READONLY]
        return [('base-receives-only-read-calls', not bad)]


class DemoLoadBefore(DemoSpec):
    func = 'ZODB.DemoStorage:DemoStorage.loadBefore'
    props = ('C16', 'C04')
    cases = ('tid', 'maxtid')

    def setup(self, c, case=None):
        g = self.mk(c)
        tid = VBytes.lit(MAXTID.to_bytes(8, 'big')) if case == 'maxtid' else c.fresh_bytes(8, 'tid')
        return {'self': g['self'], 'oid': c.fresh_bytes(8, 'oid'), 'tid': tid}

    def requires(self, c, E):
        return self.layer_order(c) + [('bound-at-most-maxtid', bytes_num(c, E['tid']) <= MAXTID)]

    def outcomes(self, c, E):
        g = c.ghost['demo']
        b, ch = c.obj(g['base']), c.obj(g['changes'])
        oid, bound = bytes_num(c, E['oid']), bytes_num(c, E['tid'])
        c.roles.seed('oid', oid)
        c.roles.seed('tid', bound)
        u = lambda t: z3.Or(rev(b, oid, t), rev(ch, oid, t))     # union of the two layers
        kn = Ex(['tid'], u)
        nobefore = All(['tid'], lambda t: z3.Implies(u(t), t >= bound))

        def merged(end_none):
            def post(c, E, r):
                if not isinstance(r, VTuple) or len(r.items) != 3:
                    return [('triple', False)]
                data, ser, end = r.items
                s = bytes_num(c, ser)
                c.roles.seed('tid', s)
                out = [
                    ('serial-is-a-revision-of-the-union', u(s)),
                    ('serial-below-bound', s < bound),
                    ('serial-is-the-greatest-below', All(['tid'], lambda t: z3.Implies(
                        z3.And(u(t), t < bound), t <= s))),
                    ('data-of-that-revision', isinstance(data, VOpaque) and data.t == z3.If(
                        rev(ch, oid, s), DATA(2, oid, s), DATA(1, oid, s))),
                ]
                if isinstance(end, VNone):
                    out.append(('no-later-revision-in-either-layer', All(
                        ['tid'], lambda t: z3.Implies(u(t), t < bound))))
                else:
                    e = bytes_num(c, end)
                    c.roles.seed('tid', e)
                    out += [('end-is-a-revision-of-the-union', u(e)), ('end-not-below', e >= bound),
                            ('end-is-the-least-not-below', All(['tid'], lambda t: z3.Implies(
                                z3.And(u(t), t >= bound), t >= e)))]
                return out
            return post
        nolater = All(['tid'], lambda t: z3.Implies(u(t), t < bound))

        def mk(end_none):
            def f(c, E):
                ser = c.fresh_bytes(8, 'serial')
                s_ = bytes_num(c, ser)
                data = VOpaque(z3.If(rev(ch, oid, s_), DATA(2, oid, s_), DATA(1, oid, s_)), 'data')
                return VTuple([data, ser, NONE if end_none else c.fresh_bytes(8, 'end')])
            return f
        return [
            Outcome('unknown', 'raise', POSKeyError, guard=FNot(kn)),
            Outcome('nothing-before', guard=FAnd(kn, nobefore),
                    post=lambda c, E, r: [('returns-None', isinstance(r, VNone))]),
            Outcome('found-current', guard=FAnd(kn, FNot(nobefore), nolater), post=merged(None),
                    result=mk(True)),
            Outcome('found-superseded', guard=FAnd(kn, FNot(nobefore), FNot(nolater)),
                    post=merged(None), result=mk(False)),
        ]

    def _inv(self, c, fr):
        g = c.ghost['demo']
        ch = c.obj(g['changes'])
        E = c.E
        oid, bound = bytes_num(c, E['oid']), bytes_num(c, E['tid'])
        et = bytes_num(c, fr.locals['end_tid'])
        t = fr.locals['t']
        c.roles.seed('tid', et)
        out = [('end-is-maxtid-or-a-change', z3.Or(et == MAXTID, rev(ch, oid, et))),
               ('no-change-between', All(['tid'], lambda x: z3.Implies(
                   z3.And(rev(ch, oid, x), x >= et), z3.Or(x == et, et == MAXTID, x > et)))),
               ('end-not-below-bound', et >= bound)]
        if isinstance(t, VNone):
            out.append(('t-none-means-no-earlier-change', All(['tid'], lambda x: z3.Implies(
                rev(ch, oid, x), x >= et))))
        elif isinstance(t, VTuple):
            s = bytes_num(c, t.items[1])
            c.roles.seed('tid', s)
            out.append(('t-is-the-previous-change', FAnd(rev(ch, oid, s), s < et, All(
                ['tid'], lambda x: z3.Implies(z3.And(rev(ch, oid, x), x < et), x <= s)))))
        else:
            out.append(('t-kind', False))
        return out

    @property
    def loops(self):
        def tkind(c, fr):
            i = c.choose([True, True], 't-kind')
            if i == 0:
                return NONE
            return VTuple([c.fresh_opaque('data'), c.fresh_bytes(8, 'tser'),
                           [NONE, c.fresh_bytes(8, 'tend')][c.choose([True, True], 'tend-kind')]])
        return {0: LoopSpec(inv=self._inv,
                            decreases=lambda c, fr: bytes_num(c, fr.locals['end_tid']),
                            kinds={'t': tkind})}


class DemoStore(DemoSpec):
    func = 'ZODB.DemoStorage:DemoStorage.store'
    props = ('C16', 'C03', 'C10')
    cases = ('same', 'other')

    def setup(self, c, case=None):
        g = self.mk(c, in_txn=True)
        t = g['txn'] if case == 'same' else c.fresh_opaque('other')
        if case == 'other':
            c.assume(t.t != g['txn'].t)
        return {'self': g['self'], 'oid': c.fresh_bytes(8, 'oid'),
                'serial': c.fresh_bytes(8, 'serial'), 'data': c.fresh_opaque('data'),
                'version': VStr(''), 'transaction': t}

    def hooks(self, c):
        def resolver(cc, args, kwargs, node):
            oid, old, ser, data = args
            a = (bytes_num(cc, oid), bytes_num(cc, old), bytes_num(cc, ser), data.t)
            cc.E.ghost['cur'] = a[1]     # ghost witness: the serial the merge is made against
            cc.roles.seed('tid', a[1])
            i = cc.choose([RESOLVABLE(*a), z3.Not(RESOLVABLE(*a))], 'resolve')
            if i == 1:
                raise RaiseSig(VExc(ConflictError))
            return VOpaque(RESOLVE(*a), 'data')
        return {'call:ZODB.ConflictResolution:tryToResolveConflict':
                lambda cc, args, kwargs, node: resolver(cc, args[1:], kwargs, node)}

    def requires(self, c, E):
        return self.layer_order(c)

    def modifies(self, c, E):
        g = c.ghost['demo']
        return {(g['stored'].id, 'dom'), (g['resolved'].id, 'arr'), (g['resolved'].id, 'len')}

    def outcomes(self, c, E):
        g = c.ghost['demo']
        S = c.obj(g['self']).f
        same = E['transaction'].t == S['_transaction'].t
        b, ch = c.obj(g['base']), c.obj(g['changes'])
        oid, ser = bytes_num(c, E['oid']), bytes_num(c, E['serial'])
        c.roles.seed('oid', oid)
        u = lambda t: z3.Or(rev(b, oid, t), rev(ch, oid, t))
        # the current (greatest) revision of the union; for the resolved / conflict outcomes it
        # is a ghost witness (fresh at call sites, the serial handed to the resolver at exits)
        is_cur_of = lambda x: FAnd(u(x), All(['tid'], lambda t: z3.Implies(u(t), t <= x)))
        kn = Ex(['tid'], u)
        c.roles.seed('tid', ser)

        def wit(c, E):
            E.ghost['cur'] = z3.Int(fresh_name('cur'))
            c.roles.seed('tid', E.ghost['cur'])

        def G(extra):
            def f(c, E):
                cur = E.ghost.get('cur')
                if cur is None:
                    return False
                return FAnd(same, is_cur_of(cur), cur != ser, extra(cur))
            return f

        def delegated(c, E, r, used_serial, used_data, resolved):
            calls = [e for e in c.events if e[0] == 'storage-call' and e[1] == 'changes'
                     and e[2] == 'store']
            rs, rs0 = c.obj(g['resolved']).f, E.old[g['resolved'].id]
            st = c.obj(g['stored']).f
            if len(calls) != 1:
                return [('exactly-one-store-on-changes', False)]
            a = calls[0][3]
            return [
                ('stored-under-the-merged-current-serial', bytes_num(c, a[1]) == used_serial),
                ('stored-data', isinstance(a[2], VOpaque) and a[2].t == used_data),
                ('stored-oid', bytes_num(c, a[0]) == oid),
                ('same-transaction-passed-on', isinstance(a[4], VOpaque)
                 and a[4].t.eq(E['transaction'].t)),
                ('oid-remembered-as-stored', z3.Select(st['dom'], oid)),
                ('resolved-list', (z3.And(rs['len'] == rs0['len'] + 1,
                                          z3.Select(rs['arr'], rs0['len']) == oid))
                 if resolved else rs['len'] == rs0['len']),
            ]
        rargs = lambda cur: (oid, cur, ser, E['data'].t)
        return [
            Outcome('wrong-transaction', 'raise', StorageTransactionError, guard=z3.Not(same),
                    post=lambda c, E, r: [('nothing-delegated', not any(
                        e[0] == 'storage-call' and e[2] == 'store' for e in c.events))]),
            Outcome('new-object', guard=FAnd(same, FNot(kn)),
                    post=lambda c, E, r: delegated(c, E, r, ser, E['data'].t, False)),
            Outcome('current', guard=FAnd(same, is_cur_of(ser)),
                    post=lambda c, E, r: delegated(c, E, r, ser, E['data'].t, False)),
            Outcome('resolved', guard=G(lambda cur: RESOLVABLE(*rargs(cur))), witness=wit,
                    post=lambda c, E, r: [('witness', False)] if E.ghost.get('cur') is None else
                    delegated(c, E, r, E.ghost['cur'], RESOLVE(*rargs(E.ghost['cur'])), True)),
            Outcome('conflict', 'raise', ConflictError,
                    guard=G(lambda cur: z3.Not(RESOLVABLE(*rargs(cur)))),
                    post=lambda c, E, r: [('nothing-stored', not any(
                        e[0] == 'storage-call' and e[2] == 'store' for e in c.events))]),
        ]


class DemoNewOid(DemoSpec):
    func = 'ZODB.DemoStorage:DemoStorage.new_oid'
    props = ('C16', 'C20')

    def setup(self, c, case=None):
        g = self.mk(c)
        return {'self': g['self']}

    def requires(self, c, E):
        return self.layer_order(c)

    def modifies(self, c, E):
        g = c.ghost['demo']
        return {(g['issued'].id, 'dom'), (g['self'].id, '_next_oid')}

    def outcomes(self, c, E):
        g = c.ghost['demo']
        b, ch = c.obj(g['base']), c.obj(g['changes'])
        iss0 = c.obj(g['issued']).f['dom']

        def post(c, E, r):
            if not isinstance(r, VBytes) or r.conc_len() != 8:
                return [('8-bytes', False)]
            o = bytes_num(c, r)
            c.roles.seed('oid', o)
            iss = c.obj(g['issued']).f['dom']
            return [
                ('not-issued-before', z3.Not(z3.Select(iss0, o))),
                ('no-revision-in-changes', All(['tid'], lambda t: z3.Not(rev(ch, o, t)))),
                ('no-revision-in-base', All(['tid'], lambda t: z3.Not(rev(b, o, t)))),
                ('remembered-as-issued', z3.Select(iss, o)),
                ('issued-set-only-grows', All(['oid'], lambda q: z3.Implies(
                    z3.Select(iss0, q), z3.Select(iss, q)))),
                ('storage-lock-released', c.obj(g['lock']).f['held'] == 0),
            ]
        return [Outcome('ok', post=post, result=lambda c, E: c.fresh_bytes(8, 'oid'))]

    @property
    def loops(self):
        g_ = lambda c: c.ghost['demo']

        def inv(c, fr):
            g = g_(c)
            iss0 = c.E.old[g['issued'].id]['dom']
            iss = c.obj(g['issued']).f['dom']
            return [('issued-unchanged-so-far', iss == iss0),
                    ('lock-held-once', c.obj(g['lock']).f['held'] == 1),
                    ('candidate-in-range', z3.And(c.obj(g['self']).f['_next_oid'].t >= 0,
                                                  c.obj(g['self']).f['_next_oid'].t < 2 ** 63))]

        def havoc(c, fr):
            g = g_(c)
            c.obj(g['self']).f['_next_oid'] = c.fresh_int('_next_oid')
            for k in ('base', 'changes'):
                c.obj(g[k]).meta['calls'] = [n for n in c.obj(g[k]).meta['calls']]
        # termination of the random probing is not claimed (no variant)
        return {0: LoopSpec(inv=inv, havoc=havoc, kinds={'oid': lambda c, fr: NONE})}


class DemoHistory(DemoSpec):
    """history(oid, size): the revisions of BOTH layers, newest first - those of the changes layer, then,
    while fewer than `size`, those of the base; POSKeyError only if neither layer knows the object"""
    func = 'ZODB.DemoStorage:DemoStorage.history'
    props = ('C16',)

    def setup(self, c, case=None):
        g = self.mk(c, in_txn=False)
        size = c.fresh_int('size')
        c.assume(size.t >= 1)
        return {'self': g['self'], 'oid': c.fresh_bytes(8, 'oid'), 'size': size}

    def hooks(self, c):
        hk = DemoSpec.hooks(self, c) or {}

        def binop(cc, op, a, b, node):
            import ast as _ast
            if isinstance(op, _ast.Add) and isinstance(b, VRef) and cc.obj(b).kind == 'slist':
                # list + list: concatenation
                if isinstance(a, VRef) and cc.obj(a).kind == 'list' and cc.obj(a).meta.get('items') == []:
                    return b
                if isinstance(a, VRef) and cc.obj(a).kind == 'slist':
                    x, y = cc.obj(a).f, cc.obj(b).f
                    k = z3.Int(fresh_name('k'))
                    r = prims.new_slist(cc, 'int', 'concat')
                    cc.obj(r).f['len'] = z3.simplify(x['len'] + y['len'])
                    cc.obj(r).f['arr'] = z3.Lambda([k], z3.If(k < x['len'], z3.Select(x['arr'], k),
                                                              z3.Select(y['arr'], k - x['len'])))
                    return r
            return None
        hk['binop'] = binop
        return hk

    def modifies(self, c, E):
        return set()

    def outcomes(self, c, E):
        g = c.ghost['demo']
        oid, size = bytes_num(c, E['oid']), E['size'].t
        lc, lb = c.obj(g['changes']).meta['layer'], c.obj(g['base']).meta['layer']
        cc_, cb = HCNT(lc, oid), HCNT(lb, oid)
        c.assume(z3.And(cc_ >= 0, cb >= 0))      # counts (definition of the ghost functions)
        n1 = z3.If(size < cc_, size, cc_)
        rest = size - n1
        n2 = z3.If(rest < cb, rest, cb)

        def post(c, E, r):
            if isinstance(r, VRef) and c.obj(r).kind == 'list' and c.obj(r).meta.get('items') == []:
                return [('merged-history', False)]
            if not (isinstance(r, VRef) and c.obj(r).kind == 'slist'):
                return [('returns-a-list', False)]
            f = c.obj(r).f
            i = z3.Int(fresh_name('i'))
            return [('length-is-min-of-size-and-both-layers', f['len'] == n1 + n2),
                    ('changes-revisions-first-then-base-revisions-newest-first', z3.ForAll([i], z3.Implies(
                        z3.And(i >= 0, i < n1 + n2),
                        z3.Select(f['arr'], i) == z3.If(i < n1, z3.Select(HREC(lc, oid), i),
                                                        z3.Select(HREC(lb, oid), i - n1)))))]
        return [Outcome('unknown-object', 'raise', POSKeyError, guard=z3.And(cc_ == 0, cb == 0)),
                Outcome('history', guard=z3.Or(cc_ > 0, cb > 0), post=post)]


class NewTid(Spec):
    """ZODB.utils.newTid(old): a time stamp later than `old` whatever the clock says (A-TIMESTAMP:
    TimeStamp.laterThan; the same computation as BaseStorage.tpc_begin, proved there)"""
    func = 'ZODB.utils:newTid'
    props = ()
    verify = False
    assumptions = ('A-TIMESTAMP (utils.newTid): the result is later than the given tid whatever the clock returns',)

    def outcomes(self, c, E):
        def mk(cc, E):
            t = z3.Int(fresh_name('newtid'))
            old = E['old']
            lo = bytes_num(cc, old) if isinstance(old, VBytes) and old.conc_len() == 8 else z3.IntVal(-1)
            cc.assume(z3.And(t > lo, t >= 0, t < 2 ** 63))
            return num_to_bytes(cc, t, 8, 'newtid')
        return [Outcome('tid', result=mk)]


class DemoTpcBegin(DemoSpec):
    func = 'ZODB.DemoStorage:DemoStorage.tpc_begin'
    props = ('C16', 'C05')
    cases = ('fresh', 'duplicate')

    def setup(self, c, case=None):
        g = self.mk(c, in_txn=(case == 'duplicate'))
        return {'self': g['self'], 'transaction': g['txn'], 'a': VTuple([])}

    def modifies(self, c, E):
        g = c.ghost['demo']
        return {(g['clock'].id, 'held'), (g['self'].id, '_transaction'),
                (g['self'].id, '_stored_oids'), (g['resolved'].id, 'len'),
                (g['changes'].id, 'in_txn'), (g['changes'].id, 'pending_tid')}

    def outcomes(self, c, E):
        g = c.ghost['demo']
        S0 = c.obj(g['self']).f
        dup = isinstance(S0['_transaction'], VOpaque)

        def lockinv(c, E, r):
            S = c.obj(g['self']).f
            held = c.obj(g['clock']).f['held']
            mine = isinstance(S['_transaction'], VOpaque) and S['_transaction'].t.eq(E['transaction'].t)
            return [('LOCKINV.commit-lock-held-iff-transaction-recorded',
                     held == (1 if mine else 0)),
                    ('storage-lock-released', c.obj(g['lock']).f['held'] == 0),
                    ('delegate-in-transaction-iff-we-are',
                     c.obj(g['changes']).f['in_txn'] == z3.BoolVal(bool(mine)))]
        base_last0 = c.obj(g['base']).f['ltid']
        changes_last0 = c.obj(g['changes']).f['ltid']

        def begun(c, E, r):
            p = c.obj(g['changes']).f['pending_tid']
            return lockinv(c, E, r) + [
                ('LAYER_ORDER.transaction-id-chosen-later-than-both-layers',
                 z3.And(p > base_last0, p > changes_last0))]
        if dup:
            return [Outcome('duplicate', 'raise', StorageTransactionError,
                            post=lambda c, E, r: [('lock-untouched', c.obj(g['clock']).f['held'] == 1)])]
        return [Outcome('ok', post=begun),
                Outcome('delegate-refuses', 'raise', 'ZODB.POSException:StorageError', post=lockinv)]


class DemoTpcAbort(DemoSpec):
    func = 'ZODB.DemoStorage:DemoStorage.tpc_abort'
    props = ('C16', 'C05', 'C20')
    cases = ('same', 'other')

    def setup(self, c, case=None):
        g = self.mk(c, in_txn=True)
        c.obj(g['changes']).f['in_txn'] = z3.BoolVal(True)
        t = g['txn'] if case == 'same' else c.fresh_opaque('other')
        if case == 'other':
            c.assume(t.t != g['txn'].t)
        return {'self': g['self'], 'transaction': t}

    def modifies(self, c, E):
        g = c.ghost['demo']
        return {(g['clock'].id, 'held'), (g['self'].id, '_transaction'),
                (g['self'].id, '_stored_oids'), (g['changes'].id, 'in_txn')}

    def outcomes(self, c, E):
        g = c.ghost['demo']
        S0 = c.obj(g['self']).f
        same = E['transaction'].t == S0['_transaction'].t

        issued0 = c.obj(S0['_issued_oids']).f['dom'] if isinstance(S0.get('_issued_oids'), VRef) else None

        def aborted(c, E, r):
            S = c.obj(g['self']).f
            iss = S.get('_issued_oids')
            return [('ids-handed-out-stay-remembered-as-issued (an aborted store does not make an id free again)',
                     isinstance(iss, VRef) and issued0 is not None and c.obj(iss).f['dom'] == issued0),
                    ('commit-lock-released', c.obj(g['clock']).f['held'] == 0),
                    ('no-transaction', isinstance(S['_transaction'], VNone)),
                    ('delegate-aborted', z3.Not(c.obj(g['changes']).f['in_txn'])),
                    ('storage-lock-released', c.obj(g['lock']).f['held'] == 0)]

        def ignored(c, E, r):
            S = c.obj(g['self']).f
            return [('without-effect', z3.And(c.obj(g['clock']).f['held'] == 1,
                                              c.obj(g['changes']).f['in_txn'])),
                    ('transaction-kept', contract.same_value(c, S0['_transaction'],
                                                             S['_transaction']))]
        return [Outcome('aborted', guard=same, post=aborted),
                Outcome('ignored', guard=z3.Not(same), post=ignored)]


class DemoTpcFinish(DemoSpec):
    func = 'ZODB.DemoStorage:DemoStorage.tpc_finish'
    props = ('C16', 'C05', 'C20')
    cases = ('same', 'other')

    def setup(self, c, case=None):
        g = self.mk(c, in_txn=True)
        c.obj(g['changes']).f['in_txn'] = z3.BoolVal(True)
        t = g['txn'] if case == 'same' else c.fresh_opaque('other')
        if case == 'other':
            c.assume(t.t != g['txn'].t)
        return {'self': g['self'], 'transaction': t}

    def requires(self, c, E):
        # established by tpc_begin (post LAYER_ORDER.transaction-id-chosen-later-than-both-layers) for
        # every transaction begun WITHOUT an explicit tid; the base layer is not written in between
        g = c.ghost['demo']
        p = c.obj(g['changes']).f['pending_tid']
        return DemoSpec.requires(self, c, E) + [
            ('LAYER_ORDER.pending-transaction-id-later-than-both-layers',
             z3.And(p > c.obj(g['base']).f['ltid'], p > c.obj(g['changes']).f['ltid']))]

    def modifies(self, c, E):
        g = c.ghost['demo']
        return {(g['clock'].id, 'held'), (g['self'].id, '_transaction'),
                (g['self'].id, '_stored_oids'), (g['changes'].id, 'in_txn'),
                (g['changes'].id, 'ltid'), (g['issued'].id, 'dom')}

    def outcomes(self, c, E):
        g = c.ghost['demo']
        S0 = c.obj(g['self']).f
        same = E['transaction'].t == S0['_transaction'].t
        iss0 = c.obj(g['issued']).f['dom']
        st0 = c.obj(g['stored']).f['dom']

        base_last = c.obj(g['base']).f['ltid']
        changes_last = c.obj(g['changes']).f['ltid']

        def done(c, E, r):
            S = c.obj(g['self']).f
            iss = c.obj(g['issued']).f['dom']
            return [('tid-later-than-every-earlier-tid-of-the-changes-layer',
                     bytes_num(c, r) > changes_last),
                    # C04 / LAYER_ORDER: nothing in the code makes the new tid exceed the base's
                    # last tid (finding F9)
                    ('tid-later-than-every-earlier-tid-of-the-base-layer',
                     bytes_num(c, r) > base_last),
                    ('commit-lock-released', c.obj(g['clock']).f['held'] == 0),
                    ('no-transaction', isinstance(S['_transaction'], VNone)),
                    ('delegate-finished', z3.Not(c.obj(g['changes']).f['in_txn'])),
                    ('issued-forgets-exactly-the-stored-oids', All(['oid'], lambda q: z3.Select(
                        iss, q) == z3.And(z3.Select(iss0, q), z3.Not(z3.Select(st0, q))))),
                    ('storage-lock-released', c.obj(g['lock']).f['held'] == 0)]
        return [Outcome('finished', guard=same, post=done,
                        result=lambda c, E: c.fresh_bytes(8, 'tid')),
                Outcome('wrong-transaction', 'raise', StorageTransactionError,
                        guard=z3.Not(same),
                        post=lambda c, E, r: [('without-effect', z3.And(
                            c.obj(g['clock']).f['held'] == 1, c.obj(g['changes']).f['in_txn'],
                            c.obj(g['issued']).f['dom'] == iss0))])]


SPECS = [DemoLoadBefore, DemoStore, DemoNewOid, DemoHistory, NewTid, DemoTpcBegin, DemoTpcAbort, DemoTpcFinish]
INLINE = ['ZODB.utils:load_current', 'ZODB.utils:p64', 'ZODB.utils:u64']
