"""Contracts for ZODB.FileStorage.format (record/transaction header codecs) and the read
path of FileStorage (load, loadSerial, loadBefore, getTid, _loadBack_impl) - C04."""
import z3

from pyvc import contract, prims
from pyvc.contract import LoopSpec, Outcome, Spec
from pyvc.engine import as_z3_bool, be_num, bytes_elems, bytes_eq, bytes_num
from pyvc.values import (B, I, NONE, VBool, VBytes, VExc, VInt, VNone, VOpaque, VRef, VStr,
                         VTuple, fresh_name)

from . import fsmodel as M
from .common import (KeyError_, OSError_, POSKeyError, TypeError_, ValueError_, inst)
from .fsmodel import be, rec, txn


def sel_bytes(arr, pos, n):
    return VBytes([('b', [z3.Select(arr, z3.simplify(pos + k)) for k in range(n)])])


def field_eq(c, v, t):
    """value v (VInt) equals term t"""
    return isinstance(v, VInt) and v.t == t


def b8_eq_num(c, v, t):
    return isinstance(v, VBytes) and v.conc_len() == 8 and bytes_num(c, v) == t


# ======================================================================================
# _read_data_header
# ======================================================================================
class ReadDataHeader(Spec):
    func = 'ZODB.FileStorage.format:FileStorageFormatter._read_data_header'
    props = ('C04', 'C01', 'C06', 'C17', 'C07')
    cases = ('self-file', 'self-file-oid', 'given-file-oid', 'given-file')

    def setup(self, c, case=None):
        f = prims.new_file(c, '_file')
        me = inst(c, M.FMT, _file=f)
        a = {'self': me, 'pos': c.fresh_int('pos')}
        a['oid'] = c.fresh_bytes(8, 'oid') if case in ('self-file-oid', 'given-file-oid') else NONE
        a['_file'] = prims.new_file(c, 'reader') if case.startswith('given') else NONE
        return a

    def the_file(self, c, E, old=False):
        fv = E['_file']
        if isinstance(fv, VNone):
            fv = (E.old[E['self'].id] if old else c.obj(E['self']).f)['_file']
        return fv

    def modifies(self, c, E):
        return {(self.the_file(c, E).id, 'pos')}

    def outcomes(self, c, E):
        fv = self.the_file(c, E)
        ff = c.obj(fv).f
        arr, size = ff['arr'], ff['size']
        pos = E['pos'].t
        r = rec(arr, pos)
        M.link_at(c, arr, pos)   # ground instance of the ghost field definitions at pos
        oid = E['oid']
        avail = size - pos
        oid_ok = z3.BoolVal(True) if isinstance(oid, VNone) else (bytes_num(c, oid) == r['oid'])
        full = z3.And(pos >= 0, avail >= 42)
        good = z3.And(full, oid_ok, r['vlen'] == 0)

        def mk(c, E):
            M.byte_range_facts(c, arr, pos, 50)
            M.link_at(c, arr, pos)
            return inst(c, M.DH, oid=sel_bytes(arr, pos, 8), tid=sel_bytes(arr, pos + 8, 8),
                        prev=VInt(r['prev']), tloc=VInt(r['tloc']), plen=VInt(r['plen']),
                        back=VInt(z3.If(r['plen'] == 0, r['back'], 0)))

        def post(c, E, h):
            if not isinstance(h, VRef) or c.obj(h).cls != M.DH:
                return [('returns-DataHeader', False)]
            hf = c.obj(h).f
            f1 = c.obj(fv).f
            return [
                ('oid', b8_eq_num(c, hf.get('oid'), r['oid'])),
                ('tid', b8_eq_num(c, hf.get('tid'), r['tid'])),
                ('prev', field_eq(c, hf.get('prev'), r['prev'])),
                ('tloc', field_eq(c, hf.get('tloc'), r['tloc'])),
                ('plen', field_eq(c, hf.get('plen'), r['plen'])),
                ('back', field_eq(c, hf.get('back'), z3.If(r['plen'] == 0, r['back'], 0))),
                ('file-position', f1['pos'] == pos + 42 + z3.If(r['plen'] == 0, 8, 0)),
            ]
        return [
            Outcome('negative-seek', 'raise', OSError_, guard=pos < 0),
            Outcome('short', 'raise', M.CorruptedDataError, guard=z3.And(pos >= 0, avail < 42)),
            # (the version-length test precedes the oid comparison in the code)
            Outcome('version-length', 'raise', ValueError_,
                    guard=z3.And(full, r['vlen'] != 0)),
            Outcome('oid-mismatch', 'raise', M.CorruptedDataError,
                    guard=z3.And(full, r['vlen'] == 0, z3.Not(oid_ok))),
            Outcome('short-backpointer', 'raise', ValueError_,
                    guard=z3.And(good, r['plen'] == 0, avail < 50)),
            Outcome('ok', guard=z3.And(good, z3.Or(r['plen'] != 0, avail >= 50)),
                    result=mk, post=post),
        ]


# ======================================================================================
# _read_txn_header
# ======================================================================================
class ReadTxnHeader(Spec):
    func = 'ZODB.FileStorage.format:FileStorageFormatter._read_txn_header'
    props = ('C04', 'C09', 'C06', 'C17', 'C07')
    cases = ('no-tid', 'tid')

    def setup(self, c, case=None):
        f = prims.new_file(c, '_file')
        me = inst(c, M.FMT, _file=f)
        return {'self': me, 'pos': c.fresh_int('pos'),
                'tid': c.fresh_bytes(8, 'tid') if case == 'tid' else NONE}

    def modifies(self, c, E):
        return {(c.obj(E['self']).f['_file'].id, 'pos')}

    def outcomes(self, c, E):
        fv = c.obj(E['self']).f['_file']
        ff = c.obj(fv).f
        arr, size = ff['arr'], ff['size']
        pos = E['pos'].t
        t = txn(arr, pos)
        tid = E['tid']
        avail = size - pos
        tid_ok = z3.BoolVal(True) if isinstance(tid, VNone) else (bytes_num(c, tid) == t['tid'])
        full = z3.And(pos >= 0, avail >= 23)
        ascii_ok = t['status'] < 128

        def clamp(n, room):
            return z3.If(room <= 0, 0, z3.If(n < room, n, room))
        ulen = clamp(t['ul'], avail - 23)
        dlen = clamp(t['dl'], avail - 23 - ulen)
        elen = clamp(t['el'], avail - 23 - ulen - dlen)

        def mk(c, E):
            M.byte_range_facts(c, arr, pos, 23)
            return inst(c, M.TH, tid=sel_bytes(arr, pos, 8), tlen=VInt(t['tl']),
                        status=VStr(codes=[t['status']]), ulen=VInt(t['ul']), dlen=VInt(t['dl']),
                        elen=VInt(t['el']),
                        user=VBytes([('a', arr, pos + 23, ulen)]),
                        descr=VBytes([('a', arr, pos + 23 + ulen, dlen)]),
                        ext=VBytes([('a', arr, pos + 23 + ulen + dlen, elen)]))

        def post(c, E, h):
            if not isinstance(h, VRef) or c.obj(h).cls != M.TH:
                return [('returns-TxnHeader', False)]
            hf = c.obj(h).f
            st = hf.get('status')
            f1 = c.obj(fv).f
            return [
                ('tid', b8_eq_num(c, hf.get('tid'), t['tid'])),
                ('tlen', field_eq(c, hf.get('tlen'), t['tl'])),
                ('status', isinstance(st, VStr) and len(st.code_terms()) == 1 and
                 st.code_terms()[0] == t['status']),
                ('ulen', field_eq(c, hf.get('ulen'), t['ul'])),
                ('dlen', field_eq(c, hf.get('dlen'), t['dl'])),
                ('elen', field_eq(c, hf.get('elen'), t['el'])),
                ('user', slice_is(c, hf.get('user'), arr, pos + 23, ulen)),
                ('descr', slice_is(c, hf.get('descr'), arr, pos + 23 + ulen, dlen)),
                ('ext', slice_is(c, hf.get('ext'), arr, pos + 23 + ulen + dlen, elen)),
                ('file-position', f1['pos'] == pos + 23 + ulen + dlen + elen),
            ]
        got = z3.If(avail > 0, avail, 0)

        def mk_short(c, E):
            # the exception carries what was read and where (callers test err.buf / err.pos)
            return VExc(M.CorruptedDataError, [], {'oid': tid, 'buf': VBytes([('a', arr, pos, got)]),
                                                   'pos': VInt(pos)})

        def post_short(c, E, x):
            if not isinstance(x, VExc):
                return [('raises', False)]
            return [('buf-is-the-short-read', slice_is(c, x.attrs.get('buf'), arr, pos, got)),
                    ('pos', field_eq(c, x.attrs.get('pos'), pos))]
        return [
            Outcome('negative-seek', 'raise', OSError_, guard=pos < 0),
            Outcome('short', 'raise', M.CorruptedDataError, guard=z3.And(pos >= 0, avail < 23),
                    result=mk_short, post=post_short),
            Outcome('non-ascii-status', 'raise', 'builtins:UnicodeDecodeError',
                    guard=z3.And(full, z3.Not(ascii_ok))),
            Outcome('tid-mismatch', 'raise', M.CorruptedDataError,
                    guard=z3.And(full, ascii_ok, z3.Not(tid_ok))),
            Outcome('ok', guard=z3.And(full, ascii_ok, tid_ok), result=mk, post=post),
        ]


def slice_is(c, v, arr, off, ln):
    """v is the byte string arr[off:off+ln]"""
    if not isinstance(v, VBytes):
        return False
    if len(v.segs) == 0:
        return ln == 0
    if len(v.segs) == 1 and v.segs[0][0] == 'a':
        _, a2, o2, l2 = v.segs[0]
        if a2.eq(arr):
            # same image: equal slices iff equal bounds (or both empty)
            return z3.And(l2 == ln, z3.Or(ln <= 0, o2 == off))
        k = z3.Int(fresh_name('k'))
        return z3.And(l2 == ln, z3.ForAll([k], z3.Implies(
            z3.And(k >= 0, k < ln), z3.Select(a2, o2 + k) == z3.Select(arr, off + k))))
    n = v.conc_len()
    if n is not None:
        el = bytes_elems(c, v)
        return z3.And([ln == n] + [el[k] == z3.Select(arr, off + k) for k in range(n)])
    return False


# ======================================================================================
# codecs: DataHeader / TxnHeader pack-unpack round trip (C04-F)
# ======================================================================================
class DataHeaderAsString(Spec):
    func = 'ZODB.FileStorage.format:DataHeader.asString'
    props = ('C04', 'C01', 'C17')

    def setup(self, c, case=None):
        h = inst(c, M.DH, oid=c.fresh_bytes(8, 'oid'), tid=c.fresh_bytes(8, 'tid'),
                 prev=c.fresh_int('prev'), tloc=c.fresh_int('tloc'), plen=c.fresh_int('plen'),
                 back=c.fresh_int('back'))
        return {'self': h}

    def outcomes(self, c, E):
        hf = c.obj(E['self']).f
        rng = z3.And([z3.And(hf[k].t >= 0, hf[k].t < 2 ** 64) for k in ('prev', 'tloc', 'plen')])

        def post(c, E, r):
            if not isinstance(r, VBytes) or r.conc_len() != 42:
                return [('42-bytes', False)]
            el = bytes_elems(c, r)
            return [
                ('oid', be_num(el[0:8]) == bytes_num(c, hf['oid'])),
                ('tid', be_num(el[8:16]) == bytes_num(c, hf['tid'])),
                ('prev', be_num(el[16:24]) == hf['prev'].t),
                ('tloc', be_num(el[24:32]) == hf['tloc'].t),
                ('vlen-zero', be_num(el[32:34]) == 0),
                ('plen', be_num(el[34:42]) == hf['plen'].t),
            ]

        def mk(c, E):
            return c.fresh_bytes(42, 'hdr')
        return [Outcome('ok', guard=rng, result=mk, post=post),
                Outcome('range', 'raise', 'ext:struct.error', guard=z3.Not(rng))]


class TxnHeaderAsString(Spec):
    func = 'ZODB.FileStorage.format:TxnHeader.asString'
    props = ('C04', 'C01', 'C17')

    def setup(self, c, case=None):
        h = inst(c, M.TH, tid=c.fresh_bytes(8, 'tid'), tlen=c.fresh_int('tlen'),
                 status=VStr(codes=[z3.Int(fresh_name('status'))]),
                 ulen=c.fresh_int('ulen'), dlen=c.fresh_int('dlen'), elen=c.fresh_int('elen'),
                 user=c.fresh_barr('user'), descr=c.fresh_barr('descr'), ext=c.fresh_barr('ext'))
        return {'self': h}

    def outcomes(self, c, E):
        hf = c.obj(E['self']).f
        st = hf['status'].code_terms()[0]
        rng = z3.And(hf['tlen'].t >= 0, hf['tlen'].t < 2 ** 64,
                     *[z3.And(hf[k].t >= 0, hf[k].t < 65536) for k in ('ulen', 'dlen', 'elen')])
        ascii_ok = z3.And(st >= 0, st < 128)

        def post(c, E, r):
            if not isinstance(r, VBytes) or not r.segs or r.segs[0][0] != 'b' \
                    or len(r.segs[0][1]) < 23:
                return [('starts-with-23-byte-header', False)]
            el = r.segs[0][1]
            out = [
                ('tid', be_num(el[0:8]) == bytes_num(c, hf['tid'])),
                ('tlen', be_num(el[8:16]) == hf['tlen'].t),
                ('status', el[16] == st),
                ('ulen', be_num(el[17:19]) == hf['ulen'].t),
                ('dlen', be_num(el[19:21]) == hf['dlen'].t),
                ('elen', be_num(el[21:23]) == hf['elen'].t),
                ('total-length', r.length() == 23 + hf['user'].length() + hf['descr'].length()
                 + hf['ext'].length()),
            ]
            rest = VBytes([('b', el[23:])] + r.segs[1:])
            want = VBytes(hf['user'].segs + hf['descr'].segs + hf['ext'].segs)
            out.append(('user-descr-ext-follow', ropes_same(rest, want)))
            return out

        def mk(c, E):
            hdr = c.fresh_bytes(23, 'thdr')
            return VBytes(hdr.segs + hf['user'].segs + hf['descr'].segs + hf['ext'].segs)
        return [Outcome('ok', guard=z3.And(rng, ascii_ok), result=mk, post=post),
                Outcome('range', 'raise', 'ext:struct.error', guard=z3.And(ascii_ok, z3.Not(rng))),
                Outcome('non-ascii', 'raise', 'builtins:UnicodeEncodeError',
                        guard=z3.Not(ascii_ok))]


def ropes_same(a, b):
    """structural equality of two ropes built from the same segments"""
    if len(a.segs) != len(b.segs):
        return False
    parts = []
    for x, y in zip(a.segs, b.segs):
        if x[0] != y[0]:
            return False
        if x[0] == 'b':
            if len(x[1]) != len(y[1]):
                return False
            parts.extend(p == q for p, q in zip(x[1], y[1]))
        else:
            if not (x[1].eq(y[1])):
                return False
            parts.append(x[2] == y[2])
            parts.append(x[3] == y[3])
    return z3.And(parts) if parts else True


SPECS = [ReadDataHeader, ReadTxnHeader, DataHeaderAsString, TxnHeaderAsString]
INLINE = [
    'ZODB.FileStorage.format:DataHeaderFromString', 'ZODB.FileStorage.format:TxnHeaderFromString',
    'ZODB.FileStorage.format:DataHeader.__init__', 'ZODB.FileStorage.format:TxnHeader.__init__',
    'ZODB.FileStorage.format:DataHeader.recordlen', 'ZODB.FileStorage.format:TxnHeader.headerlen',
    'ZODB.utils:p64', 'ZODB.utils:u64', 'ZODB.utils:as_bytes', 'ZODB.utils:as_text',
    'ZODB.utils:byte_ord', 'ZODB.utils:byte_chr',
    'ZODB.FileStorage.format:CorruptedDataError.__init__',
]
