"""C09 - index and side files are only caches; read-only open changes nothing.
_check_sanity / _sane (totality: whatever the file and the saved (index, pos) contain, the answer is
0 or a tid - never an exception), _save_index (write to a temporary name, then rename; nothing in
read-only mode), read-only guards of every mutator (syntactic lemma)."""
import ast

import z3

from pyvc import contract, prims, source
from pyvc.contract import LoopSpec, Outcome, Spec
from pyvc.engine import RaiseSig, Unsupported, bytes_num
from pyvc.ground import All, Ex, FAnd, FNot, FOr
from pyvc.values import (B, I, NONE, Obj, VBool, VBytes, VExc, VFunc, VInt, VNone, VOpaque,
                         VRef, VStr, VTuple, fresh_name)

from . import fsmodel as M
from .common import OSError_, ReadOnlyError, ValueError_, inst
from .fs_load import ghost_of

FS = M.FS
ALLOWED = ('builtins:ValueError', 'builtins:OSError', M.CorruptedError)


class SanitySpec(Spec):
    props = ('C09',)

    def mk(self, c, read_only=None):
        h = M.mk_fs(c, in_txn=False, read_only=read_only, with_ghost=False)
        c.ghost[('fs', h.self.id)] = h
        index = prims.new_map(c, 'bytes8', 'int', 'saved_index', sorted_=True)
        return h, index


class CheckSanity(SanitySpec):
    """may raise only the exception classes that _sane turns into 'ignore the index'; touches no file"""
    func = 'ZODB.FileStorage.FileStorage:FileStorage._check_sanity'
    props = ('C09', 'C04')

    def setup(self, c, case=None):
        h, index = self.mk(c)
        return {'self': h.self, 'index': index, 'pos': c.fresh_int('pos')}

    def modifies(self, c, E):
        h = ghost_of(c, E['self'])
        return {(h.file.id, 'pos')}

    def outcomes(self, c, E):
        h = ghost_of(c, E['self'])
        A = c.obj(h.file).f['arr']
        p0 = E['pos'].t
        T0 = M.be(A, p0 - M.be(A, p0 - 8, 8) - 8, 8)     # tid of the transaction that ends at pos
        E.ghost['T0'] = T0

        def post(c, E, r):
            ok = isinstance(r, (VInt, VBytes))
            out = [('returns-0-or-a-tid', ok)]
            if isinstance(r, VBytes):
                out.append(('accepted-index-reports-the-tid-of-the-transaction-ending-at-pos',
                            bytes_num(c, r) == T0))
            elif isinstance(r, VInt):
                out.append(('rejection-is-zero', r.t == 0))
            return out
        return [Outcome('answer', post=post, result=lambda c, E: [
            VInt(0), c.fresh_bytes(8, 'ltid')][c.choose([True, True], 'sane-result')])] + \
            [Outcome('inconsistent:' + x.split(':')[-1], 'raise', x) for x in ALLOWED]

    @property
    def loops(self):
        none = lambda c, fr: NONE

        def hv(c, fr):
            h = ghost_of(c, c.E['self'])
            c.obj(h.file).f['pos'] = z3.Int(fresh_name('fpos'))

        def ltid_kind(c, fr):
            return [NONE, c.fresh_bytes(8, 'ltid')][c.choose([True, True], 'ltid-kind')]
        inv = lambda c, fr: [('counters', z3.And(fr.locals['checked'].t >= 0))]
        # every iteration of the outer loop that counts a record ends in `return`
        def inv0(c, fr):
            out = [('nothing-counted-yet', fr.locals['checked'].t == 0)]
            lt = fr.locals['ltid']
            if isinstance(lt, VNone):
                out.append(('first-iteration-starts-at-the-saved-position',
                            fr.locals['pos'].t == c.E['pos'].t))
            else:
                out.append(('last-tid-is-the-first-header-seen',
                            bytes_num(c, lt) == c.E.ghost['T0']))
            return out
        return {0: LoopSpec(inv=inv0, havoc=hv, kinds={'h': none, 'rstl': none, 'tl': none,
                                                      'tend': none, 'opos': none,
                                                      'ltid': ltid_kind}),
                1: LoopSpec(inv=inv, havoc=hv, kinds={'h': none})}


class Sane(SanitySpec):
    """TOTAL: for every file content and every saved (index, pos): returns 0 or a tid, raises nothing"""
    func = 'ZODB.FileStorage.FileStorage:FileStorage._sane'

    def setup(self, c, case=None):
        h, index = self.mk(c)
        return {'self': h.self, 'index': index, 'pos': c.fresh_int('pos')}

    def modifies(self, c, E):
        h = ghost_of(c, E['self'])
        return {(h.file.id, 'pos')}

    def outcomes(self, c, E):
        return [Outcome('answer', post=lambda c, E, r: [('returns-0-or-a-tid',
                                                        isinstance(r, (VInt, VBytes)))],
                        result=lambda c, E: [VInt(0), c.fresh_bytes(8, 'ltid')][
                            c.choose([True, True], 'sane-result')])]


class SaveIndex(SanitySpec):
    func = 'ZODB.FileStorage.FileStorage:FileStorage._save_index'
    cases = ('writable', 'read-only')

    def setup(self, c, case=None):
        h, index = self.mk(c, read_only=(case == 'read-only'))
        c.obj(h.self).f['_saved'] = c.fresh_int('_saved')
        c.obj(h.self).f['__name__'] = VStr('<Data.fs>')
        return {'self': h.self}

    def hooks(self, c):
        def save(cc, interp, ref, o, name, args, kwargs, node):
            pass

        def osfn(nm):
            def f(cc, interp, args, kwargs, node):
                cc.event('os', nm, tuple(a.s if isinstance(a, VStr) else a for a in args))
                if nm in ('remove', 'rename'):
                    i = cc.choose([True, True], 'os-' + nm)
                    if i == 1:
                        raise RaiseSig(VExc(OSError_))
                return NONE
            return f
        return {'prim:os.remove': osfn('remove'), 'prim:os.rename': osfn('rename')}

    def modifies(self, c, E):
        h = ghost_of(c, E['self'])
        return {(h.self.id, '_saved')}

    def outcomes(self, c, E):
        h = ghost_of(c, E['self'])
        ro = c.obj(h.self).f['_is_read_only'].conc()

        def post(c, E, r):
            ev = [e for e in c.events if e[0] in ('os', 'index-save')]
            if ro:
                return [('read-only-touches-no-file', not ev)]
            names = [(e[0], e[1]) + tuple(e[2][:2]) for e in ev]
            saves = [e for e in ev if e[0] == 'index-save']
            ok_first = bool(ev) and ev[0][0] == 'index-save' and ev[0][2] == '<Data.fs>.index.index_tmp'
            renames = [e for e in ev if e[0] == 'os' and e[1] == 'rename']
            rem = [k for k, e in enumerate(ev) if e[0] == 'os' and e[1] == 'remove']
            ren = [k for k, e in enumerate(ev) if e[0] == 'os' and e[1] == 'rename']
            return [
                ('index-written-to-the-temporary-name-first', ok_first and len(saves) == 1),
                ('saved-position-is-the-committed-end', bool(saves) and isinstance(
                    saves[0][1], VInt) and saves[0][1].t.eq(h.pos.t)),
                ('never-writes-the-index-file-in-place', all(
                    e[2] != '<Data.fs>.index' for e in saves)),
                ('renamed-into-place-after-the-old-index-is-removed',
                 (not ren) or (ev[ren[0]][2] == ('<Data.fs>.index.index_tmp', '<Data.fs>.index')
                               and (not rem or rem[0] < ren[0]))),
                ('only-the-index-file-is-removed', all(
                    ev[k][2] == ('<Data.fs>.index',) for k in rem)),
            ]
        return [Outcome('ok', post=post)]


def map_save(c, interp, ref, o, name, args, kwargs, node):
    raise Unsupported('x')


_orig_map_method = prims.map_method


def map_method(ctx, interp, ref, o, name, args, kwargs, node):
    if name == 'save' and o.cls == 'ZODB.fsIndex:fsIndex':
        # fsIndex.save(pos, fname): by contract (C19 bounded / fsindex module): writes a complete
        # index image to fname; may fail with OSError
        fn = args[1]
        ctx.event('index-save', args[0], fn.s if isinstance(fn, VStr) else fn)
        return NONE
    return _orig_map_method(ctx, interp, ref, o, name, args, kwargs, node)


prims.map_method = map_method


def lemma_readonly_guards():
    """every mutator of FileStorage / BaseStorage starts by refusing in read-only mode:
    first statement is `if self._is_read_only: raise ...ReadOnlyError()` (syntactic, current source)"""
    out = []
    targets = [('ZODB.FileStorage.FileStorage', 'FileStorage.store'),
               ('ZODB.FileStorage.FileStorage', 'FileStorage.deleteObject'),
               ('ZODB.FileStorage.FileStorage', 'FileStorage.restore'),
               ('ZODB.FileStorage.FileStorage', 'FileStorage.undo'),
               ('ZODB.FileStorage.FileStorage', 'FileStorage.pack'),
               ('ZODB.BaseStorage', 'BaseStorage.tpc_begin'),
               ('ZODB.BaseStorage', 'BaseStorage.new_oid')]
    for mod, fn in targets:
        m = source.load_module(mod)
        f = m.funcs.get(fn)
        ok = False
        if f is not None:
            body = [s for s in f.body if not (isinstance(s, ast.Expr)
                                              and isinstance(s.value, ast.Constant))]
            if body and isinstance(body[0], ast.If):
                t = body[0].test
                if isinstance(t, ast.Attribute) and t.attr == '_is_read_only' \
                        and isinstance(body[0].body[0], ast.Raise):
                    ex = body[0].body[0].exc
                    name = ast.unparse(ex)
                    ok = 'ReadOnlyError' in name
        out.append(('read-only-refused-first:' + fn, ([], z3.BoolVal(ok))))
    return out


SPECS = [CheckSanity, Sane, SaveIndex]
INLINE = []


# ======================================================================================
class RestoreIndex(SanitySpec):
    """FileStorage._restore_index: a saved index is handed to the open ONLY after _sane accepted it against the file -
    (index, pos, tid) with exactly the loaded index and position and the tid _sane reports - and None in every other
    case (no index file, unreadable, incomplete, rejected); nothing is written (an old dict-based index would be
    converted and saved, unless read-only: that branch is outside, the loaded index here is an fsIndex)."""
    func = 'ZODB.FileStorage.FileStorage:FileStorage._restore_index'
    cases = ('writable', 'read-only')

    def setup(self, c, case=None):
        h, index = self.mk(c, read_only=(case == 'read-only'))
        c.obj(h.self).f['_file_name'] = VStr('<Data.fs>')
        c.obj(h.self).f['__name__'] = VStr('<Data.fs>')
        c.obj(index).cls = 'ZODB.fsIndex:fsIndex'
        c.obj(index).f['_data'] = c.fresh_opaque('oobtree')      # a current fsIndex: its _data is an OOBTree
        c.ghost['rx'] = {'h': h, 'index': index, 'pos': c.fresh_int('saved_pos'), 'sane': [], 'opened': []}
        return {'self': h.self}

    def hooks(self, c):
        g = lambda cc: cc.ghost['rx']

        def exists(cc, interp, args, kwargs, node):
            return VBool(z3.Bool(fresh_name('index_file_exists')))

        def load(cc, args, kwargs, node):
            i = cc.choose([True, True, True, True], 'index-file')
            if i == 0:
                raise RaiseSig(VExc('builtins:Exception'))
            pairs = []
            if i in (1, 3):
                pairs.append((VStr('index'), g(cc)['index']))
            if i in (1, 2):
                pairs.append((VStr('pos'), g(cc)['pos']))
            g(cc)['complete'] = (i == 1)
            return cc.new_obj('pydict', meta={'pairs': pairs})

        def sane(cc, args, kwargs, node):
            g(cc)['sane'].append(tuple(args[1:]))
            if cc.choose([True, True], '_sane') == 1:
                return VInt(z3.IntVal(0))
            t = cc.fresh_bytes(8, 'sane_tid')
            g(cc)['tid'] = t
            return t

        def open_(cc, args, kwargs, node):
            g(cc)['opened'].append(tuple(args))
            raise Unsupported('open() in _restore_index', node)

        def isinst(cc, interp, args, kwargs, node):
            return None
        return {'opaque_isinstance': lambda cc, v, clsname: False if v.tag == 'oobtree' else None,
                'prim:os.path.exists': exists, 'call:ZODB.fsIndex:fsIndex.load': load,
                'call:ZODB.FileStorage.FileStorage:FileStorage._sane': sane, 'open': open_}

    def modifies(self, c, E):
        return set()

    def outcomes(self, c, E):
        g = c.ghost['rx']

        def post(cc, E, r):
            if isinstance(r, VNone):
                return [('None-only-without-an-accepted-index', 'tid' not in g)]
            ok = isinstance(r, VTuple) and len(r.items) == 3
            out = [('returns-(index, pos, tid)', ok)]
            if ok:
                called = 'tid' in g and len(g['sane']) == 1 and len(g['sane'][0]) == 2 and \
                    isinstance(g['sane'][0][0], VRef) and g['sane'][0][0].id == g['index'].id and \
                    isinstance(g['sane'][0][1], VInt)
                out += [('only-after-_sane-accepted-exactly-this-index-and-position',
                         (g['sane'][0][1].t == g['pos'].t) if called else False),
                        ('the-loaded-index', isinstance(r.items[0], VRef) and r.items[0].id == g['index'].id),
                        ('the-saved-position', (r.items[1].t == g['pos'].t) if isinstance(r.items[1], VInt) else False),
                        ('the-tid-_sane-reports', r.items[2] is g.get('tid'))]
            out.append(('nothing-written', not g['opened']))
            return out
        return [Outcome('answer', post=post, result=lambda cc, E: NONE)]


SPECS.append(RestoreIndex)
