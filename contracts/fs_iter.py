"""C17 / C04 - FileIterator._scan_forward / _scan_backward: where an iteration with a start tid begins.
Stated from the property ("iterator ranges"): after the scan the iterator stands at the FIRST transaction whose tid is
>= start - every transaction before it has a smaller tid, so nothing of the range is skipped and nothing before the
range is delivered (an incremental copy that resumes at `last copied tid + 1` neither loses nor repeats one).

Ghost: the data file is tiled by transactions - isB(b) marks a transaction boundary; a boundary b < eof has a length
field tl(b) >= 23, its redundant copy at b + tl(b), and is followed by the boundary b + tl(b) + 8; read backwards, the
eight bytes before a boundary nb > 4 are the length of the transaction that ends there; tids grow strictly along the
tiling (what tpc_begin guarantees: C04).  These are the representation-invariant clauses of the committed file
(fs_open proves read_index establishes them on open)."""
import z3

from pyvc import contract, prims, timestamp
from pyvc.contract import LoopSpec, Outcome, Spec
from pyvc.engine import ContractStale, bytes_num
from pyvc.ground import All
from pyvc.values import (B, I, NONE, Obj, VBool, VBytes, VInt, VNone, VOpaque, VRef, VStr, VTuple, fresh_name)

from . import fsmodel as M
from .common import inst
from .fs_format import b8_eq_num, field_eq

FI = 'ZODB.FileStorage.FileStorage:FileIterator'
be = M.be


class ScanSpec(Spec):
    props = ('C17', 'C04')
    direction = None

    def setup(self, c, case=None):
        f = prims.new_file(c, '_file')
        fo = c.obj(f).f
        arr = fo['arr']
        isB = z3.Array(fresh_name('isB'), I, B)
        c.roles.array(isB, 'bpos')
        me = inst(c, FI, _file=f, _pos=c.fresh_int('_pos'), _file_name=VStr('Data.fs'),
                  _file_size=VInt(fo['size']))
        pos = c.fresh_int('pos')
        start = c.fresh_bytes(8, 'start')
        c.roles.seed('bpos', pos.t)
        c.roles.seed('bpos', z3.IntVal(4))
        c.ghost['it'] = {'me': me, 'f': f, 'arr': arr, 'isB': isB, 'eof': fo['size'], 'pos0': pos.t,
                         'start': bytes_num(c, start)}
        return {'self': me, 'pos': pos, 'start': start}

    # ---- the tiling
    def tiling(self, c):
        g = c.ghost['it']
        arr, isB, eof = g['arr'], g['isB'], g['eof']
        sel = z3.Select
        TL = lambda b: be(arr, b + 8, 8)
        TID = lambda b: be(arr, b, 8)
        bytes_ok = All(['bpos'], lambda b: z3.Implies(
            z3.And(sel(isB, b), b >= 4, b < eof),
            z3.And(*[z3.And(sel(arr, b + k) >= 0, sel(arr, b + k) < 256) for k in range(17)])))

        def fwd(b):
            nb = b + TL(b) + 8
            return z3.Implies(z3.And(sel(isB, b), b >= 4, b < eof), z3.And(
                eof - b >= 23 + 8, TL(b) >= 23, nb <= eof, sel(isB, nb), be(arr, b + TL(b), 8) == TL(b),
                sel(arr, b + 16) >= 0, sel(arr, b + 16) < 128))

        def bwd(nb):
            l_ = be(arr, nb - 8, 8)
            b = nb - 8 - l_
            return z3.Implies(z3.And(sel(isB, nb), nb > 4, nb <= eof), z3.And(
                l_ >= 23, b >= 4, sel(isB, b), TL(b) == l_,
                *[z3.And(sel(arr, nb - 8 + k) >= 0, sel(arr, nb - 8 + k) < 256) for k in range(8)]))
        mono = All(['bpos', 'bpos'], lambda b1, b2: z3.Implies(
            z3.And(sel(isB, b1), sel(isB, b2), b1 >= 4, b1 < b2, b2 < eof), TID(b1) < TID(b2)))
        apart = All(['bpos', 'bpos'], lambda b1, b2: z3.Implies(
            z3.And(sel(isB, b1), sel(isB, b2), b1 >= 4, b1 < b2, b1 < eof), b2 >= b1 + TL(b1) + 8))
        return [('TILING.header-bytes', bytes_ok),
                ('TILING.no-boundary-inside-a-transaction', apart),
                ('TILING.forward', All(['bpos'], fwd)),
                ('TILING.backward', All(['bpos'], bwd)),
                ('TILING.tids-grow', mono),
                ('TILING.starts-at-4', z3.And(sel(isB, 4), eof >= 4, sel(isB, eof)))]

    def modifies(self, c, E):
        g = c.ghost['it']
        return {(g['f'].id, 'pos'), (g['me'].id, '_pos')}

    def first_at_or_after(self, c, p):
        """p is the first transaction with tid >= start (or the end of the file)"""
        g = c.ghost['it']
        arr, isB, eof, start = g['arr'], g['isB'], g['eof'], g['start']
        sel = z3.Select
        TID = lambda b: be(arr, b, 8)
        return [('stands-on-a-transaction-boundary', z3.And(sel(isB, p), p >= 4, p <= eof)),
                ('that-transaction-is-in-the-range', z3.Implies(p < eof, TID(p) >= start)),
                ('no-earlier-transaction-is-in-the-range', All(['bpos'], lambda b: z3.Implies(
                    z3.And(sel(isB, b), b >= 4, b < p), TID(b) < start)))]

    def outcomes(self, c, E):
        g = c.ghost['it']

        def post(c, E, r):
            p = c.obj(g['me']).f['_pos']
            if not isinstance(p, VInt):
                return [('position-is-a-number', False)]
            c.roles.seed('bpos', p.t)
            return self.first_at_or_after(c, p.t)
        return [Outcome('found', post=post, result=lambda c, E: NONE)]


class ScanBackward(ScanSpec):
    """called by _skip_to_start with the position of the LAST transaction, whose tid is > start, while the first
    transaction's tid is < start"""
    func = FI + '._scan_backward'

    def requires(self, c, E):
        g = c.ghost['it']
        arr, isB, eof, start = g['arr'], g['isB'], g['eof'], g['start']
        pos = E['pos'].t
        return self.tiling(c) + [
            ('starts-at-a-transaction-later-than-start', z3.And(
                z3.Select(isB, pos), pos > 4, pos < eof, be(arr, pos, 8) > start)),
            ('the-first-transaction-is-earlier-than-start', be(arr, 4, 8) < start)]

    @property
    def loops(self):
        def hv(cc, fr):
            g = cc.ghost['it']
            cc.obj(g['f']).f['pos'] = z3.Int(fresh_name('fpos'))

        def inv(cc, fr):
            g = cc.ghost['it']
            p = fr.locals.get('pos')
            if not isinstance(p, VInt):
                raise ContractStale('the loop contract expects the local pos: the code has a different shape')
            cc.roles.seed('bpos', p.t)
            arr, isB, eof, start = g['arr'], g['isB'], g['eof'], g['start']
            return [('on-a-boundary-after-the-first-transaction', z3.And(
                        z3.Select(isB, p.t), p.t > 4, p.t < eof)),
                    ('every-transaction-from-here-on-is-later-than-start', All(['bpos'], lambda b: z3.Implies(
                        z3.And(z3.Select(isB, b), b >= p.t, b < eof), be(arr, b, 8) > start))),
                    ('position-attribute-untouched', cc.obj(g['me']).f['_pos'] is cc.E.old[g['me'].id]['_pos'] or
                     (isinstance(cc.obj(g['me']).f['_pos'], VInt) and
                      cc.obj(g['me']).f['_pos'].t.eq(cc.E.old[g['me'].id]['_pos'].t)))]
        none = lambda cc, fr: NONE
        return {0: LoopSpec(inv=inv, havoc=hv, decreases=lambda cc, fr: fr.locals['pos'].t,
                            kinds={'h': none, 'tlen': none})}


class ScanForward(ScanSpec):
    """called with the position of a transaction whose tid is < start (or == the first one)"""
    func = FI + '._scan_forward'

    def requires(self, c, E):
        g = c.ghost['it']
        arr, isB, eof, start = g['arr'], g['isB'], g['eof'], g['start']
        pos = E['pos'].t
        return self.tiling(c) + [
            ('starts-at-a-transaction-with-every-earlier-one-before-start', z3.And(
                z3.Select(isB, pos), pos >= 4, pos < eof)),
            ('earlier-transactions-are-before-start', All(['bpos'], lambda b: z3.Implies(
                z3.And(z3.Select(isB, b), b >= 4, b < pos), be(arr, b, 8) < start))),
            ('some-transaction-is-in-the-range (the caller saw the last tid > start)', z3.BoolVal(True))]

    @property
    def loops(self):
        def hv(cc, fr):
            g = cc.ghost['it']
            cc.obj(g['f']).f['pos'] = z3.Int(fresh_name('fpos'))

        def inv(cc, fr):
            g = cc.ghost['it']
            p = fr.locals.get('pos')
            if not isinstance(p, VInt):
                raise ContractStale('the loop contract expects the local pos: the code has a different shape')
            cc.roles.seed('bpos', p.t)
            arr, isB, eof, start = g['arr'], g['isB'], g['eof'], g['start']
            return [('on-a-boundary', z3.And(z3.Select(isB, p.t), p.t >= 4, p.t <= eof)),
                    ('every-transaction-before-here-is-earlier-than-start', All(['bpos'], lambda b: z3.Implies(
                        z3.And(z3.Select(isB, b), b >= 4, b < p.t), be(arr, b, 8) < start)))]
        none = lambda cc, fr: NONE
        return {0: LoopSpec(inv=inv, havoc=hv, decreases=lambda cc, fr: cc.ghost['it']['eof'] - fr.locals['pos'].t,
                            kinds={'h': none})}

    def outcomes(self, c, E):
        outs = ScanSpec.outcomes(self, c, E)
        g = c.ghost['it']
        arr, isB, eof, start = g['arr'], g['isB'], g['eof'], g['start']
        pos = E['pos'].t
        # running off the end surfaces as the short-read error of the header reader - ONLY when no transaction from
        # pos on is in the range (the caller, _skip_to_start, has seen the last tid > start)
        nothing = All(['bpos'], lambda b: z3.Implies(z3.And(z3.Select(isB, b), b >= pos, b < eof),
                                                     be(arr, b, 8) < start))
        return outs + [Outcome('past-the-end', 'raise', M.CorruptedDataError, guard=lambda cc, E: nothing)]


SPECS = [ScanBackward, ScanForward]
INLINE = ['ZODB.utils:u64']


# ======================================================================================
class RecordIternext(Spec):
    """FileStorage.record_iternext(next): the record of the SMALLEST oid of the index that is >= next (the smallest
    of all for None), loaded as current, together with the smallest oid after it (None when there is none): iterating
    with the returned value visits every oid of the index exactly once, in order (C19: "record iteration relies on
    smallest-key-not-below"; fsIndex.minKey itself: contracts/fsindex.py).  load_current is an assumed call."""
    func = 'ZODB.FileStorage.FileStorage:FileStorage.record_iternext'
    props = ('C19',)
    cases = ('from-the-start', 'from-an-oid')

    def setup(self, c, case=None):
        h = M.mk_fs(c, in_txn=False, with_ghost=False)
        c.ghost[('fs', h.self.id)] = h
        o = c.obj(h.index)
        o.meta['role'] = 'oid'
        c.roles.array(o.f['dom'], 'oid')
        nxt = c.fresh_bytes(8, 'next') if case == 'from-an-oid' else NONE
        c.ghost['ri'] = {'h': h, 'next': nxt}
        return {'self': h.self, 'next': nxt}

    def requires(self, c, E):
        dom = c.obj(c.ghost['ri']['h'].index).f['dom']
        # the all-ones oid (whose successor does not fit eight bytes) is never allocated: new_oid refuses to go there
        return [('OID-RANGE.no-all-ones-oid', All(['oid'], lambda t: z3.Implies(z3.Select(dom, t), t < 2 ** 64 - 1)))]

    def hooks(self, c):
        def load_current(cc, args, kwargs, node):
            cc.event('load_current', args[1])
            return VTuple([cc.fresh_opaque('data'), cc.fresh_bytes(8, 'tid')])
        return {'call:ZODB.utils:load_current': load_current}

    def modifies(self, c, E):
        return {(c.ghost['ri']['h'].file.id, 'pos')}

    def outcomes(self, c, E):
        g = c.ghost['ri']
        dom = c.obj(g['h'].index).f['dom']
        has = lambda t: z3.And(z3.Select(dom, t), t >= 0, t < 2 ** 64)
        lo = None if isinstance(g['next'], VNone) else bytes_num(c, g['next'])
        cand = (lambda t: has(t)) if lo is None else (lambda t: z3.And(has(t), t >= lo))

        def post(cc, E, r):
            if not (isinstance(r, VTuple) and len(r.items) == 4 and isinstance(r.items[0], VBytes)):
                return [('returns-(oid, tid, data, next oid)', False)]
            oid, tid, data, nx = r.items
            o = bytes_num(cc, oid)
            cc.roles.seed('oid', o)
            loads = [e for e in cc.events if e[0] == 'load_current']
            out = [('oid-is-in-the-index-and-not-below-next', cand(o)),
                   ('no-smaller-candidate-is-skipped', All(['oid'], lambda t: z3.Implies(cand(t), o <= t))),
                   ('its-current-record-is-loaded', len(loads) == 1 and isinstance(loads[0][1], VBytes) and
                    bytes_num(cc, loads[0][1]) == o)]
            if isinstance(nx, VNone):
                out.append(('next-None-only-if-no-larger-oid', All(['oid'], lambda t: z3.Implies(has(t), t <= o))))
            elif isinstance(nx, VBytes) and nx.conc_len() == 8:
                n = bytes_num(cc, nx)
                cc.roles.seed('oid', n)
                out += [('next-is-a-larger-oid-of-the-index', z3.And(has(n), n > o)),
                        ('next-is-the-least-larger-oid', All(['oid'], lambda t: z3.Implies(
                            z3.And(has(t), t > o), n <= t)))]
            else:
                out.append(('next-is-an-oid-or-None', False))
            return out
        return [Outcome('record', post=post, result=lambda cc, E: cc.fresh_opaque('record')),
                Outcome('nothing-at-or-after-next', 'raise', 'builtins:ValueError',
                        post=lambda cc, E, x: [('only-if-no-candidate', All(['oid'], lambda t: z3.Not(cand(t))))])]


SPECS.append(RecordIternext)


# ======================================================================================
class RecordIteratorNext(Spec):
    """TransactionRecordIterator.__next__ (what copyTransactionsFrom and recovery read): for a transaction whose
    records tile [pos, tend) it yields, record by record, oid and tid as stored, the DATA OF THE REVISION - the
    record's own payload, or the payload of the record its back-pointer chain ends in, or None for an un-creation -
    and as data_txn the tid of the record the back pointer names (None when the record holds its data); the cursor
    advances by exactly the record length; at tend: StopIteration.
    Record(...) is taken as storing its arguments (constructor stand-in, its __init__ uses super())."""
    func = 'ZODB.FileStorage.FileStorage:TransactionRecordIterator.__next__'
    props = ('C17',)
    assumptions = ('Record(oid, tid, data, prev, pos) stores its arguments as oid, tid, data, data_txn, pos '
                   '(constructor stand-in: super().__init__ is outside the language subset)',)

    def setup(self, c, case=None):
        from .fs_load import bend_fn
        h = M.mk_fs(c)
        fo = c.obj(h.file).f
        c.assume(z3.Not(fo['dirty']))
        rd = prims.new_file(c, 'iterator_file', arr=fo['arr'], size=fo['size'], mode='rb')
        it = inst(c, 'ZODB.FileStorage.FileStorage:TransactionRecordIterator', _file=rd, _pos=c.fresh_int('_pos'),
                  _tpos=c.fresh_int('_tpos'), _tend=c.fresh_int('_tend'))
        c.ghost[('fs', h.self.id)] = h
        c.ghost[('fs', it.id)] = h
        bend_fn(h.g, c)
        c.roles.seed('pos', c.obj(it).f['_pos'].t)
        c.ghost['rn'] = {'h': h, 'it': it, 'rd': rd, 'made': []}
        return {'self': it}

    def definitions(self, c, E):
        from .fs_load import bend_axioms, bend_fn
        h = c.ghost['rn']['h']
        bend_fn(h.g, c)
        return [bend_axioms(h.F, h.g)]

    def requires(self, c, E):
        g = c.ghost['rn']
        h = g['h']
        F, gg = h.F, h.g
        idx = c.obj(h.index).f
        S = c.obj(g['it']).f
        pos, tpos, tend = S['_pos'].t, S['_tpos'].t, S['_tend'].t
        main = c.obj(h.file).f
        rlen = 42 + z3.If(F.plen(pos) == 0, 8, F.plen(pos))
        return M.RI_chain(F, gg, idx['dom'], idx['val'], h.pos.t)[-1:] + [
            ('no-unflushed-writes', z3.Not(main['dirty'])),
            ('inside-a-committed-transaction', z3.And(tpos >= 4, tpos < pos, tend <= h.pos.t, h.pos.t <= main['size'])),
            ('records-tile-the-transaction', z3.Or(pos >= tend, z3.And(
                z3.Select(gg.vrec, pos), F.tloc(pos) == tpos, pos + rlen <= tend))),
            # RI: a back pointer names an earlier record OF THE SAME OBJECT (undo and pack write nothing else)
            ('back-pointer-names-a-record-of-the-same-object', z3.Implies(
                z3.And(pos < tend, F.plen(pos) == 0, F.back(pos) != 0), F.oid(F.back(pos)) == F.oid(pos)))]

    def hooks(self, c):
        def record(cc, interp, args, kwargs, node):
            r = inst(cc, 'ZODB.FileStorage.FileStorage:Record', oid=args[0], tid=args[1], data=args[2],
                     data_txn=args[3], pos=args[4])
            cc.ghost['rn']['made'].append(r)
            return r
        return {'construct:ZODB.FileStorage.FileStorage:Record': record}

    @property
    def loops(self):
        def inv(cc, fr):
            p = fr.locals.get('pos')
            if not isinstance(p, VInt):
                raise ContractStale('the loop contract expects the local pos: the code has a different shape')
            S = cc.obj(cc.ghost['rn']['it']).f
            old = cc.E.old[cc.ghost['rn']['it'].id]
            return [('every-iteration-leaves-the-loop (cursor still at the entry position)',
                     z3.And(p.t == old['_pos'].t, S['_pos'].t == old['_pos'].t))]

        def hv(cc, fr):
            cc.obj(cc.ghost['rn']['rd']).f['pos'] = z3.Int(fresh_name('fpos'))
        none = lambda cc, fr: NONE
        return {0: LoopSpec(inv=inv, havoc=hv, kinds={'h': none, 'data': none, 'prev_txn': none, 'tid': none})}

    def modifies(self, c, E):
        g = c.ghost['rn']
        return {(g['rd'].id, 'pos'), (g['it'].id, '_pos')}

    def outcomes(self, c, E):
        from .fs_load import data_is
        g = c.ghost['rn']
        h = g['h']
        F, gg = h.F, h.g
        S = c.obj(g['it']).f
        pos, tend = S['_pos'].t, S['_tend'].t
        rlen = 42 + z3.If(F.plen(pos) == 0, 8, F.plen(pos))
        back = F.back(pos)
        d = z3.Select(gg.drec, pos)

        def post(cc, E, r):
            ok = isinstance(r, VRef) and len(g['made']) == 1 and r.id == g['made'][0].id
            if not ok:
                return [('returns-one-new-record', False)]
            f = cc.obj(r).f
            data, dt = f['data'], f['data_txn']
            out = [('oid-as-stored', b8_eq_num(cc, f['oid'], F.oid(pos))),
                   ('tid-as-stored', b8_eq_num(cc, f['tid'], F.tid(pos))),
                   ('position-reported', field_eq(cc, f['pos'], pos)),
                   ('cursor-advanced-by-the-record-length', cc.obj(g['it']).f['_pos'].t == pos + rlen)]
            if isinstance(data, VNone):
                out.append(('None-only-for-a-revision-without-data (un-creation)', d == 0))
            else:
                out.append(('data-of-the-revision (own payload or the end of the back-pointer chain)',
                            z3.And(d != 0, data_is(cc, data, F, d)) if isinstance(data, VBytes) else False))
            if isinstance(dt, VNone):
                out.append(('no-hint-only-if-the-record-holds-its-data-or-is-an-un-creation',
                            z3.Or(F.plen(pos) != 0, back == 0)))
            else:
                out.append(('hint-is-the-tid-of-the-record-the-back-pointer-names', z3.And(
                    F.plen(pos) == 0, back != 0, b8_eq_num(cc, dt, F.tid(back)))))
            return out
        return [Outcome('record', guard=pos < tend, post=post, result=lambda cc, E: cc.fresh_opaque('record')),
                Outcome('exhausted', 'raise', 'builtins:StopIteration', guard=pos >= tend,
                        post=lambda cc, E, x: [('cursor-untouched', cc.obj(g['it']).f['_pos'].t == pos)])]


SPECS.append(RecordIteratorNext)
INLINE += ['ZODB.FileStorage.format:FileStorageFormatter._loadBackTxn',
           'ZODB.FileStorage.format:FileStorageFormatter.getTxnFromData',
           'ZODB.FileStorage.format:DataHeader.recordlen']


# ======================================================================================
UNDO_ID = z3.Function('undo_id_of_tid', I, z3.DeclareSort('UndoId') if False else I)


class UndoSearchReadnext(Spec):
    """UndoSearch._readnext (one step of undoLog/undoInfo, walking the file backwards): the search moves to the
    transaction that ENDS at its position; a packed transaction (status 'p') stops the search - nothing at or before
    the pack boundary is offered for undo (C06: "only not-yet-packed transactions are undoable"); a transaction whose
    status is not ' ' is skipped; otherwise the description names THIS transaction: id derived from its tid, and its
    length (user/description/extension bytes: bounded harness).  base64 / unpickling are uninterpreted."""
    func = 'ZODB.FileStorage.FileStorage:UndoSearch._readnext'
    props = ('C06',)

    def setup(self, c, case=None):
        f = prims.new_file(c, '_file')
        fo = c.obj(f).f
        isB = z3.Array(fresh_name('isB'), I, B)
        c.roles.array(isB, 'bpos')
        pos = c.fresh_int('pos')
        me = inst(c, 'ZODB.FileStorage.FileStorage:UndoSearch', file=f, pos=pos, first=c.fresh_int('first'),
                  last=c.fresh_int('last'), filter=NONE, i=c.fresh_int('i'), stop=VBool(False),
                  results=c.new_obj('list', meta={'items': []}))
        c.roles.seed('bpos', pos.t)
        c.ghost['it'] = {'me': me, 'f': f, 'arr': fo['arr'], 'isB': isB, 'eof': fo['size'], 'pos0': pos.t,
                         'start': z3.IntVal(0)}
        return {'self': me}

    def requires(self, c, E):
        g = c.ghost['it']
        pos = g['pos0']
        return ScanSpec.tiling(self, c) + [('stands-at-the-end-of-a-transaction', z3.And(
            z3.Select(g['isB'], pos), pos > 4, pos <= g['eof']))]

    def hooks(self, c):
        def encode(cc, interp, args, kwargs, node):
            cc.event('id-of', args[0])
            return cc.fresh_opaque('undo_id')

        def ometh(cc, v, name, args, kwargs, node):
            if v.tag == 'undo_id' and name == 'rstrip':
                return v
            return None

        def loads(cc, args, kwargs, node):
            return cc.new_obj('pydict', meta={'pairs': []})
        hk = {'prim:base64.encodebytes': encode, 'opaque_method': ometh, 'call:ZODB._compat:loads': loads,
              'prim:ZODB._compat.loads': lambda cc, interp, a, k, n: cc.new_obj('pydict', meta={'pairs': []})}
        timestamp.install(hk)
        return hk

    def modifies(self, c, E):
        g = c.ghost['it']
        return {(g['f'].id, 'pos'), (g['me'].id, 'pos'), (g['me'].id, 'stop')}

    def outcomes(self, c, E):
        g = c.ghost['it']
        arr, pos = g['arr'], g['pos0']
        l_ = be(arr, pos - 8, 8)
        b = pos - 8 - l_
        t = M.txn(arr, b)
        st = t['status']

        def common(cc):
            S = cc.obj(g['me']).f
            return [('moved-to-the-transaction-that-ended-here', isinstance(S['pos'], VInt) and S['pos'].t == b)]

        def post(cc, E, r):
            S = cc.obj(g['me']).f
            out = common(cc)
            stopped = not (isinstance(S['stop'], VBool) and S['stop'].t is not None and
                           z3.is_false(z3.simplify(as_bool(S['stop']))))
            if isinstance(r, VNone):
                out.append(('None-only-for-a-transaction-that-is-not-undoable', st != 32))
                out.append(('search-stopped-iff-the-transaction-is-packed',
                            z3.BoolVal(stopped) == (st == ord('p'))))
                return out
            ok = isinstance(r, VRef) and cc.obj(r).kind == 'pydict'
            out.append(('describes-an-undoable-transaction', st == 32 if ok else False))
            out.append(('search-goes-on', not stopped))
            if ok:
                d = dict((k.s, v) for k, v in cc.obj(r).meta['pairs'] if isinstance(k, VStr))
                ids = [e for e in cc.events if e[0] == 'id-of']
                out += [('id-derived-from-this-transactions-tid', len(ids) == 1 and isinstance(ids[0][1], VBytes) and
                         bytes_num(cc, ids[0][1]) == t['tid'] and isinstance(d.get('id'), VOpaque)),
                        ('size-is-the-transaction-length', field_eq(cc, d.get('size'), t['tl']))]
            return out
        return [Outcome('answer', post=post, result=lambda cc, E: cc.fresh_opaque('answer'))]


def as_bool(v):
    from pyvc.engine import as_z3_bool
    return as_z3_bool(v.t)


def slice_or_empty(c, v, arr, off, ln):
    from .fs_format import slice_is
    if isinstance(v, VBytes) and v.conc_len() == 0:
        return ln == 0
    return slice_is(c, v, arr, off, ln)


SPECS.append(UndoSearchReadnext)


# ======================================================================================
class FileIteratorNext(ScanSpec):
    """FileIterator.__next__ (storage.iterator(start, stop) after the start scan): standing on a transaction boundary
    of the tiling it yields THAT transaction - its tid, status, user, description and extension as stored, the record
    range [pos + header length, pos + tl) and its position - and moves to the next boundary; it ends (closes and raises
    StopIteration) exactly at the end of the file, at the first transaction later than `stop` (stop is INCLUSIVE) or
    at a transaction still flagged as a checkpoint (voted, not finished).
    TransactionRecord(...) is taken as storing its arguments (constructor stand-in)."""
    func = FI + '.__next__'
    props = ('C17',)
    cases = ('no-stop', 'stop')
    assumptions = ('TransactionRecord(tid, status, user, desc, ext, pos, tend, file, tpos) stores its arguments '
                   '(constructor stand-in)', 'no old-style undone transaction (status u) in the file')

    def setup(self, c, case=None):
        a = ScanSpec.setup(self, c, case)
        g = c.ghost['it']
        S = c.obj(g['me']).f
        S['_pos'] = a['pos']
        S['_ltid'] = c.fresh_bytes(8, '_ltid')
        S['_stop'] = c.fresh_bytes(8, 'stop') if case == 'stop' else NONE
        c.obj(g['f']).meta['name'] = 'Data.fs'
        g['made'] = []
        return {'self': g['me']}

    def requires(self, c, E):
        g = c.ghost['it']
        arr, isB, eof = g['arr'], g['isB'], g['eof']
        pos = g['pos0']
        t = M.txn(arr, pos)
        return self.tiling(c) + [
            ('stands-on-a-transaction-boundary', z3.And(z3.Select(isB, pos), pos >= 4, pos <= eof)),
            ('header-fits-the-transaction-and-status-is-one-of-the-format', z3.Implies(pos < eof, z3.And(
                23 + t['ul'] + t['dl'] + t['el'] <= t['tl'], t['ul'] >= 0, t['dl'] >= 0, t['el'] >= 0,
                z3.Or(t['status'] == 32, t['status'] == ord('p'), t['status'] == ord('c')))))]

    def hooks(self, c):
        def trec(cc, interp, args, kwargs, node):
            names = ('tid', 'status', 'user', 'description', 'extension_bytes', '_pos', '_tend', '_file', '_tpos')
            r = inst(cc, 'ZODB.FileStorage.FileStorage:TransactionRecord', **dict(zip(names, args)))
            cc.ghost['it']['made'].append(r)
            return r

        def close(cc, args, kwargs, node):
            cc.event('closed')
            cc.obj(args[0]).f['_file'] = NONE
            return NONE
        return {'construct:ZODB.FileStorage.FileStorage:TransactionRecord': trec, 'call:' + FI + '.close': close}

    @property
    def loops(self):
        def inv(cc, fr):
            p = fr.locals.get('pos')
            if not isinstance(p, VInt):
                raise ContractStale('the loop contract expects the local pos: the code has a different shape')
            g = cc.ghost['it']
            old = cc.E.old[g['me'].id]
            S = cc.obj(g['me']).f
            return [('every-iteration-leaves-the-loop (still at the entry position)', z3.And(
                p.t == g['pos0'], S['_pos'].t == g['pos0'], contract.same_value(cc, S['_ltid'], old['_ltid'])))]

        def hv(cc, fr):
            cc.obj(cc.ghost['it']['f']).f['pos'] = z3.Int(fresh_name('fpos'))
        none = lambda cc, fr: NONE
        return {0: LoopSpec(inv=inv, havoc=hv, kinds={'h': none, 'result': none, 'err': none})}

    def modifies(self, c, E):
        g = c.ghost['it']
        return {(g['f'].id, 'pos'), (g['me'].id, '_pos'), (g['me'].id, '_ltid'), (g['me'].id, '_file')}

    def outcomes(self, c, E):
        from .fs_format import slice_is
        g = c.ghost['it']
        arr, eof, pos = g['arr'], g['eof'], g['pos0']
        S0 = c.obj(g['me']).f
        t = M.txn(arr, pos)
        stop = S0['_stop']
        past_stop = z3.BoolVal(False) if isinstance(stop, VNone) else t['tid'] > bytes_num(c, stop)
        ends = z3.Or(pos >= eof, past_stop, t['status'] == ord('c'))
        hl = 23 + t['ul'] + t['dl'] + t['el']

        def post(cc, E, r):
            ok = isinstance(r, VRef) and len(g['made']) == 1 and r.id == g['made'][0].id
            if not ok:
                return [('returns-one-new-transaction-record', False)]
            f = cc.obj(r).f
            S = cc.obj(g['me']).f
            st = f.get('status')
            return [('tid-as-stored', b8_eq_num(cc, f.get('tid'), t['tid'])),
                    ('status-as-stored', isinstance(st, VStr) and st.code_terms() is not None and
                     len(st.code_terms()) == 1 and st.code_terms()[0] == t['status']),
                    ('user-as-stored', slice_is(cc, f.get('user'), arr, pos + 23, t['ul'])),
                    ('description-as-stored', slice_is(cc, f.get('description'), arr, pos + 23 + t['ul'], t['dl'])),
                    ('extension-as-stored', slice_is(cc, f.get('extension_bytes'), arr, pos + 23 + t['ul'] + t['dl'],
                                                     t['el'])),
                    ('records-from-the-end-of-the-header', field_eq(cc, f.get('_pos'), pos + hl)),
                    ('records-up-to-the-end-of-the-transaction', field_eq(cc, f.get('_tend'), pos + t['tl'])),
                    ('its-position', field_eq(cc, f.get('_tpos'), pos)),
                    ('reads-the-same-file', isinstance(f.get('_file'), VRef) and f['_file'].id == g['f'].id),
                    ('moved-to-the-next-boundary', S['_pos'].t == pos + t['tl'] + 8),
                    ('last-tid-remembered', b8_eq_num(cc, S['_ltid'], t['tid']))]

        def ended(cc, E, x):
            return [('closed', any(e[0] == 'closed' for e in cc.events))]
        return [Outcome('transaction', guard=z3.Not(ends), post=post, result=lambda cc, E: cc.fresh_opaque('txn')),
                Outcome('end', 'raise', 'builtins:StopIteration', guard=ends, post=ended)]


SPECS.append(FileIteratorNext)
INLINE += ['ZODB.FileStorage.format:TxnHeader.headerlen']


# ======================================================================================
class SkipToStart(ScanSpec):
    """FileIterator._skip_to_start(start) (run by the constructor when a start tid is given, from position 4): whatever
    the relation of start to the first and the last tid, and WHICHEVER direction the time-distance heuristic picks
    (the two time differences are arbitrary numbers here), the iterator ends up at the first transaction with
    tid >= start - at the end of the file if there is none.  The scans are used through their contracts above."""
    func = FI + '._skip_to_start'
    props = ('C17',)
    assumptions = tuple(timestamp.ASSUMPTIONS) + (
        'TimeStamp(tid).timeTime() is an arbitrary number (only the choice of the scan direction depends on it)',)

    def setup(self, c, case=None):
        a = ScanSpec.setup(self, c, case)
        g = c.ghost['it']
        S = c.obj(g['me']).f
        S['_pos'] = VInt(z3.IntVal(4))
        g['pos0'] = z3.IntVal(4)
        return {'self': g['me'], 'start': a['start']}

    def requires(self, c, E):
        g = c.ghost['it']
        return self.tiling(c) + [('at-least-one-transaction', g['eof'] > 4),
                                 ('file-size-attribute-is-the-size', c.obj(g['me']).f['_file_size'].t == g['eof'])]

    def hooks(self, c):
        def binop(cc, op, a, b, node):
            if isinstance(a, VOpaque) and a.tag == 'float' and isinstance(b, VOpaque) and b.tag == 'float':
                return VOpaque(z3.Const(fresh_name('float'), Obj), 'float')
            return None

        def compare(cc, op, a, b, node):
            if isinstance(a, VOpaque) and a.tag == 'float' and isinstance(b, VOpaque) and b.tag == 'float':
                return z3.Bool(fresh_name('nearer_to_the_start'))
            return None
        hk = {'binop': binop, 'compare': compare}
        timestamp.install(hk)
        return hk

    def modifies(self, c, E):
        g = c.ghost['it']
        return {(g['f'].id, 'pos'), (g['me'].id, '_pos')}

    def outcomes(self, c, E):
        outs = ScanSpec.outcomes(self, c, E)
        return outs


SPECS.append(SkipToStart)
INLINE += ['ZODB.FileStorage.format:FileStorageFormatter._read_num']
