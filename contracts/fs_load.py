"""C04 read path of FileStorage: load / loadSerial / loadBefore / getTid / _loadBack_impl,
specified over the ghost chain structure of the representation invariant (fsmodel.RI_chain).

The postconditions are phrased with chain positions (rank); lemma_extremal() proves once that,
because tids strictly decrease along a chain, "first record below t along the chain" is the
revision with the greatest tid < t and its chain successor the one with the least tid >= t -
the wording of the property."""
import z3

from pyvc import contract, prims
from pyvc.contract import LoopSpec, Outcome, Spec
from pyvc.engine import as_z3_bool, be_num, bytes_elems, bytes_eq, bytes_num
from pyvc.ground import All, Ex, FAnd, FOr, FNot
from pyvc.values import (B, I, NONE, VBool, VBytes, VExc, VInt, VNone, VOpaque, VRef, VStr,
                         VTuple, fresh_name)

from . import fsmodel as M
from .common import KeyError_, OSError_, POSKeyError, TypeError_, ValueError_, inst
from .fs_format import b8_eq_num, field_eq, sel_bytes, slice_is
from .fsmodel import be, rec, txn


def ghost_of(c, selfv):
    return c.ghost[('fs', selfv.id)]


class LoadSpec(Spec):
    """common setup: an open FileStorage satisfying RI, query oid"""
    props = ('C04',)
    assumptions = (M.POOL_ASSUMPTION,)

    def setup(self, c, case=None):
        h = M.mk_fs(c, in_txn=None)
        c.ghost[('fs', h.self.id)] = h
        c.assume(z3.Not(c.obj(h.pool).f['stale']))
        c.assume(z3.Not(c.obj(h.file).f['dirty']))
        return {'self': h.self, 'oid': c.fresh_bytes(8, 'oid')}

    def requires(self, c, E):
        h = ghost_of(c, E['self'])
        idx = c.obj(h.index).f
        return M.RI_chain(h.F, h.g, idx['dom'], idx['val'], h.pos.t) + [
            ('readers-see-the-committed-image', z3.And(z3.Not(c.obj(h.pool).f['stale']),
                                                       z3.Not(c.obj(h.file).f['dirty'])))]

    def definitions(self, c, E):
        h = ghost_of(c, E['self'])
        bend_fn(h.g, c)
        return [bend_axioms(h.F, h.g)]

    def modifies(self, c, E):
        h = ghost_of(c, E['self'])
        return {(h.file.id, 'pos')}

    def base(self, c, E):
        h = ghost_of(c, E['self'])
        idx = c.obj(h.index).f
        o = bytes_num(c, E['oid'])
        has = z3.Select(idx['dom'], o)
        p = z3.Select(idx['val'], o)
        return h, o, has, p


def data_is(c, v, F, d):
    """v is the payload of record d: F.arr[d+42 : d+42+plen(d)]"""
    return slice_is(c, v, F.arr, d + 42, F.plen(d))


def data_val(F, d):
    return VBytes([('a', F.arr, d + 42, F.plen(d))])


# ======================================================================================
class LoadBackImpl(Spec):
    func = 'ZODB.FileStorage.format:FileStorageFormatter._loadBack_impl'
    props = ('C04', 'C06')
    cases = ('self-file', 'given-file')

    def setup(self, c, case=None):
        h = M.mk_fs(c)
        c.ghost[('fs', h.self.id)] = h
        c.assume(z3.Not(c.obj(h.file).f['dirty']))
        a = {'self': h.self, 'oid': c.fresh_bytes(8, 'oid'), 'back': c.fresh_int('back'),
             'fail': c.fresh_bool('fail')}
        if case == 'given-file':
            fo = c.obj(h.file).f
            a['_file'] = prims.new_file(c, 'reader', arr=fo['arr'], size=fo['size'], mode='rb')
        else:
            a['_file'] = NONE
        return a

    def the_file(self, c, E):
        fv = E['_file']
        return c.obj(E['self']).f['_file'] if isinstance(fv, VNone) else fv

    def definitions(self, c, E):
        h = ghost_of(c, E['self'])
        bend_fn(h.g, c)
        return [bend_axioms(h.F, h.g)]

    def requires(self, c, E):
        h = ghost_of(c, E['self'])
        idx = c.obj(h.index).f
        fo = c.obj(self.the_file(c, E)).f
        main = c.obj(h.file).f
        back = E['back'].t
        return M.RI_chain(h.F, h.g, idx['dom'], idx['val'], h.pos.t)[-1:] + [
            ('file-is-committed-image', z3.And(fo['arr'] == main['arr'], fo['size'] == main['size'])),
            ('no-unflushed-writes', z3.Not(main['dirty'])),
            ('back-is-record-or-zero', z3.Or(back == 0, z3.Select(h.g.vrec, back)))]

    def modifies(self, c, E):
        return {(self.the_file(c, E).id, 'pos')}

    def outcomes(self, c, E):
        h = ghost_of(c, E['self'])
        F, g = h.F, h.g
        back = E['back'].t
        fail = E['fail'].t if isinstance(E['fail'], VBool) else z3.BoolVal(True)
        d = z3.Select(g.drec, back)
        e = bend(F, g, back)

        def mk_found(c, E):
            return VTuple([data_val(F, d), sel_bytes(F.arr, d + 8, 8), VInt(d), VInt(F.tloc(d))])

        def post_found(c, E, r):
            if not isinstance(r, VTuple) or len(r.items) != 4:
                return [('4-tuple', False)]
            return [('data', data_is(c, r.items[0], F, d)),
                    ('tid', b8_eq_num(c, r.items[1], F.tid(d))),
                    ('pos', field_eq(c, r.items[2], d)),
                    ('tloc', field_eq(c, r.items[3], F.tloc(d)))]

        def mk_none(c, E):
            ee = c.fresh_int('chain_end')
            c.assume(is_bend(F, g, back, ee.t))
            return VTuple([NONE, sel_bytes(F.arr, ee.t + 8, 8), ee, VInt(F.tloc(ee.t))])

        def post_none(c, E, r):
            if not isinstance(r, VTuple) or len(r.items) != 4:
                return [('4-tuple', False)]
            ee = r.items[2]
            if not isinstance(ee, VInt):
                return [('pos-int', False)]
            return [('no-data', isinstance(r.items[0], VNone)),
                    ('end-of-back-chain', is_bend(F, g, back, ee.t)),
                    ('tid', b8_eq_num(c, r.items[1], F.tid(ee.t))),
                    ('tloc', field_eq(c, r.items[3], F.tloc(ee.t)))]
        return [
            Outcome('zero', 'raise', POSKeyError, guard=back == 0),
            Outcome('found', guard=z3.And(back != 0, d != 0), result=mk_found, post=post_found),
            Outcome('uncreated-fail', 'raise', POSKeyError,
                    guard=z3.And(back != 0, d == 0, fail)),
            Outcome('uncreated-nofail', guard=z3.And(back != 0, d == 0, z3.Not(fail)),
                    result=mk_none, post=post_none),
        ]

    def _inv(self, c, fr):
        E = c.E
        h = ghost_of(c, E['self'])
        F, g = h.F, h.g
        b0 = E['back'].t
        b = fr.locals['back'].t
        fail = E['fail'].t
        return [
            ('record-or-zero', z3.Or(b == 0, z3.Select(g.vrec, b))),
            ('same-data-record', z3.Implies(b != 0, z3.Select(g.drec, b) == z3.Select(g.drec, b0))),
            ('zero-only-if-uncreated', z3.Implies(
                b == 0, z3.Or(b0 == 0, z3.And(z3.Select(g.drec, b0) == 0, fail)))),
            ('bounded', z3.And(b >= 0, b <= b0)),
            ('same-chain-end', z3.Implies(b != 0, same_bend(F, g, b, b0))),
        ]

    @property
    def loops(self):
        return {0: LoopSpec(inv=self._inv, decreases=lambda c, fr: fr.locals['back'].t,
                            havoc=self._havoc,
                            kinds={'h': lambda c, fr: NONE})}

    def _havoc(self, c, fr):
        fo = c.obj(self.the_file(c, c.E)).f
        fo['pos'] = z3.Int(fresh_name('fpos'))


# ghost "end of back chain": we avoid another recursive array by stating it relationally
_BEND = {}


def bend_fn(g, c=None):
    k = g.drec.get_id()
    if k not in _BEND:
        _BEND[k] = z3.Function(fresh_name('bend'), I, I)
    if c is not None:
        c.roles.func(_BEND[k], ['pos'])
    return _BEND[k]


def bend(F, g, p):
    return bend_fn(g)(p)


def is_bend(F, g, start, e):
    """e is the last record of the back-pointer chain that starts at `start`"""
    return z3.And(bend_fn(g)(start) == e, z3.Select(g.vrec, e), F.plen(e) == 0, F.back(e) == 0)


def same_bend(F, g, a, b):
    return bend_fn(g)(a) == bend_fn(g)(b)


def bend_axioms(F, g):
    """definition of bend (well-founded recursion on back < p): assumed with valid-records"""
    bf = bend_fn(g)
    return All(['pos'], lambda p: z3.Implies(
        z3.Select(g.vrec, p),
        bf(p) == z3.If(z3.And(F.plen(p) == 0, F.back(p) != 0), bf(F.back(p)), p)))


# ======================================================================================
class Load(LoadSpec):
    func = 'ZODB.FileStorage.FileStorage:FileStorage.load'

    def setup(self, c, case=None):
        a = LoadSpec.setup(self, c, case)
        a['version'] = VStr('')
        return a

    def modifies(self, c, E):
        return set()

    def outcomes(self, c, E):
        h, o, has, p = self.base(c, E)
        F, g = h.F, h.g
        d = z3.Select(g.drec, p)

        def mk(c, E):
            return VTuple([data_val(F, d), sel_bytes(F.arr, p + 8, 8)])

        def post(c, E, r):
            if not isinstance(r, VTuple) or len(r.items) != 2:
                return [('pair', False)]
            return [('data-of-current-revision', data_is(c, r.items[0], F, d)),
                    ('serial-of-current-revision', b8_eq_num(c, r.items[1], F.tid(p)))]
        return [Outcome('unknown-oid', 'raise', POSKeyError, guard=z3.Not(has)),
                Outcome('uncreated', 'raise', POSKeyError, guard=z3.And(has, d == 0)),
                Outcome('ok', guard=z3.And(has, d != 0), result=mk, post=post)]


class GetTid(LoadSpec):
    func = 'ZODB.FileStorage.FileStorage:FileStorage.getTid'

    def outcomes(self, c, E):
        h, o, has, p = self.base(c, E)
        F = h.F
        gone = z3.And(F.plen(p) == 0, F.back(p) == 0)
        return [Outcome('unknown-oid', 'raise', POSKeyError, guard=z3.Not(has)),
                Outcome('uncreated', 'raise', POSKeyError, guard=z3.And(has, gone)),
                Outcome('ok', guard=z3.And(has, z3.Not(gone)),
                        result=lambda c, E: sel_bytes(F.arr, p + 8, 8),
                        post=lambda c, E, r: [('tid-of-current-record', b8_eq_num(c, r, F.tid(p)))])]


class LoadSerial(LoadSpec):
    func = 'ZODB.FileStorage.FileStorage:FileStorage.loadSerial'

    def setup(self, c, case=None):
        a = LoadSpec.setup(self, c, case)
        a['serial'] = c.fresh_bytes(8, 'serial')
        return a

    def outcomes(self, c, E):
        h, o, has, p = self.base(c, E)
        F, g = h.F, h.g
        s = bytes_num(c, E['serial'])
        rev = lambda w: z3.And(g.inchain(o, w), F.tid(w) == s)
        exists = Ex(['pos'], rev)
        gone = Ex(['pos'], lambda q: z3.And(rev(q), z3.Select(g.drec, q) == 0))
        live = Ex(['pos'], lambda q: z3.And(rev(q), z3.Select(g.drec, q) != 0))

        def mk(c, E):
            r = c.fresh_int('rev')
            c.assume(z3.And(rev(r.t), z3.Select(g.drec, r.t) != 0))
            return data_val(F, z3.Select(g.drec, r.t))

        def post(c, E, r):
            return [('data-of-the-revision-with-that-serial', Ex(['pos'], lambda w: z3.And(
                rev(w), as_z3_bool(data_is(c, r, F, z3.Select(g.drec, w))))))]
        return [Outcome('unknown-oid', 'raise', POSKeyError, guard=z3.Not(has)),
                Outcome('no-such-revision', 'raise', POSKeyError,
                        guard=FAnd(has, FNot(exists))),
                Outcome('uncreated-revision', 'raise', POSKeyError, guard=FAnd(has, gone)),
                Outcome('ok', guard=FAnd(has, live), result=mk, post=post)]

    def _inv(self, c, fr):
        E = c.E
        h, o, has, p = self.base(c, E)
        F, g = h.F, h.g
        s = bytes_num(c, E['serial'])
        pos = fr.locals['pos'].t
        return [('pos-in-chain', g.inchain(o, pos)),
                ('newer-revisions-are-later', All(['pos'], lambda q: z3.Implies(
                    z3.And(g.inchain(o, q), z3.Select(g.rank, q) < z3.Select(g.rank, pos)),
                    F.tid(q) > s)))]

    def _havoc(self, c, fr):
        h = ghost_of(c, c.E['self'])
        c.obj(h.file).f['pos'] = z3.Int(fresh_name('fpos'))

    @property
    def loops(self):
        return {0: LoopSpec(inv=self._inv,
                            decreases=lambda c, fr: fr.locals['pos'].t, havoc=self._havoc,
                            kinds={'h': lambda c, fr: NONE})}


class LoadBefore(LoadSpec):
    func = 'ZODB.FileStorage.FileStorage:FileStorage.loadBefore'

    def setup(self, c, case=None):
        a = LoadSpec.setup(self, c, case)
        a['tid'] = c.fresh_bytes(8, 'tid')
        return a

    def modifies(self, c, E):
        return set()

    def outcomes(self, c, E):
        h, o, has, p = self.base(c, E)
        F, g = h.F, h.g
        t = bytes_num(c, E['tid'])
        some = Ex(['pos'], lambda q: z3.And(g.inchain(o, q), F.tid(q) < t))

        # ghost witness r: the first chain element (smallest rank) whose tid is below t.
        # At a call site it is a fresh constant; at an exit of the body it is the loop's `pos`.
        def wit(c, E):
            E.ghost['r'] = z3.Int(fresh_name('rev'))
            c.roles.seed('pos', E.ghost['r'])

        def first_below(r):
            return FAnd(g.inchain(o, r), F.tid(r) < t,
                        All(['pos'], lambda q: z3.Implies(
                            z3.And(g.inchain(o, q), z3.Select(g.rank, q) < z3.Select(g.rank, r)),
                            F.tid(q) >= t)))

        def G(extra):
            def f(c, E):
                r = E.ghost.get('r')
                if r is None:
                    return False
                return FAnd(has, first_below(r), extra(r))
            return f
        d = lambda r: z3.Select(g.drec, r)
        head = lambda r: z3.Select(g.rank, r) == 0
        nxt = lambda r: z3.Select(g.succ, r)

        def mk(end):
            def f(c, E):
                r = E.ghost['r']
                return VTuple([data_val(F, d(r)), sel_bytes(F.arr, r + 8, 8),
                               NONE if not end else sel_bytes(F.arr, nxt(r) + 8, 8)])
            return f

        def post(end):
            def f(c, E, res):
                r = E.ghost.get('r')
                if r is None or not isinstance(res, VTuple) or len(res.items) != 3:
                    return [('triple', False)]
                out = [('data-of-revision', data_is(c, res.items[0], F, d(r))),
                       ('serial-of-revision', b8_eq_num(c, res.items[1], F.tid(r)))]
                if end:
                    out.append(('end-tid-is-next-revision',
                                b8_eq_num(c, res.items[2], F.tid(nxt(r)))))
                else:
                    out.append(('end-tid-none', isinstance(res.items[2], VNone)))
                return out
            return f
        return [
            Outcome('unknown-oid', 'raise', POSKeyError, guard=z3.Not(has)),
            Outcome('nothing-before', guard=FAnd(has, FNot(some)),
                    result=lambda c, E: NONE,
                    post=lambda c, E, res: [('returns-None', isinstance(res, VNone))]),
            Outcome('uncreated', 'raise', POSKeyError, guard=G(lambda r: d(r) == 0), witness=wit),
            Outcome('current', guard=G(lambda r: z3.And(d(r) != 0, head(r))),
                    result=mk(False), post=post(False)),
            Outcome('historic', guard=G(lambda r: z3.And(d(r) != 0, z3.Not(head(r)))),
                    result=mk(True), post=post(True)),
        ]

    def _inv(self, c, fr):
        E = c.E
        h, o, has, p = self.base(c, E)
        F, g = h.F, h.g
        t = bytes_num(c, E['tid'])
        pos = fr.locals['pos'].t
        et = fr.locals['end_tid']
        rk = z3.Select(g.rank, pos)
        out = [('pos-in-chain', g.inchain(o, pos)),
               ('newer-revisions-not-below', All(['pos'], lambda q: z3.Implies(
                   z3.And(g.inchain(o, q), z3.Select(g.rank, q) < rk), F.tid(q) >= t)))]
        if isinstance(et, VNone):
            out.append(('end-none-iff-head', rk == 0))
        elif isinstance(et, VBytes):
            out.append(('end-is-successor-tid',
                        z3.And(rk > 0, bytes_num(c, et) == F.tid(z3.Select(g.succ, pos)))))
        else:
            out.append(('end-kind', False))
        return out

    def _on_exit(self, c, fr):
        c.E.ghost['r'] = fr.locals['pos'].t

    @property
    def loops(self):
        def end_kind(c, fr):
            return [NONE, c.fresh_bytes(8, 'end_tid')][c.choose([True, True], 'end_tid-kind')]
        return {0: LoopSpec(inv=self._inv, decreases=lambda c, fr: fr.locals['pos'].t,
                            kinds={'h': lambda c, fr: NONE, 'end_tid': end_kind},
                            on_exit=self._on_exit)}


def lemma_extremal():
    """C04.extremal: in a chain with strictly decreasing tids (RI chain-tids-decrease,
    chain-rank-injective, chain-succ), the first element below t along the chain is the
    revision with the greatest tid < t, and its successor has the least tid >= t."""
    rank = z3.Function('rank', I, I)
    tid = z3.Function('tid', I, I)
    inc = z3.Function('inchain', I, B)
    succ = z3.Function('succ', I, I)
    p, q = z3.Ints('p q')
    r, t = z3.Ints('r t')
    hyps = [
        z3.ForAll([p, q], z3.Implies(z3.And(inc(p), inc(q), rank(p) < rank(q)), tid(p) > tid(q))),
        z3.ForAll([p, q], z3.Implies(z3.And(inc(p), inc(q), rank(p) == rank(q)), p == q)),
        z3.ForAll([p], z3.Implies(z3.And(inc(p), rank(p) > 0),
                                  z3.And(inc(succ(p)), rank(succ(p)) == rank(p) - 1))),
        z3.ForAll([p], z3.Implies(inc(p), rank(p) >= 0)),
        inc(r), tid(r) < t,
        z3.ForAll([q], z3.Implies(z3.And(inc(q), rank(q) < rank(r)), tid(q) >= t)),
    ]
    g1 = z3.ForAll([q], z3.Implies(z3.And(inc(q), tid(q) < t), tid(q) <= tid(r)))
    g2 = z3.Implies(rank(r) > 0, z3.And(
        inc(succ(r)), tid(succ(r)) >= t,
        z3.ForAll([q], z3.Implies(z3.And(inc(q), tid(q) >= t), tid(q) >= tid(succ(r))))))
    g3 = z3.Implies(rank(r) == 0, z3.ForAll([q], z3.Implies(inc(q), tid(q) <= tid(r))))
    return [('greatest-below', (hyps, g1)), ('successor-is-least-not-below', (hyps, g2)),
            ('head-has-no-later-revision', (hyps, g3))]


SPECS = [LoadBackImpl, Load, GetTid, LoadSerial, LoadBefore]
INLINE = ['ZODB.FileStorage.FileStorage:FileStorage._lookup_pos']
