"""Open-time scan: read_index / _truncate (C01 recovery side, C04 reopen, C09, C20).

Ghost structure of a data file image A of size n (DESIGN 4.2), all positions >= start:
  isB[b]   b is a transaction boundary of the scanned region
  P        the first boundary whose tail is *ignorable* (short header, checkpoint flag, or a
           length running past the end): the committed end
  recOf[p] p is a data record inside a committed, not 'u' transaction below P;  txnOf[p] its
           transaction boundary;  prevB[b] the boundary before b
The contract of read_index is stated over this structure (taken from the format description,
not from the code): it returns P, the index maps every oid to its LAST record below P, the
tail is cut off unless read-only.
"""
import z3

from pyvc import contract, prims
from pyvc.contract import LoopSpec, Outcome, Spec
from pyvc.engine import as_z3_bool, be_num, bytes_elems, bytes_eq, bytes_num
from pyvc.ground import All, Ex, FAnd, FNot, FOr
from pyvc.values import (B, I, NONE, VBool, VBytes, VExc, VInt, VNone, VOpaque, VRef, VStr,
                         VTuple, fresh_name)

from . import fsmodel as M
from .common import KeyError_, OSError_, ValueError_, inst
from .fs_format import b8_eq_num, field_eq, sel_bytes
from .fsmodel import be, rec, txn

def _magic():
    import ast
    from pyvc import source
    m = source.load_module('ZODB._compat')
    return ast.literal_eval(m.assigns['FILESTORAGE_MAGIC'])


MAGIC = _magic()   # the format's file identifier, read from the source being verified


# The characterisation of the rebuilt index (every oid -> its last record below the committed end) is
# proved only in the THOROUGH tier of C04: with the tiling non-overlap clauses and the ghost oid function
# the nested-loop invariant discharges (all 1420 VCs, about 18 CPU-minutes), too slow for every quick
# check that includes read_index (C01, C04, C09, C18, C20).  In the quick tier it is covered by a labelled
# bounded stand-in (replay.storage_checks.check_c04: reopen without the index file).
import os as _os
INDEX_PROOF = _os.environ.get('PYVC_INDEX_PROOF') == '1'   # thorough tier of C04 (props.py: thorough_env)


class WF:
    def __init__(self, c, tag='wf'):
        n = fresh_name(tag)
        self.isB = z3.Array('isB_' + n, I, B)
        self.recOf = z3.Array('recOf_' + n, I, B)
        self.txnOf = z3.Array('txnOf_' + n, I, I)
        self.prevB = z3.Array('prevB_' + n, I, I)
        self.P = z3.Int('P_' + n)
        c.roles.array(self.isB, 'bpos')
        c.roles.array(self.prevB, 'bpos')
        c.roles.array(self.recOf, 'rpos')
        c.roles.array(self.txnOf, 'rpos')
        c.roles.seed('bpos', self.P)


def wf_clauses(w, T, R, n, start):
    """T: TxnFuns, R: RecFuns of the image (ground-linked ghost field functions)"""
    isB, recOf, txnOf, prevB, P = w.isB, w.recOf, w.txnOf, w.prevB, w.P
    sel = z3.Select
    rlen = lambda p: 42 + z3.If(R.plen(p) == 0, 8, R.plen(p))

    def boundary(b):
        nb = b + T.tl(b) + 8
        first = b + T.hdrlen(b)
        return z3.Implies(
            z3.And(sel(isB, b), b < P),
            z3.And(b >= start, n - b >= 23, T.status(b) != ord('c'), T.status(b) < 128,
                   T.status(b) >= 0, T.ul(b) >= 0, T.dl(b) >= 0, T.el(b) >= 0,
                   nb <= n, T.tl(b) >= T.hdrlen(b), T.trl(b) == T.tl(b),
                   sel(isB, nb), nb <= P, sel(prevB, nb) == b, T.tid(b) < 2 ** 64 - 1,
                   T.tid(b) >= 0,
                   z3.Implies(z3.And(T.status(b) != ord('u'), T.hdrlen(b) < T.tl(b)),
                              z3.And(sel(recOf, first), sel(txnOf, first) == b))))

    def record(p):
        b = sel(txnOf, p)
        nxt = p + rlen(p)
        return z3.Implies(
            sel(recOf, p),
            z3.And(sel(isB, b), b < P, T.status(b) != ord('u'), p >= b + T.hdrlen(b),
                   p >= start, nxt <= b + T.tl(b), R.tloc(p) == b, R.vlen(p) == 0,
                   R.plen(p) >= 0, R.oid(p) >= 0,
                   z3.Or(nxt == b + T.tl(b),
                         z3.And(sel(recOf, nxt), sel(txnOf, nxt) == b))))
    tail = z3.Or(n - P < 23, T.status(P) == ord('c'), P + T.tl(P) + 8 > n)
    tiling = [
        # the records and transactions TILE the committed region: nothing overlaps (format description)
        ('wf.records-do-not-overlap', All(['rpos', 'rpos'], lambda p, q: z3.Implies(
            z3.And(sel(recOf, p), sel(recOf, q), p < q), p + rlen(p) <= q))),
        ('wf.records-lie-inside-transactions', All(['rpos', 'bpos'], lambda p, b: z3.Implies(
            z3.And(sel(recOf, p), sel(isB, b), b >= start, b <= P),
            z3.And(z3.Implies(p < b, p + rlen(p) + 8 <= b),
                   z3.Implies(z3.And(b <= p, b < P), b + T.hdrlen(b) <= p))))),
        ('wf.transactions-do-not-overlap', All(['bpos', 'bpos'], lambda b, b2: z3.Implies(
            z3.And(sel(isB, b), sel(isB, b2), b >= start, b < b2, b2 <= P), b + T.tl(b) + 8 <= b2))),
    ] if INDEX_PROOF else []
    return tiling + [
        ('wf.start', z3.And(sel(isB, start), start >= 4, start <= P, P <= n, sel(isB, P))),
        ('wf.boundaries', All(['bpos'], boundary)),
        ('wf.records', All(['rpos'], record)),
        ('wf.tail-ignorable', z3.And(tail, z3.Implies(n - P >= 23, z3.And(T.status(P) < 128,
                                                                          T.status(P) >= 0)))),
    ]


def index_upto(w, A, start, i0dom, i0val, dom, val, x, R=None):
    """(dom,val) maps every oid to its last record in [start, x) (records of committed, not 'u'
    transactions), or else to its entry in the initial index"""
    sel = z3.Select
    recOf = w.recOf
    # (the ghost field function, ground-linked wherever a header is read, instead of the 8-term sum)
    oid_of = (lambda p: R.oid(p)) if R is not None else (lambda p: be(A, p, 8))
    return [
        ('index.entries-are-records', All(['oid'], lambda o: z3.Implies(
            sel(dom, o),
            z3.Or(z3.And(sel(recOf, sel(val, o)), sel(val, o) >= start, sel(val, o) < x,
                         oid_of(sel(val, o)) == o),
                  z3.And(sel(i0dom, o), sel(val, o) == sel(i0val, o)))))),
        ('index.covers-every-record', All(['rpos'], lambda p: z3.Implies(
            z3.And(sel(recOf, p), p >= start, p < x),
            z3.And(sel(dom, oid_of(p)), sel(val, oid_of(p)) >= p)))),
        ('index.keeps-initial-entries', All(['oid'], lambda o: z3.Implies(
            sel(i0dom, o), z3.And(sel(dom, o), sel(val, o) >= sel(i0val, o))))),
    ]


class ReadIndex(Spec):
    func = 'ZODB.FileStorage.FileStorage:read_index'
    props = ('C01', 'C04', 'C09', 'C18', 'C20')
    cases = ('rw', 'ro')
    max_paths = 20000
    assumptions = ('A-TAIL-ASCII: the status byte of a leftover tail header is ASCII (bytes beyond the '
                   'committed end are either absent or were written by tpc_vote, in-order write model)',)

    def setup(self, c, case=None):
        f = prims.new_file(c, 'file', mode='rb' if case == 'ro' else 'r+b')
        fo = c.obj(f).f
        index = prims.new_map(c, 'bytes8', 'int', 'index', sorted_=True)
        tindex = prims.new_map(c, 'bytes8', 'int', 'tindex', empty=True)
        for m_ in (index, tindex):
            c.obj(m_).meta['role'] = 'oid'
            c.roles.array(c.obj(m_).f['dom'], 'oid')
            c.roles.array(c.obj(m_).f['val'], 'oid')
        w = WF(c)
        T = M.TxnFuns(c, fo['arr'])
        R = M.RecFuns(c, fo['arr'])
        for fn in (T.tid, T.tl, T.status, T.ul, T.dl, T.el, T.trl):
            c.roles.func(fn, ['bpos'])
        for fn in (R.oid, R.tid, R.prev, R.tloc, R.vlen, R.plen, R.back):
            c.roles.func(fn, ['rpos'])
        start = c.fresh_int('start')
        g = {'file': f, 'index': index, 'tindex': tindex, 'w': w, 'A': fo['arr'], 'n': fo['size'],
             'i0dom': c.obj(index).f['dom'], 'i0val': c.obj(index).f['val'], 'start': start.t,
             'ro': case == 'ro', 'T': T, 'R': R}
        T.link(c, w.P)
        c.ghost['ri'] = g
        ltid = c.fresh_bytes(8, 'ltid')
        g['ltid0'] = bytes_num(c, ltid)
        c.assume(fo['size'] < M.MAXPOS)
        c.roles.array(fo['arr'], 'byte')

        def path_exists(cc, p, node):
            return VBool(z3.Bool(fresh_name('exists')))
        c.hooks['path_exists'] = path_exists
        return {'file': f, 'name': VStr('<Data.fs>'), 'index': index, 'tindex': tindex,
                'stop': VBytes.lit(b'\xff' * 8), 'ltid': ltid, 'start': start,
                'maxoid': VBytes.lit(b'\0' * 8), 'recover': VInt(0),
                'read_only': VInt(1 if case == 'ro' else 0)}

    def requires(self, c, E):
        g = c.ghost['ri']
        A, n, st = g['A'], g['n'], g['start']
        sel = z3.Select
        magic = z3.And([sel(A, k) == MAGIC[k] for k in range(4)])
        return [('nonempty-file-with-magic', z3.And(n >= 4, magic))] + \
            wf_clauses(g['w'], g['T'], g['R'], n, st) + [
            ('initial-index-below-start', All(['oid'], lambda o: z3.Implies(
                sel(g['i0dom'], o), z3.And(sel(g['i0val'], o) < st, sel(g['i0val'], o) >= 4,
                                           o >= 0, o < 2 ** 64)))),
        ]

    def modifies(self, c, E):
        g = c.ghost['ri']
        m = {(g['file'].id, 'pos'), (g['index'].id, 'dom'), (g['index'].id, 'val'),
             (g['tindex'].id, 'dom'), (g['tindex'].id, 'val')}
        if not g['ro']:
            m |= {(g['file'].id, 'arr'), (g['file'].id, 'size'), (g['file'].id, 'unsynced'),
                  (g['file'].id, 'dirty')}
        return m

    def outcomes(self, c, E):
        g = c.ghost['ri']
        w, A, n, st = g['w'], g['A'], g['n'], g['start']
        sel = z3.Select

        def post(c, E, r):
            if not isinstance(r, VTuple) or len(r.items) != 3:
                return [('triple', False)]
            pos, maxoid, ltid = r.items
            ix = c.obj(g['index']).f
            ti = c.obj(g['tindex']).f
            fo = c.obj(g['file']).f
            out = [('returns-committed-end', field_eq(c, pos, w.P))]
            if INDEX_PROOF:
                out += index_upto(w, A, st, g['i0dom'], g['i0val'], ix['dom'], ix['val'], w.P, R=g['R'])
            out.append(('tindex-empty', All(['oid'], lambda o: z3.Not(sel(ti['dom'], o)))))
            last = z3.If(w.P == st, g['ltid0'], g['T'].tid(sel(w.prevB, w.P)))
            out.append(('last-tid-is-last-committed-transaction', b8_eq_num(c, ltid, last)))
            mo = bytes_num(c, maxoid) if isinstance(maxoid, VBytes) and maxoid.conc_len() == 8 \
                else None
            if mo is None:
                out.append(('maxoid-8-bytes', False))
            else:
                out.append(('maxoid-covers-index', All(['oid'], lambda o: z3.Implies(
                    sel(ix['dom'], o), o <= mo))))
            if g['ro']:
                out.append(('read-only-leaves-file-untouched',
                            z3.And(fo['arr'] == A, fo['size'] == n)))
            else:
                out.append(('tail-cut-off', fo['size'] == w.P))
                out.append(('committed-bytes-unchanged', All(['byte'], lambda k: z3.Implies(
                    z3.And(k >= 0, k < w.P), sel(fo['arr'], k) == sel(A, k)))))
            return out
        outs = [Outcome('ok', post=post)]
        if not g['ro']:
            # saving the cut-off tail to <name>.trN can fail
            outs.append(Outcome('cannot-save-tail', 'raise', M.StorageSystemError))
        return outs

    # ---- loop invariants
    def _outer(self, c, fr):
        g = c.ghost['ri']
        w, A, n, st = g['w'], g['A'], g['n'], g['start']
        sel = z3.Select
        pos = fr.locals['pos'].t
        fo = c.obj(g['file']).f
        ix = c.obj(g['index']).f
        ti = c.obj(g['tindex']).f
        ltid = fr.locals['ltid']
        T = g['T']
        T.link(c, pos)
        out = [
            ('at-boundary', z3.And(sel(w.isB, pos), pos >= st, pos <= w.P)),
            ('file-untouched', z3.And(fo['arr'] == A, fo['size'] == n)),
            ('file-positioned', fo['pos'] == pos),
            ('file-size-known', field_eq(c, fr.locals['file_size'], n)),
            ('tindex-empty', All(['oid'], lambda o: z3.Not(sel(ti['dom'], o)))),
            ('ltid', b8_eq_num(c, ltid, z3.If(pos == st, g['ltid0'],
                                               T.tid(sel(w.prevB, pos))))),
        ]
        if INDEX_PROOF:
            out = out + index_upto(w, A, st, g['i0dom'], g['i0val'], ix['dom'], ix['val'], pos, R=g['R'])
        return out

    def _inner(self, c, fr):
        g = c.ghost['ri']
        w, A, n, st = g['w'], g['A'], g['n'], g['start']
        sel = z3.Select
        pos = fr.locals['pos'].t
        tpos = fr.locals['tpos'].t
        tend = fr.locals['tend'].t
        tl = fr.locals['tl'].t
        fo = c.obj(g['file']).f
        ix = c.obj(g['index']).f
        ti = c.obj(g['tindex']).f
        T = g['T']
        T.link(c, tpos)
        t = {'status': T.status(tpos), 'tl': T.tl(tpos), 'tid': T.tid(tpos)}
        D = lambda o: z3.Or(sel(ti['dom'], o), sel(ix['dom'], o))
        W = lambda o: z3.If(sel(ti['dom'], o), sel(ti['val'], o), sel(ix['val'], o))
        recOf = w.recOf
        oid_of = lambda p: g['R'].oid(p)
        if INDEX_PROOF:
            g['R'].link(c, pos)
        i0dom, i0val = g['i0dom'], g['i0val']
        out = [
            ('in-transaction', z3.And(sel(w.isB, tpos), tpos < w.P, tpos >= st,
                                      t['status'] != ord('u'), tend == tpos + t['tl'],
                                      tl == t['tl'])),
            ('record-boundary', z3.And(pos >= tpos + T.hdrlen(tpos), pos <= tend,
                                       z3.Or(pos == tend, z3.And(sel(recOf, pos),
                                                                 sel(w.txnOf, pos) == tpos)))),
            ('file-untouched', z3.And(fo['arr'] == A, fo['size'] == n)),
            ('file-size-known', field_eq(c, fr.locals['file_size'], n)),
            ('tid-of-this-transaction', b8_eq_num(c, fr.locals['ltid'], t['tid'])),
        ]
        if INDEX_PROOF:
            out += [
                ('index.entries-are-records', All(['oid'], lambda o: z3.Implies(
                    D(o), z3.Or(z3.And(sel(recOf, W(o)), W(o) >= st, W(o) < pos, oid_of(W(o)) == o),
                                z3.And(sel(i0dom, o), W(o) == sel(i0val, o)))))),
                ('index.covers-every-record', All(['rpos'], lambda p: z3.Implies(
                    z3.And(sel(recOf, p), p >= st, p < pos),
                    z3.And(D(oid_of(p)), W(oid_of(p)) >= p)))),
                ('index.keeps-initial-entries', All(['oid'], lambda o: z3.Implies(
                    sel(i0dom, o), z3.And(D(o), W(o) >= sel(i0val, o))))),
            ]
        return out

    def _havoc(self, c, fr):
        g = c.ghost['ri']
        fo = c.obj(g['file']).f
        fo['pos'] = z3.Int(fresh_name('fpos'))
        # the image itself is not havocked: the invariant pins it to the entry image (`file-untouched`
        # is an obligation at the end of every iteration), so every iteration starts from A
        for k in ('index', 'tindex'):
            mo = c.obj(g[k]).f
            mo['dom'] = z3.Array(fresh_name(k + '_dom'), I, B)
            mo['val'] = z3.Array(fresh_name(k + '_val'), I, I)
            c.roles.array(mo['dom'], 'oid')
            c.roles.array(mo['val'], 'oid')

    @property
    def loops(self):
        none = lambda c, fr: NONE
        return {
            0: LoopSpec(inv=self._outer,
                        decreases=lambda c, fr: c.ghost['ri']['n'] - fr.locals['pos'].t + 1,
                        havoc=self._havoc, kinds={'h': none, 'tl': none, 'status': none,
                                                  'ul': none, 'dl': none, 'el': none,
                                                  'tpos': none, 'tend': none, 'dlen': none,
                                                  'rtl': none}),
            1: LoopSpec(inv=self._inner,
                        decreases=lambda c, fr: fr.locals['tend'].t - fr.locals['pos'].t,
                        havoc=self._havoc, kinds={'h': none, 'dlen': none}),
        }


class Truncate(Spec):
    """_truncate(file, name, pos): save the tail to <name>.trN, then cut the file at pos"""
    func = 'ZODB.FileStorage.FileStorage:_truncate'
    props = ('C01', 'C09')

    def setup(self, c, case=None):
        f = prims.new_file(c, 'file', mode='r+b')
        fo = c.obj(f).f
        pos = c.fresh_int('pos')
        c.assume(z3.And(pos.t >= 0, pos.t <= fo['size'], fo['size'] < M.MAXPOS))

        def path_exists(cc, p, node):
            return VBool(z3.Bool(fresh_name('exists')))
        c.hooks['path_exists'] = path_exists
        return {'file': f, 'name': VStr('<Data.fs>'), 'pos': pos}

    def requires(self, c, E):
        fo = c.obj(E['file']).f
        return [('pos-within-file', z3.And(E['pos'].t >= 0, E['pos'].t <= fo['size']))]

    def modifies(self, c, E):
        f = E['file'].id
        return {(f, 'arr'), (f, 'size'), (f, 'pos'), (f, 'unsynced'), (f, 'dirty')}

    def outcomes(self, c, E):
        f = E['file']
        A = c.obj(f).f['arr']

        def post(c, E, r):
            fo = c.obj(f).f
            return [('cut-at-pos', fo['size'] == E['pos'].t),
                    ('prefix-unchanged', All(['byte'], lambda k: z3.Implies(
                        z3.And(k >= 0, k < E['pos'].t), z3.Select(fo['arr'], k) == z3.Select(A, k))))]
        return [Outcome('ok', post=post),
                Outcome('cannot-save-tail', 'raise', M.StorageSystemError)]

    @property
    def loops(self):
        return {0: LoopSpec(inv=lambda c, fr: [], kinds={'oname': lambda c, fr: VStr('<name>.trN'),
                                                         'o': lambda c, fr: NONE})}


SPECS = [ReadIndex, Truncate]
INLINE = ['ZODB.FileStorage.FileStorage:TempFormatter.__init__',
          'ZODB.FileStorage.FileStorage:panic']
