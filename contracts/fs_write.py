"""Write path of FileStorage / BaseStorage two-phase commit: store, deleteObject, _begin,
_clear_temp, tpc_vote, _finish, _finish_finish, _abort, tpc_finish, BaseStorage.tpc_begin /
tpc_abort / tpc_vote / tpc_finish / new_oid / set_max_oid, utils.cp.
Properties: C01 (crash invariant, durability order), C03 (serial check), C04 (record images,
tid monotonicity), C05 (failure paths, lock invariant), C10 (resolver arguments), C13 (blob
cleanup), C20 (oid counter)."""
import z3

from pyvc import contract, prims, timestamp
from pyvc.contract import LoopSpec, Outcome, Spec
from pyvc.engine import PathEnd, RaiseSig, as_z3_bool, be_num, bytes_elems, bytes_eq, bytes_num
from pyvc.ground import All, Ex, FAnd, FNot, FOr
from pyvc.values import (B, I, NONE, Obj, VBool, VBytes, VExc, VFunc, VInt, VNone, VOpaque,
                         VRef, VStr, VTuple, fresh_name)

from . import blobmodel
from . import fsmodel as M
from .common import (ConflictError, KeyError_, OSError_, POSKeyError, ReadOnlyError,
                     StorageTransactionError, TypeError_, UndoError, ValueError_, inst)
from .fs_format import b8_eq_num, field_eq, sel_bytes, slice_is
from .fs_load import bend_axioms, bend_fn, ghost_of
from .fsmodel import be, rec, txn

AII = z3.ArraySort(I, I)
# uninterpreted conflict resolver: (oid, committed serial, old serial, new data) -> data
RES_ARR = z3.Function('resolved_arr', I, I, I, AII, I, I, AII)
RES_LEN = z3.Function('resolved_len', I, I, I, AII, I, I, I)
RES_OK = z3.Function('resolvable', I, I, I, AII, I, I, B)


def one_seg(v):
    """(arr, off, len) of a byte string that is one array slice"""
    if isinstance(v, VBytes) and len(v.segs) == 1 and v.segs[0][0] == 'a':
        return v.segs[0][1], v.segs[0][2], v.segs[0][3]
    return None


def rope_at(v, k):
    """term for v[k] (k a z3 Int within bounds) of a rope"""
    off = z3.IntVal(0)
    cases = []
    for s in v.segs:
        if s[0] == 'b':
            for j, t in enumerate(s[1]):
                cases.append((k == off + j, t))
            off = z3.simplify(off + len(s[1]))
        else:
            _, arr, o, ln = s
            cases.append((z3.And(k >= off, k < off + ln), z3.Select(arr, o + (k - off))))
            off = z3.simplify(off + ln)
    t = z3.IntVal(0)
    for cond, val in reversed(cases):
        t = z3.If(cond, val, t)
    return t


class TryToResolve(Spec):
    """assumed contract of ConflictResolvingStorage.tryToResolveConflict at its call sites
    (C10 pins the ORDER of the arguments: the result is an uninterpreted function of
    (oid, committedSerial, oldSerial, newpickle)); its body is treated in contracts/conflict.py"""
    func = 'ZODB.ConflictResolution:tryToResolveConflict'
    props = ()
    verify = False

    def args(self, c, E):
        d = one_seg(E['newpickle'])
        if d is None:
            raise contract.Unsupported('resolver data must be one slice')
        return (bytes_num(c, E['oid']), bytes_num(c, E['committedSerial']),
                bytes_num(c, E['oldSerial'])) + d

    def outcomes(self, c, E):
        a = self.args(c, E)
        ok = RES_OK(*a)

        def mk(c, E):
            ln = RES_LEN(*a)
            c.assume(z3.And(ln > 0, ln < M.MAXPOS))
            return VBytes([('a', RES_ARR(*a), z3.IntVal(0), ln)])
        return [Outcome('resolved', guard=ok, result=mk),
                Outcome('conflict', 'raise', ConflictError, guard=z3.Not(ok))]


# ======================================================================================
# common in-transaction setup
# ======================================================================================
def txn_facts(c, h):
    """facts about an open FileStorage inside a transaction (representation invariant, the
    part the write path relies on)"""
    fa, ta = c.obj(h.file).f, c.obj(h.tfile).f
    lens = [h.user.length(), h.descr.length(), h.ext.length()]
    return [
        ('thl', h.thl.t == 23 + lens[0] + lens[1] + lens[2]),
        ('metadata-lengths', z3.And([z3.And(x >= 0, x <= 65535) for x in lens])),
        ('tfile-pos', z3.And(ta['pos'] >= 0, ta['pos'] <= ta['size'])),
        ('commit-lock-held', c.obj(h.commit_lock).f['held'] == 1),
        ('file-clean', z3.Not(fa['dirty'])),
    ]


class WriteSpec(Spec):
    assumptions = (M.POOL_ASSUMPTION,) + tuple(blobmodel.ASSUMPTIONS) + tuple(timestamp.ASSUMPTIONS)
    txn_cases = ('same', 'other')

    def mk(self, c, case, **kw):
        h = M.mk_fs(c, in_txn=True, **kw)
        c.ghost[('fs', h.self.id)] = h
        bend_fn(h.g, c)
        timestamp.install(c.hooks)
        if case is not None and 'other' in case:
            t = c.fresh_opaque('other_transaction')
            c.assume(t.t != h.txn.t)
        else:
            t = h.txn
        return h, t

    def definitions(self, c, E):
        h = ghost_of(c, E['self'])
        return [bend_axioms(h.F, h.g)]

    def hooks(self, c):
        hk = {}
        timestamp.install(hk)
        return hk


def lock_balanced(c, E, h):
    return [('lock-balanced', c.obj(h.lock).f['held'] == E.old[h.lock.id]['held'])]


# ======================================================================================
# store
# ======================================================================================
class Store(WriteSpec):
    func = 'ZODB.FileStorage.FileStorage:FileStorage.store'
    props = ('C03', 'C04', 'C05', 'C10', 'C20')
    cases = ('same', 'other', 'same-readonly')

    def setup(self, c, case=None):
        h, t = self.mk(c, case, read_only=(True if case == 'same-readonly' else False))
        return {'self': h.self, 'oid': c.fresh_bytes(8, 'oid'),
                'oldserial': c.fresh_bytes(8, 'oldserial'), 'data': c.fresh_barr('data'),
                'version': VStr(''), 'transaction': t}

    def requires(self, c, E):
        h = ghost_of(c, E['self'])
        idx = c.obj(h.index).f
        return M.RI_chain(h.F, h.g, idx['dom'], idx['val'], h.pos.t) + txn_facts(c, h) + [
            ('data-nonempty', z3.And(E['data'].length() > 0, E['data'].length() < M.MAXPOS))]

    def modifies(self, c, E):
        h = ghost_of(c, E['self'])
        return {(h.tfile.id, 'arr'), (h.tfile.id, 'size'), (h.tfile.id, 'pos'),
                (h.tfile.id, 'dirty'), (h.tfile.id, 'unsynced'),
                (h.tindex.id, 'dom'), (h.tindex.id, 'val'), (h.resolved.id, 'arr'),
                (h.resolved.id, 'len'), (h.self.id, '_oid'), (h.file.id, 'pos')}

    def outcomes(self, c, E):
        h = ghost_of(c, E['self'])
        S = c.obj(h.self).f
        ro = S['_is_read_only'].t
        same = E['transaction'].t == S['_transaction'].t
        idx = c.obj(h.index).f
        o = bytes_num(c, E['oid'])
        has = z3.Select(idx['dom'], o)
        old_p = z3.If(has, z3.Select(idx['val'], o), 0)
        ctid = h.F.tid(old_p)
        oser = bytes_num(c, E['oldserial'])
        conflict = z3.And(old_p != 0, oser != ctid)
        darr, doff, dlen = one_seg(E['data'])
        rargs = (o, ctid, oser, darr, doff, dlen)
        resolvable = RES_OK(*rargs)
        t0 = c.obj(h.tfile).f['pos']
        tf_old = c.obj(h.tfile).f['arr']
        here = h.pos.t + t0 + h.thl.t
        quota = S['_quota']
        over = (here > quota.t) if isinstance(quota, VInt) else z3.BoolVal(False)
        okguard = z3.And(z3.Not(ro), same, z3.Or(z3.Not(conflict), resolvable))
        oldoid = bytes_num(c, E.old[h.self.id]['_oid']) if E.old else bytes_num(c, S['_oid'])

        def oid_post(c, E):
            cur = c.obj(h.self).f['_oid']
            return [('oid-counter-covers-stored-oid',
                     b8_eq_num(c, cur, z3.If(o > oldoid, o, oldoid)))]

        def effect(c, E, res):
            tf = c.obj(h.tfile).f
            ti = c.obj(h.tindex).f
            ti0 = E.old[h.tindex.id]
            stored_len = z3.If(conflict, RES_LEN(*rargs), dlen)
            stored_at = lambda k: z3.If(conflict, z3.Select(RES_ARR(*rargs), k),
                                        z3.Select(darr, doff + k))
            r = rec(tf['arr'], t0)
            rs = c.obj(h.resolved).f
            rs0 = E.old[h.resolved.id]
            out = [
                ('record.oid', r['oid'] == o),
                ('record.tid', r['tid'] == bytes_num(c, h.tid)),
                ('record.prev-is-current-committed-record', r['prev'] == old_p),
                ('record.tloc-is-transaction-start', r['tloc'] == h.pos.t),
                ('record.vlen-zero', r['vlen'] == 0),
                ('record.plen', r['plen'] == stored_len),
                ('record.data', All(['byte'], lambda k: z3.Implies(
                    z3.And(k >= 0, k < stored_len),
                    z3.Select(tf['arr'], t0 + 42 + k) == stored_at(k)))),
                ('staged-prefix-unchanged', All(['byte'], lambda k: z3.Implies(
                    z3.And(k >= 0, k < t0), z3.Select(tf['arr'], k) == z3.Select(tf_old, k)))),
                ('tfile.pos', tf['pos'] == t0 + 42 + stored_len),
                ('tfile.size', tf['size'] >= tf['pos']),
                ('tindex.entry', z3.And(z3.Select(ti['dom'], o), z3.Select(ti['val'], o) == here)),
                ('tindex.others-unchanged', All(['oid'], lambda q: z3.Implies(
                    q != o, z3.And(z3.Select(ti['dom'], q) == z3.Select(ti0['dom'], q),
                                   z3.Select(ti['val'], q) == z3.Select(ti0['val'], q))))),
                ('resolved-list', z3.If(
                    conflict,
                    z3.And(rs['len'] == rs0['len'] + 1, z3.Select(rs['arr'], rs0['len']) == o),
                    rs['len'] == rs0['len'])),
                ('resolved-list-prefix', All(['lidx'], lambda k: z3.Implies(
                    z3.And(k >= 0, k < rs0['len']),
                    z3.Select(rs['arr'], k) == z3.Select(rs0['arr'], k)))),
            ]
            return out + oid_post(c, E) + lock_balanced(c, E, h)

        def unchanged_staging(c, E, res):
            tf, tf0 = c.obj(h.tfile).f, E.old[h.tfile.id]
            ti, ti0 = c.obj(h.tindex).f, E.old[h.tindex.id]
            rs, rs0 = c.obj(h.resolved).f, E.old[h.resolved.id]
            return [('nothing-staged', z3.And(tf['arr'] == tf0['arr'], tf['pos'] == tf0['pos'],
                                              tf['size'] == tf0['size'], ti['dom'] == ti0['dom'],
                                              ti['val'] == ti0['val'], rs['len'] == rs0['len']))] \
                + lock_balanced(c, E, h)

        def untouched(c, E, res):
            return unchanged_staging(c, E, res) + [
                ('oid-counter-unchanged', contract.same_value(c, E.old[h.self.id]['_oid'],
                                                              c.obj(h.self).f['_oid']))]
        return [
            Outcome('read-only', 'raise', ReadOnlyError, guard=ro, post=untouched),
            Outcome('wrong-transaction', 'raise', StorageTransactionError,
                    guard=z3.And(z3.Not(ro), z3.Not(same)), post=untouched),
            Outcome('conflict', 'raise', ConflictError,
                    guard=z3.And(z3.Not(ro), same, conflict, z3.Not(resolvable)),
                    post=lambda c, E, r: unchanged_staging(c, E, r) + oid_post(c, E)),
            Outcome('stored', guard=z3.And(okguard, z3.Not(over)), post=effect),
            Outcome('quota', 'raise', M.FileStorageQuotaError, guard=z3.And(okguard, over),
                    post=effect),
        ]



# ======================================================================================
# deleteObject
# ======================================================================================
class DeleteObject(WriteSpec):
    func = 'ZODB.FileStorage.FileStorage:FileStorage.deleteObject'
    props = ('C03', 'C04', 'C05')
    cases = ('same', 'other', 'same-readonly')

    def setup(self, c, case=None):
        h, t = self.mk(c, case, read_only=(True if case == 'same-readonly' else False))
        return {'self': h.self, 'oid': c.fresh_bytes(8, 'oid'),
                'oldserial': c.fresh_bytes(8, 'oldserial'), 'transaction': t}

    def requires(self, c, E):
        h = ghost_of(c, E['self'])
        idx = c.obj(h.index).f
        return M.RI_chain(h.F, h.g, idx['dom'], idx['val'], h.pos.t) + txn_facts(c, h)

    def modifies(self, c, E):
        h = ghost_of(c, E['self'])
        return {(h.tfile.id, 'arr'), (h.tfile.id, 'size'), (h.tfile.id, 'pos'),
                (h.tfile.id, 'dirty'), (h.tfile.id, 'unsynced'),
                (h.tindex.id, 'dom'), (h.tindex.id, 'val'), (h.file.id, 'pos')}

    def outcomes(self, c, E):
        h = ghost_of(c, E['self'])
        S = c.obj(h.self).f
        ro = S['_is_read_only'].t
        same = E['transaction'].t == S['_transaction'].t
        idx = c.obj(h.index).f
        o = bytes_num(c, E['oid'])
        has = z3.Select(idx['dom'], o)
        old_p = z3.Select(idx['val'], o)
        ctid = h.F.tid(old_p)
        oser = bytes_num(c, E['oldserial'])
        t0 = c.obj(h.tfile).f['pos']
        tf_old = c.obj(h.tfile).f['arr']
        here = h.pos.t + t0 + h.thl.t
        quota = S['_quota']
        over = (here > quota.t) if isinstance(quota, VInt) else z3.BoolVal(False)
        live = z3.And(z3.Not(ro), same)

        def effect(c, E, res):
            tf = c.obj(h.tfile).f
            ti, ti0 = c.obj(h.tindex).f, E.old[h.tindex.id]
            r = rec(tf['arr'], t0)
            return [
                ('record.oid', r['oid'] == o), ('record.tid', r['tid'] == bytes_num(c, h.tid)),
                ('record.prev', r['prev'] == old_p), ('record.tloc', r['tloc'] == h.pos.t),
                ('record.vlen-zero', r['vlen'] == 0), ('record.plen-zero', r['plen'] == 0),
                ('record.back-zero-means-removed', r['back'] == 0),
                ('staged-prefix-unchanged', All(['byte'], lambda k: z3.Implies(
                    z3.And(k >= 0, k < t0), z3.Select(tf['arr'], k) == z3.Select(tf_old, k)))),
                ('tfile.pos', tf['pos'] == t0 + 50),
                ('tindex.entry', z3.And(z3.Select(ti['dom'], o), z3.Select(ti['val'], o) == here)),
                ('tindex.others-unchanged', All(['oid'], lambda q: z3.Implies(
                    q != o, z3.And(z3.Select(ti['dom'], q) == z3.Select(ti0['dom'], q),
                                   z3.Select(ti['val'], q) == z3.Select(ti0['val'], q))))),
            ] + lock_balanced(c, E, h)

        def untouched(c, E, res):
            tf, tf0 = c.obj(h.tfile).f, E.old[h.tfile.id]
            ti, ti0 = c.obj(h.tindex).f, E.old[h.tindex.id]
            return [('nothing-staged', z3.And(tf['arr'] == tf0['arr'], tf['pos'] == tf0['pos'],
                                              tf['size'] == tf0['size'], ti['dom'] == ti0['dom'],
                                              ti['val'] == ti0['val']))] + lock_balanced(c, E, h)
        return [
            Outcome('read-only', 'raise', ReadOnlyError, guard=ro, post=untouched),
            Outcome('wrong-transaction', 'raise', StorageTransactionError,
                    guard=z3.And(z3.Not(ro), z3.Not(same)), post=untouched),
            Outcome('unknown', 'raise', POSKeyError, guard=z3.And(live, z3.Not(has)),
                    post=untouched),
            Outcome('conflict', 'raise', ConflictError,
                    guard=z3.And(live, has, oser != ctid), post=untouched),
            Outcome('deleted', guard=z3.And(live, has, oser == ctid, z3.Not(over)), post=effect),
            Outcome('quota', 'raise', M.FileStorageQuotaError,
                    guard=z3.And(live, has, oser == ctid, over), post=effect),
        ]


# ======================================================================================
# _begin / _clear_temp
# ======================================================================================
class Begin(WriteSpec):
    func = 'ZODB.FileStorage.FileStorage:FileStorage._begin'
    props = ('C05', 'C04')

    def setup(self, c, case=None):
        h, t = self.mk(c, None)
        return {'self': h.self, 'tid': c.fresh_bytes(8, 'tid'), 'u': c.fresh_barr('u'),
                'd': c.fresh_barr('d'), 'e': c.fresh_barr('e')}

    def modifies(self, c, E):
        h = ghost_of(c, E['self'])
        return {(h.self.id, '_nextpos'), (h.self.id, '_thl')}

    def outcomes(self, c, E):
        h = ghost_of(c, E['self'])
        lu, ld, le = E['u'].length(), E['d'].length(), E['e'].length()
        fits = z3.And(lu <= 65535, ld <= 65535, le <= 65535)

        def post(c, E, r):
            S = c.obj(h.self).f
            return [('nextpos-reset', field_eq(c, S['_nextpos'], z3.IntVal(0))),
                    ('thl', field_eq(c, S['_thl'], 23 + lu + ld + le))]
        return [Outcome('ok', guard=fits, post=post),
                Outcome('too-long', 'raise', M.FileStorageError, guard=z3.Not(fits), post=post)]


class ClearTemp(WriteSpec):
    func = 'ZODB.FileStorage.FileStorage:FileStorage._clear_temp'
    props = ('C05',)

    def setup(self, c, case=None):
        h, t = self.mk(c, None)
        return {'self': h.self}

    def modifies(self, c, E):
        h = ghost_of(c, E['self'])
        return {(h.tindex.id, 'dom'), (h.tfile.id, 'pos')}

    def outcomes(self, c, E):
        h = ghost_of(c, E['self'])

        def post(c, E, r):
            ti = c.obj(h.tindex).f
            return [('tindex-empty', All(['oid'], lambda q: z3.Not(z3.Select(ti['dom'], q)))),
                    ('tfile-rewound', c.obj(h.tfile).f['pos'] == 0)]
        return [Outcome('ok', post=post)]


# ======================================================================================
# utils.cp
# ======================================================================================
class Cp(Spec):
    func = 'ZODB.utils:cp'
    props = ('C01', 'C05', 'C17')
    cases = ('length',)

    def setup(self, c, case=None):
        f1 = prims.new_file(c, 'src')
        f2 = prims.new_file(c, 'dst')
        return {'f1': f1, 'f2': f2, 'length': c.fresh_int('length', 0),
                'bufsize': VInt(64 * 1024)}

    def requires(self, c, E):
        a, b = c.obj(E['f1']).f, c.obj(E['f2']).f
        ln = E['length']
        return [('distinct-files', E['f1'].id != E['f2'].id),
                ('length-given', isinstance(ln, VInt) and ln.t >= 0),
                ('positions', z3.And(a['pos'] >= 0, b['pos'] >= 0, b['pos'] <= b['size']))]

    def modifies(self, c, E):
        f1, f2 = E['f1'].id, E['f2'].id
        return {(f1, 'pos'), (f2, 'pos'), (f2, 'arr'), (f2, 'size'), (f2, 'dirty'),
                (f2, 'unsynced')}

    def count(self, c, E):
        a = E.old[E['f1'].id] if E.old else c.obj(E['f1']).f
        avail = a['size'] - a['pos']
        ln = E['length'].t
        return z3.If(avail <= 0, 0, z3.If(ln < avail, ln, avail))

    def outcomes(self, c, E):
        n = self.count(c, E)

        def post(c, E, r):
            a0, b0 = E.old[E['f1'].id], E.old[E['f2'].id]
            a, b = c.obj(E['f1']).f, c.obj(E['f2']).f
            return [
                ('source-advanced', a['pos'] == a0['pos'] + n),
                ('dest-advanced', b['pos'] == b0['pos'] + n),
                ('dest-size', b['size'] == z3.If(b0['pos'] + n > b0['size'], b0['pos'] + n,
                                                 b0['size'])),
                ('copied-bytes', All(['byte'], lambda k: z3.Implies(
                    z3.And(k >= 0, k < n),
                    z3.Select(b['arr'], b0['pos'] + k) == z3.Select(a0['arr'], a0['pos'] + k)))),
                ('other-bytes-unchanged', All(['byte'], lambda k: z3.Implies(
                    z3.Or(k < b0['pos'], k >= b0['pos'] + n),
                    z3.Select(b['arr'], k) == z3.Select(b0['arr'], k)))),
            ]
        return [Outcome('ok', post=post)]

    def apply(self, c, interp, amap, node):
        """call sites: cp is exactly one in-order write of the source slice (so that crash and
        fault hooks see it as a write that can be torn at every byte)"""
        E = contract.Env(amap, c.snapshot())
        for lbl, b in self.requires(c, E):
            c.oblige('pre:cp.%s' % lbl, b, node)
        n = z3.simplify(self.count(c, E))
        a = c.obj(amap['f1']).f
        data = VBytes([('a', a['arr'], a['pos'], n)])
        f2 = amap['f2']
        prims.file_io_fault(c, f2, 'write', node)
        prims.file_write(c, f2, c.obj(f2), data, node)
        a['pos'] = z3.simplify(a['pos'] + n)
        return NONE

    def _inv(self, c, fr):
        E = c.E
        a0, b0 = E.old[E['f1'].id], E.old[E['f2'].id]
        a, b = c.obj(E['f1']).f, c.obj(E['f2']).f
        n = self.count(c, E)
        ln = fr.locals['length'].t
        done = E['length'].t - ln
        nn = fr.locals['n'].t
        return [
            ('progress', z3.And(done >= 0, done <= n, ln >= 0)),
            ('remaining', z3.Implies(done < n, ln > 0)),
            ('source-pos', a['pos'] == a0['pos'] + done),
            ('dest-pos', b['pos'] == b0['pos'] + done),
            ('dest-size', b['size'] == z3.If(b0['pos'] + done > b0['size'], b0['pos'] + done,
                                             b0['size'])),
            ('chunk', z3.And(nn > 0, nn <= 64 * 1024)),
            ('copied-so-far', All(['byte'], lambda k: z3.Implies(
                z3.And(k >= 0, k < done),
                z3.Select(b['arr'], b0['pos'] + k) == z3.Select(a0['arr'], a0['pos'] + k)))),
            ('others-unchanged', All(['byte'], lambda k: z3.Implies(
                z3.Or(k < b0['pos'], k >= b0['pos'] + done),
                z3.Select(b['arr'], k) == z3.Select(b0['arr'], k)))),
        ]

    def _havoc(self, c, fr):
        E = c.E
        a, b = c.obj(E['f1']).f, c.obj(E['f2']).f
        a['pos'] = z3.Int(fresh_name('p1'))
        b['pos'] = z3.Int(fresh_name('p2'))
        b['size'] = z3.Int(fresh_name('s2'))
        b['arr'] = z3.Array(fresh_name('dst_img'), I, I)
        b['dirty'] = z3.Bool(fresh_name('dirty'))
        b['unsynced'] = z3.Bool(fresh_name('unsynced'))
        c.roles.array(b['arr'], 'byte')

    @property
    def loops(self):
        return {0: LoopSpec(inv=self._inv, decreases=lambda c, fr: fr.locals['length'].t,
                            havoc=self._havoc, kinds={'data': lambda c, fr: NONE})}


# ======================================================================================
# crash invariant (C01) and fault injection (C05) hooks
# ======================================================================================
def tail_ignorable(arr, size, b):
    """what the open-time scan discards at boundary b (format: short header, checkpoint flag,
    or a length that runs past the end)  -- taken from the property/format, not from read_index"""
    return z3.Or(size - b < 23, z3.Select(arr, b + 16) == ord('c'),
                 b + be(arr, b + 8, 8) + 8 > size)


def tail_complete(arr, size, b):
    """a complete, committed transaction record is at b and ends the file"""
    tl = be(arr, b + 8, 8)
    return z3.And(size - b >= 23, z3.Select(arr, b + 16) != ord('c'), size == b + tl + 8,
                  be(arr, b + tl, 8) == tl, tl >= 23 + be(arr, b + 17, 2) + be(arr, b + 19, 2)
                  + be(arr, b + 21, 2))


def install_crash_hook(c, h, hooks, allow_complete=False):
    """after every write/truncate of the data file, and for every torn prefix of a write, the
    OS image must satisfy the crash invariant"""
    state = {'n': 0}
    b = h.pos.t

    def on_event(cc, ev):
        if ev[0] == 'write' and ev[1].id == h.file.id:
            state['n'] += 1
            (arr0, size0, pos0), data = ev[2], ev[3]
            L = data.length()
            k = z3.Int(fresh_name('torn'))
            i = z3.Int(fresh_name('i'))
            arrk = z3.Lambda([i], z3.If(z3.And(i >= pos0, i < pos0 + k),
                                        rope_at(data, i - pos0), z3.Select(arr0, i)))
            sizek = z3.If(pos0 + k > size0, pos0 + k, size0)
            tag = 'crash.write#%d.' % state['n']
            cc.oblige(tag + 'beyond-committed-end', pos0 >= b, assume_after=False)
            ok = tail_ignorable(arrk, sizek, b)
            if allow_complete:
                ok = z3.Or(ok, tail_complete(arrk, sizek, b))
            cc.oblige(tag + 'every-torn-prefix-ignorable-or-complete',
                      z3.Implies(z3.And(k >= 0, k <= L), ok), assume_after=False)
        elif ev[0] == 'truncate' and ev[1].id == h.file.id:
            state['n'] += 1
            cc.oblige('crash.truncate#%d.keeps-committed-prefix' % state['n'], ev[3] >= b,
                      assume_after=False)
            M.mark_pool_stale(cc, h.self)
    hooks['event'] = on_event


def install_fault_hook(c, h, hooks, ops=('write', 'flush', 'fsync')):
    """single-fault injection: every primitive I/O on the data file may raise OSError once;
    a failing write leaves an arbitrary prefix of its data in the file"""
    def fault(cc, ref, op, node):
        if ref.id != h.file.id or op not in ops or cc.ghost.get('faulted'):
            return
        i = cc.choose([True, True], 'io-fault:' + op)
        if i == 1:
            cc.ghost['faulted'] = op
            cc.event('fault', ref, op)
            raise RaiseSig(VExc(OSError_))
    hooks['io_fault'] = fault


# ======================================================================================
# tpc_vote
# ======================================================================================
class TpcVote(WriteSpec):
    func = 'ZODB.FileStorage.FileStorage:FileStorage.tpc_vote'
    props = ('C01', 'C04', 'C05', 'C10')
    cases = ('same', 'other')

    def setup(self, c, case=None):
        h, t = self.mk(c, case, read_only=False)
        c.roles.array(c.obj(h.file).f['arr'], 'byte')
        return {'self': h.self, 'transaction': t}

    def requires(self, c, E):
        h = ghost_of(c, E['self'])
        fa, ta = c.obj(h.file).f, c.obj(h.tfile).f
        return txn_facts(c, h) + [
            ('no-garbage-beyond-committed-end', fa['size'] == h.pos.t),
            ('not-voted-yet', h.nextpos.t == 0),
            ('tid-size', h.tid.conc_len() == 8),
        ]

    def hooks(self, c):
        hk = WriteSpec.hooks(self, c)
        return hk

    def modifies(self, c, E):
        h = ghost_of(c, E['self'])
        return {(h.file.id, '*'), (h.tfile.id, 'pos'), (h.self.id, '_nextpos'),
                (h.pool.id, 'stale')}

    def outcomes(self, c, E):
        h = ghost_of(c, E['self'])
        S = c.obj(h.self).f
        same = E['transaction'].t == S['_transaction'].t
        fa0, ta0 = c.obj(h.file).f, c.obj(h.tfile).f
        arr0, b = fa0['arr'], h.pos.t
        dlen = ta0['pos']
        tarr = ta0['arr']
        tl = h.thl.t + dlen
        lu, ld, le = h.user.length(), h.descr.length(), h.ext.length()

        def committed_unchanged(fa):
            return ('committed-prefix-unchanged', All(['byte'], lambda k: z3.Implies(
                z3.And(k >= 0, k < b), z3.Select(fa['arr'], k) == z3.Select(arr0, k))))

        def voted(c, E, r):
            fa = c.obj(h.file).f
            t = txn(fa['arr'], b)
            S1 = c.obj(h.self).f

            def seg(v, off):
                sg = one_seg(v)
                return All(['byte'], lambda k: z3.Implies(
                    z3.And(k >= 0, k < sg[2]),
                    z3.Select(fa['arr'], b + off + k) == z3.Select(sg[0], sg[1] + k)))
            return [
                committed_unchanged(fa),
                ('header.tid', t['tid'] == bytes_num(c, h.tid)),
                ('header.length', t['tl'] == tl),
                ('header.status-is-checkpoint', t['status'] == ord('c')),
                ('header.ulen', t['ul'] == lu), ('header.dlen', t['dl'] == ld),
                ('header.elen', t['el'] == le),
                ('user', seg(h.user, 23)), ('description', seg(h.descr, 23 + lu)),
                ('extension', seg(h.ext, 23 + lu + ld)),
                ('records-are-the-staged-bytes', All(['byte'], lambda k: z3.Implies(
                    z3.And(k >= 0, k < dlen),
                    z3.Select(fa['arr'], b + h.thl.t + k) == z3.Select(tarr, k)))),
                ('redundant-length', be(fa['arr'], b + tl, 8) == tl),
                ('file-size', fa['size'] == b + tl + 8),
                ('nextpos', field_eq(c, S1['_nextpos'], b + tl + 8)),
                ('flushed', z3.Not(fa['dirty'])),
                ('returns-resolved-list', isinstance(r, VRef) and r.id == h.resolved.id),
            ] + lock_balanced(c, E, h)

        def rejected(c, E, r):
            fa = c.obj(h.file).f
            S1 = c.obj(h.self).f
            return [('file-untouched', z3.And(fa['arr'] == arr0, fa['size'] == fa0['size'])),
                    ('nextpos-unchanged', field_eq(c, S1['_nextpos'], h.nextpos.t))] \
                + lock_balanced(c, E, h)

        def failed(c, E, r):
            fa = c.obj(h.file).f
            S1 = c.obj(h.self).f
            return [committed_unchanged(fa),
                    ('file-truncated-to-committed-end', fa['size'] == b),
                    ('nextpos-unchanged', field_eq(c, S1['_nextpos'], h.nextpos.t)),
                    ('reader-buffers-dropped', z3.Not(c.obj(h.pool).f['stale']))] \
                + lock_balanced(c, E, h)
        return [
            Outcome('wrong-transaction', 'raise', StorageTransactionError, guard=z3.Not(same),
                    post=rejected),
            Outcome('voted', guard=same, post=voted,
                    result=lambda c, E: h.resolved),
            Outcome('io-error', 'raise', OSError_, guard=same, post=failed),
        ]


class TpcVoteCrash(TpcVote):
    """same function, explored with the crash-invariant hook (C01) and single-fault injection
    (C05) switched on"""
    callable_contract = False
    func = 'ZODB.FileStorage.FileStorage:FileStorage.tpc_vote'
    label = 'crash+fault'
    cases = ('same',)

    def hooks(self, c):
        hk = WriteSpec.hooks(self, c)
        return hk

    def setup(self, c, case=None):
        a = TpcVote.setup(self, c, case)
        h = ghost_of(c, a['self'])
        install_crash_hook(c, h, c.hooks)
        install_fault_hook(c, h, c.hooks)
        return a


# ======================================================================================
# _finish_finish / _finish / _abort / tpc_finish
# ======================================================================================
def voted_state(c, h):
    """requires of the finish phase: the data file holds the complete voted transaction"""
    fa = c.obj(h.file).f
    b = h.pos.t
    tl = be(fa['arr'], b + 8, 8)
    return [
        ('voted.nextpos', z3.And(h.nextpos.t == b + tl + 8, h.nextpos.t == fa['size'])),
        ('voted.length-sane', tl >= 23 + be(fa['arr'], b + 17, 2) + be(fa['arr'], b + 19, 2)
         + be(fa['arr'], b + 21, 2)),
        ('voted.redundant-length', be(fa['arr'], b + tl, 8) == tl),
        ('voted.checkpoint', z3.Select(fa['arr'], b + 16) == ord('c')),
        ('status-is-not-checkpoint', z3.And(h.tstatus.code_terms()[0] != ord('c'),
                                            h.tstatus.code_terms()[0] >= 0,
                                            h.tstatus.code_terms()[0] < 128)),
    ]


def order_check(c, first, then):
    """first (an event predicate) occurs before `then` in this path's event trace"""
    i1 = [k for k, e in enumerate(c.events) if first(e)]
    i2 = [k for k, e in enumerate(c.events) if then(e)]
    if not i2:
        return True
    if not i1:
        return False
    return min(i1) < min(i2) and all(any(a < b_ for a in i1) for b_ in i2)


class FinishFinish(WriteSpec):
    func = 'ZODB.FileStorage.FileStorage:FileStorage._finish_finish'
    props = ('C01', 'C04', 'C05', 'C20')

    def setup(self, c, case=None):
        h, t = self.mk(c, None, read_only=False)
        c.obj(h.file).f['dirty'] = z3.Bool(fresh_name('dirty'))
        c.obj(h.file).f['unsynced'] = z3.Bool(fresh_name('unsynced'))
        return {'self': h.self, 'tid': c.fresh_bytes(8, 'tid')}

    def hooks(self, c):
        hk = WriteSpec.hooks(self, c)

        def on_set(cc, recv, name, v, node):
            cc.event('setattr', recv.id, name)
        hk['setattr'] = on_set
        return hk

    def modifies(self, c, E):
        h = ghost_of(c, E['self'])
        return {(h.file.id, 'dirty'), (h.file.id, 'unsynced'), (h.self.id, '_pos'),
                (h.index.id, 'dom'), (h.index.id, 'val'), (h.self.id, '_ltid'),
                (h.self.id, 'dirty_oids'), (h.dirty.id, 'set')}

    def outcomes(self, c, E):
        h = ghost_of(c, E['self'])

        def post(c, E, r):
            S = c.obj(h.self).f
            fa = c.obj(h.file).f
            ix, ix0 = c.obj(h.index).f, E.old[h.index.id]
            ti = c.obj(h.tindex).f
            d = S['dirty_oids']
            dset = c.obj(d).f['set'] if isinstance(d, VRef) and c.obj(d).kind == 'pairset' else None
            empty_dirty = (isinstance(d, VRef) and c.obj(d).kind == 'list'
                           and not c.obj(d).meta.get('items'))
            return [
                ('forced-to-disk', z3.And(z3.Not(fa['dirty']), z3.Not(fa['unsynced']))),
                ('position-published', field_eq(c, S['_pos'], h.nextpos.t)),
                ('index-published', All(['oid'], lambda q: z3.And(
                    z3.Select(ix['dom'], q) == z3.Or(z3.Select(ix0['dom'], q),
                                                     z3.Select(ti['dom'], q)),
                    z3.Implies(z3.Select(ix['dom'], q),
                               z3.Select(ix['val'], q) == z3.If(
                                   z3.Select(ti['dom'], q), z3.Select(ti['val'], q),
                                   z3.Select(ix0['val'], q)))))),
                ('last-tid', b8_eq_num(c, S['_ltid'], bytes_num(c, E['tid']))),
                ('blob-dirty-list-forgotten', empty_dirty if dset is None else
                 All(['boid', 'btid'], lambda x, y: z3.Not(blobmodel.has(dset, x, y)))),
            ]
        return [Outcome('ok', post=post), Outcome('io-error', 'raise', OSError_)]

    def at_exit(self, c, E, kind, val):
        if kind != 'return':
            return []
        is_sync = lambda e: e[0] == 'fsync'
        is_flush = lambda e: e[0] == 'flush'
        publish = lambda e: e[0] == 'setattr' and e[2] in ('_pos', '_ltid') or e[0] == 'map-set'
        return [('order.flush-before-fsync', order_check(c, is_flush, is_sync)),
                ('order.fsync-before-publishing-position-and-index',
                 order_check(c, is_sync, publish)),
                ('order.fsync-happens', any(is_sync(e) for e in c.events))]


class FinishFinishFault(FinishFinish):
    callable_contract = False
    label = 'fault'

    def setup(self, c, case=None):
        a = FinishFinish.setup(self, c, case)
        install_fault_hook(c, ghost_of(c, a['self']), c.hooks)
        return a


class Finish(WriteSpec):
    func = 'ZODB.FileStorage.FileStorage:FileStorage._finish'
    props = ('C01', 'C04', 'C05')

    def setup(self, c, case=None):
        h, t = self.mk(c, None, read_only=False)
        install_crash_hook(c, h, c.hooks, allow_complete=True)
        fa = c.obj(h.file).f
        M.byte_range_facts(c, fa['arr'], h.pos.t, 23)
        return {'self': h.self, 'tid': c.fresh_bytes(8, 'tid'), 'u': h.user, 'd': h.descr,
                'e': h.ext}

    def requires(self, c, E):
        h = ghost_of(c, E['self'])
        return txn_facts(c, h) + voted_state(c, h)

    def modifies(self, c, E):
        h = ghost_of(c, E['self'])
        return {(h.file.id, '*'), (h.self.id, '_pos'), (h.index.id, 'dom'),
                (h.index.id, 'val'), (h.self.id, '_ltid'), (h.self.id, 'dirty_oids'),
                (h.dirty.id, 'set'), (h.pool.id, '*'), (h.tfile.id, '*')}

    def outcomes(self, c, E):
        h = ghost_of(c, E['self'])
        fa0 = c.obj(h.file).f
        arr0, b = fa0['arr'], h.pos.t
        st = h.tstatus.code_terms()[0]

        def post(c, E, r):
            fa = c.obj(h.file).f
            S = c.obj(h.self).f
            return [
                ('status-byte-flipped', z3.Select(fa['arr'], b + 16) == st),
                ('nothing-else-written', All(['byte'], lambda k: z3.Implies(
                    k != b + 16, z3.Select(fa['arr'], k) == z3.Select(arr0, k)))),
                ('size-unchanged', fa['size'] == fa0['size']),
                ('forced-to-disk', z3.And(z3.Not(fa['dirty']), z3.Not(fa['unsynced']))),
                ('position-published', field_eq(c, S['_pos'], h.nextpos.t)),
                ('last-tid', b8_eq_num(c, S['_ltid'], bytes_num(c, E['tid']))),
            ]

        def failed(c, E, r):
            fa = c.obj(h.file).f
            return [('storage-closed-after-failed-finish', fa['closed'] is True)]
        return [Outcome('ok', post=post),
                Outcome('io-error', 'raise', OSError_, post=failed)]

    def havoc(self, c, E, outcome):
        WriteSpec.havoc(self, c, E, outcome)
        if outcome.label == 'io-error':
            h = ghost_of(c, E['self'])
            c.obj(h.file).f['closed'] = True


class Close(WriteSpec):
    """FileStorage.close as seen by its callers (the index saving part is C09's)"""
    func = 'ZODB.FileStorage.FileStorage:FileStorage.close'
    props = ()
    verify = False

    def modifies(self, c, E):
        h = ghost_of(c, E['self'])
        return {(h.file.id, '*'), (h.pool.id, '*'), (h.tfile.id, '*')}

    def havoc(self, c, E, outcome):
        h = ghost_of(c, E['self'])
        c.obj(h.file).f['closed'] = True
        c.obj(h.tfile).f['closed'] = True
        c.obj(h.pool).f['closed'] = z3.BoolVal(True)

    def outcomes(self, c, E):
        return [Outcome('ok')]


def vote_state(c, h):
    """VOTE-STATE: either the transaction has been voted (its bytes lie beyond the committed end and
    _nextpos says so) or nothing lies beyond the committed end and no reader buffers stale bytes.
    _abort cuts the file only in the first state - a caller in any other state (e.g. after a vote
    that failed half-way) must clean up itself."""
    fa = c.obj(h.file).f
    S = c.obj(h.self).f
    np_, pos = S['_nextpos'], S['_pos']
    if not (isinstance(np_, VInt) and isinstance(pos, VInt)):
        return ('VOTE-STATE', False)
    return ('VOTE-STATE', z3.Or(
        z3.And(np_.t > pos.t, fa['size'] >= pos.t),
        z3.And(np_.t == 0, fa['size'] == pos.t, z3.Not(c.obj(h.pool).f['stale']))))


class Abort(WriteSpec):
    func = 'ZODB.FileStorage.FileStorage:FileStorage._abort'
    props = ('C01', 'C02', 'C05', 'C13')
    cases = ('voted', 'not-voted')

    def setup(self, c, case=None):
        h, t = self.mk(c, None, read_only=False)
        install_crash_hook(c, h, c.hooks)
        fa = c.obj(h.file).f
        if case == 'voted':
            c.assume(z3.And(h.nextpos.t > h.pos.t, fa['size'] >= h.pos.t))
        else:
            c.assume(z3.And(h.nextpos.t == 0, fa['size'] == h.pos.t,
                            z3.Not(c.obj(h.pool).f['stale'])))
        c.roles.nested_array(c.obj(h.dirty).f['set'], 'boid', 'btid')
        c.roles.nested_array(c.obj(h.blobfs).f['files'], 'boid', 'btid')
        return {'self': h.self}

    def requires(self, c, E):
        # (checked at every call site: the two setup cases above are exactly its two disjuncts)
        return [vote_state(c, ghost_of(c, E['self']))]

    def modifies(self, c, E):
        h = ghost_of(c, E['self'])
        return {(h.file.id, 'arr'), (h.file.id, 'size'), (h.file.id, 'unsynced'),
                (h.self.id, '_nextpos'), (h.pool.id, 'stale'), (h.dirty.id, 'set'),
                (h.blobfs.id, 'files')}

    def outcomes(self, c, E):
        h = ghost_of(c, E['self'])
        fa0 = c.obj(h.file).f
        arr0, b = fa0['arr'], h.pos.t
        d0 = c.obj(h.dirty).f['set']
        bf0 = c.obj(h.blobfs).f['files']

        def post(c, E, r):
            fa = c.obj(h.file).f
            S = c.obj(h.self).f
            d1 = c.obj(h.dirty).f['set']
            bf1 = c.obj(h.blobfs).f['files']
            return [
                ('file-ends-at-committed-end', fa['size'] == b),
                ('committed-prefix-unchanged', All(['byte'], lambda k: z3.Implies(
                    z3.And(k >= 0, k < b), z3.Select(fa['arr'], k) == z3.Select(arr0, k)))),
                ('nextpos-reset', field_eq(c, S['_nextpos'], z3.IntVal(0))),
                ('reader-buffers-dropped', z3.Not(c.obj(h.pool).f['stale'])),
                ('dirty-blob-files-removed', All(['boid', 'btid'], lambda x, y: z3.Implies(
                    blobmodel.has(d0, x, y), z3.Not(blobmodel.has(bf1, x, y))))),
                ('other-blob-files-kept', All(['boid', 'btid'], lambda x, y: z3.Implies(
                    z3.Not(blobmodel.has(d0, x, y)),
                    blobmodel.has(bf1, x, y) == blobmodel.has(bf0, x, y)))),
                ('dirty-list-empty', All(['boid', 'btid'],
                                         lambda x, y: z3.Not(blobmodel.has(d1, x, y)))),
            ]
        return [Outcome('ok', post=post)]


class BlobTpcAbort(Spec):
    """works for every storage using the mixin (FileStorage itself, the BlobStorage wrapper): the
    state is reached through self.dirty_oids and self.fshelper only"""
    func = 'ZODB.blob:BlobStorageMixin._blob_tpc_abort'
    props = ('C13', 'C05')
    assumptions = tuple(blobmodel.ASSUMPTIONS)

    def parts(self, c, selfv, old=None):
        S = old[selfv.id] if old is not None else c.obj(selfv).f
        dirty = S['dirty_oids']
        blobfs = c.obj(S['fshelper']).meta['fs']
        return dirty, blobfs

    def setup(self, c, case=None):
        blobfs = blobmodel.new_blobfs(c)
        dirty = blobmodel.new_dirty(c)
        fsh = blobmodel.new_fshelper(c, blobfs)
        me = c.new_obj('inst', 'ZODB.blob:BlobStorageMixin', {'dirty_oids': dirty, 'fshelper': fsh},
                       {'name': 'storage'})
        c.roles.nested_array(c.obj(dirty).f['set'], 'boid', 'btid')
        c.roles.nested_array(c.obj(blobfs).f['files'], 'boid', 'btid')
        return {'self': me}

    def modifies(self, c, E):
        dirty, blobfs = self.parts(c, E['self'])
        return {(dirty.id, 'set'), (blobfs.id, 'files')}

    def outcomes(self, c, E):
        dirty, blobfs = self.parts(c, E['self'])
        d0 = c.obj(dirty).f['set']
        bf0 = c.obj(blobfs).f['files']
        c.roles.nested_array(d0, 'boid', 'btid')
        c.roles.nested_array(bf0, 'boid', 'btid')

        def post(c, E, r):
            d1 = c.obj(dirty).f['set']
            bf1 = c.obj(blobfs).f['files']
            c.roles.nested_array(d1, 'boid', 'btid')
            c.roles.nested_array(bf1, 'boid', 'btid')
            return [
                ('dirty-blob-files-removed', All(['boid', 'btid'], lambda x, y: z3.Implies(
                    blobmodel.has(d0, x, y), z3.Not(blobmodel.has(bf1, x, y))))),
                ('other-blob-files-kept', All(['boid', 'btid'], lambda x, y: z3.Implies(
                    z3.Not(blobmodel.has(d0, x, y)),
                    blobmodel.has(bf1, x, y) == blobmodel.has(bf0, x, y)))),
                ('dirty-list-empty', All(['boid', 'btid'],
                                         lambda x, y: z3.Not(blobmodel.has(d1, x, y)))),
            ]
        return [Outcome('ok', post=post)]

    def _inv(self, c, fr):
        E = c.E
        dirty, blobfs = self.parts(c, E['self'])
        d0 = E.old[dirty.id]['set']
        bf0 = E.old[blobfs.id]['files']
        d1 = c.obj(dirty).f['set']
        bf1 = c.obj(blobfs).f['files']
        return [
            ('remaining-subset', All(['boid', 'btid'], lambda x, y: z3.Implies(
                blobmodel.has(d1, x, y), blobmodel.has(d0, x, y)))),
            ('popped-are-removed', All(['boid', 'btid'], lambda x, y: z3.Implies(
                z3.And(blobmodel.has(d0, x, y), z3.Not(blobmodel.has(d1, x, y))),
                z3.Not(blobmodel.has(bf1, x, y))))),
            ('others-kept', All(['boid', 'btid'], lambda x, y: z3.Implies(
                z3.Not(blobmodel.has(d0, x, y)),
                blobmodel.has(bf1, x, y) == blobmodel.has(bf0, x, y)))),
        ]

    def _havoc(self, c, fr):
        dirty, blobfs = self.parts(c, c.E['self'])
        c.obj(dirty).f['set'] = z3.Array(fresh_name('dirty'), I, blobmodel.AIB)
        c.obj(blobfs).f['files'] = z3.Array(fresh_name('files'), I, blobmodel.AIB)
        c.roles.nested_array(c.obj(dirty).f['set'], 'boid', 'btid')
        c.roles.nested_array(c.obj(blobfs).f['files'], 'boid', 'btid')

    @property
    def loops(self):
        return {0: LoopSpec(inv=self._inv, havoc=self._havoc)}


SPECS = [TryToResolve, Close, Store, DeleteObject, Begin, ClearTemp, Cp, TpcVote, FinishFinish, Finish,
         Abort, BlobTpcAbort]
VARIANTS = [TpcVoteCrash, FinishFinishFault]
INLINE = [
    'ZODB.BaseStorage:BaseStorage.set_max_oid',
    'ZODB.blob:BlobStorageMixin._blob_tpc_finish',
]


# ======================================================================================
# BaseStorage: new_oid, tpc_begin, tpc_abort, tpc_finish (FileStorage override), lastTransaction
# ======================================================================================
class NewOid(WriteSpec):
    func = 'ZODB.BaseStorage:BaseStorage.new_oid'
    props = ('C20',)
    cases = ('writable', 'read-only')

    def setup(self, c, case=None):
        h, t = self.mk(c, None, read_only=(case == 'read-only'))
        return {'self': h.self}

    def hooks(self, c):
        hk = WriteSpec.hooks(self, c)

        def on_set(cc, recv, name, v, node):
            if name == '_oid':
                h = ghost_of(cc, recv)
                cc.oblige('guarded.oid-counter-written-under-storage-lock',
                          cc.obj(h.lock).f['held'] > cc.E.old[h.lock.id]['held'], node,
                          assume_after=False)
        hk['setattr'] = on_set

        hk['trace_getattr'] = True
        return hk

    def modifies(self, c, E):
        h = ghost_of(c, E['self'])
        return {(h.self.id, '_oid')}

    def outcomes(self, c, E):
        h = ghost_of(c, E['self'])
        S = c.obj(h.self).f
        ro = S['_is_read_only'].t
        old = bytes_num(c, S['_oid'])

        def post(c, E, r):
            return [('result-is-old-counter-plus-one', b8_eq_num(c, r, old + 1)),
                    ('counter-advanced', b8_eq_num(c, c.obj(h.self).f['_oid'], old + 1))] \
                + lock_balanced(c, E, h)

        def same(c, E, r):
            return [('counter-unchanged', b8_eq_num(c, c.obj(h.self).f['_oid'], old))] \
                + lock_balanced(c, E, h)
        return [Outcome('read-only', 'raise', ReadOnlyError, guard=ro, post=same),
                Outcome('ok', guard=z3.And(z3.Not(ro), old < 2 ** 64 - 1),
                        result=lambda c, E: c.fresh_bytes(8, 'oid'), post=post),
                Outcome('exhausted', 'raise', 'ext:struct.error',
                        guard=z3.And(z3.Not(ro), old == 2 ** 64 - 1), post=same)]

    def at_exit(self, c, E, kind, val):
        # the read-modify-write of the counter happens inside one critical section
        h = ghost_of(c, E['self'])
        reads = [k for k, e in enumerate(c.events) if e[0] == 'getattr' and e[2] == '_oid']
        acq = [k for k, e in enumerate(c.events) if e[0] == 'acquire' and e[1].id == h.lock.id]
        ok = (not reads) or (bool(acq) and min(acq) < min(reads))
        return [('guarded.oid-counter-read-under-storage-lock', ok)]


class TpcBegin(WriteSpec):
    func = 'ZODB.BaseStorage:BaseStorage.tpc_begin'
    props = ('C04', 'C05', 'C03')
    cases = ('tid-none', 'tid-given', 'read-only', 'duplicate')

    def setup(self, c, case=None):
        h = M.mk_fs(c, in_txn=False, read_only=(case == 'read-only'))
        c.ghost[('fs', h.self.id)] = h
        bend_fn(h.g, c)
        timestamp.install(c.hooks)
        S = c.obj(h.self).f
        h.ts_obj = timestamp.new_ts(c)
        S['_ts'] = h.ts_obj
        if case == 'duplicate':
            S['_transaction'] = h.txn
            c.assume(c.obj(h.commit_lock).f['held'] == 1)
        else:
            c.assume(c.obj(h.commit_lock).f['held'] == 0)
        c.assume(c.obj(h.lock).f['held'] == 0)
        return {'self': h.self, 'transaction': h.txn,
                'tid': c.fresh_bytes(8, 'tid') if case == 'tid-given' else NONE,
                'status': VStr(codes=[z3.Int(fresh_name('status'))])}

    def requires(self, c, E):
        # LOCKINV from the calling thread's point of view (T3): the commit lock is held exactly when a
        # transaction is recorded; the caller does not hold the storage lock
        h = ghost_of(c, E['self'])
        S = c.obj(h.self).f
        recorded = isinstance(S['_transaction'], VOpaque)
        return [('LOCKINV', c.obj(h.commit_lock).f['held'] == (1 if recorded else 0)),
                ('storage-lock-not-held-by-the-caller', c.obj(h.lock).f['held'] == 0)]

    def hooks(self, c):
        hk = WriteSpec.hooks(self, c)

        def oattr(cc, v, name, node):
            if v.tag == 'transaction' and name in ('user', 'description', 'extension_bytes'):
                h = [x for k, x in cc.ghost.items() if isinstance(k, tuple) and k[0] == 'fs'][0]
                return {'user': h.user, 'description': h.descr, 'extension_bytes': h.ext}[name]
            return None
        hk['opaque_attr'] = oattr
        return hk

    def modifies(self, c, E):
        h = ghost_of(c, E['self'])
        s = h.self.id
        return {(s, '_transaction'), (s, '_ude'), (s, '_ts'), (s, '_tid'), (s, '_tstatus'),
                (s, '_nextpos'), (s, '_thl'), (h.tindex.id, 'dom'), (h.tfile.id, 'pos'),
                (h.resolved.id, 'len'), (h.commit_lock.id, 'held')}

    def outcomes(self, c, E):
        h = ghost_of(c, E['self'])
        S = c.obj(h.self).f
        ro = S['_is_read_only'].t
        dup = (isinstance(S['_transaction'], VOpaque) and
               S['_transaction'].t.eq(E['transaction'].t))
        lu, ld, le = h.user.length(), h.descr.length(), h.ext.length()
        fits = z3.And(lu <= 65535, ld <= 65535, le <= 65535)
        ts0 = c.obj(S['_ts']).f['raw'] if isinstance(S['_ts'], VRef) else None

        def begun(c, E, r):
            S1 = c.obj(h.self).f
            out = [
                ('LOCKINV.commit-lock-held', c.obj(h.commit_lock).f['held'] == 1),
                ('LOCKINV.transaction-recorded', isinstance(S1['_transaction'], VOpaque)
                 and S1['_transaction'].t.eq(E['transaction'].t)),
                ('storage-lock-released', c.obj(h.lock).f['held'] == 0),
                ('staging-cleared', z3.And(c.obj(h.tfile).f['pos'] == 0,
                                           c.obj(h.resolved).f['len'] == 0)),
                ('tindex-cleared', All(['oid'], lambda q: z3.Not(
                    z3.Select(c.obj(h.tindex).f['dom'], q)))),
            ]
            tid1 = bytes_num(c, S1['_tid'])
            if isinstance(E['tid'], VNone):
                out.append(('tid-later-than-every-earlier-tid-whatever-the-clock', tid1 > ts0))
            else:
                out.append(('tid-as-given', tid1 == bytes_num(c, E['tid'])))
            out.append(('timestamp-basis-follows-tid',
                        isinstance(S1['_ts'], VRef) and c.obj(S1['_ts']).f['raw'] == tid1))
            return out

        def ok_post(c, E, r):
            S1 = c.obj(h.self).f
            return begun(c, E, r) + [
                ('nextpos-reset', field_eq(c, S1['_nextpos'], z3.IntVal(0))),
                ('thl', field_eq(c, S1['_thl'], 23 + lu + ld + le)),
                ('status-recorded', contract.same_value(c, E['status'], S1['_tstatus']))]

        def untouched(c, E, r):
            return [('commit-lock-untouched',
                     c.obj(h.commit_lock).f['held'] == E.old[h.commit_lock.id]['held']),
                    ('storage-lock-released', c.obj(h.lock).f['held'] == 0)]
        if dup:
            return [Outcome('duplicate', 'raise', StorageTransactionError, post=untouched)]
        return [
            Outcome('read-only', 'raise', ReadOnlyError, guard=ro, post=untouched),
            Outcome('ok', guard=z3.And(z3.Not(ro), fits), post=ok_post),
            # over-long metadata: the exception leaves LOCKINV, so that the tpc_abort the
            # transaction manager is bound to call releases the lock
            Outcome('metadata-too-long', 'raise', M.FileStorageError,
                    guard=z3.And(z3.Not(ro), z3.Not(fits)), post=begun),
        ]


class TpcAbort(WriteSpec):
    func = 'ZODB.BaseStorage:BaseStorage.tpc_abort'
    props = ('C05', 'C13', 'C01')
    cases = ('same-voted', 'same-not-voted', 'other')

    def setup(self, c, case=None):
        h, t = self.mk(c, case, read_only=False)
        fa = c.obj(h.file).f
        if case == 'same-voted':
            c.assume(z3.And(h.nextpos.t > h.pos.t, fa['size'] >= h.pos.t))
        else:
            c.assume(z3.And(h.nextpos.t == 0, fa['size'] == h.pos.t,
                            z3.Not(c.obj(h.pool).f['stale'])))
        c.roles.nested_array(c.obj(h.dirty).f['set'], 'boid', 'btid')
        c.roles.nested_array(c.obj(h.blobfs).f['files'], 'boid', 'btid')
        return {'self': h.self, 'transaction': t}

    def requires(self, c, E):
        h = ghost_of(c, E['self'])
        return [('LOCKINV', c.obj(h.commit_lock).f['held'] == 1), vote_state(c, h)]

    def modifies(self, c, E):
        h = ghost_of(c, E['self'])
        return {(h.file.id, 'arr'), (h.file.id, 'size'), (h.file.id, 'unsynced'),
                (h.self.id, '_nextpos'), (h.pool.id, 'stale'), (h.dirty.id, 'set'),
                (h.blobfs.id, 'files'), (h.self.id, '_transaction'), (h.tindex.id, 'dom'),
                (h.tfile.id, 'pos'), (h.commit_lock.id, 'held')}

    def outcomes(self, c, E):
        h = ghost_of(c, E['self'])
        S = c.obj(h.self).f
        same = E['transaction'].t == S['_transaction'].t
        fa0 = c.obj(h.file).f
        arr0, b = fa0['arr'], h.pos.t
        d0 = c.obj(h.dirty).f['set']

        def aborted(c, E, r):
            fa = c.obj(h.file).f
            S1 = c.obj(h.self).f
            bf1 = c.obj(h.blobfs).f['files']
            d1 = c.obj(h.dirty).f['set']
            return [
                ('file-ends-at-committed-end', fa['size'] == b),
                ('committed-prefix-unchanged', All(['byte'], lambda k: z3.Implies(
                    z3.And(k >= 0, k < b), z3.Select(fa['arr'], k) == z3.Select(arr0, k)))),
                ('nextpos-reset', field_eq(c, S1['_nextpos'], z3.IntVal(0))),
                ('reader-buffers-dropped', z3.Not(c.obj(h.pool).f['stale'])),
                ('no-transaction', isinstance(S1['_transaction'], VNone)),
                ('commit-lock-released', c.obj(h.commit_lock).f['held'] == 0),
                ('staging-cleared', c.obj(h.tfile).f['pos'] == 0),
                ('tindex-cleared', All(['oid'], lambda q: z3.Not(
                    z3.Select(c.obj(h.tindex).f['dom'], q)))),
                ('dirty-blob-files-removed', All(['boid', 'btid'], lambda x, y: z3.Implies(
                    blobmodel.has(d0, x, y), z3.Not(blobmodel.has(bf1, x, y))))),
                ('dirty-list-empty', All(['boid', 'btid'],
                                         lambda x, y: z3.Not(blobmodel.has(d1, x, y)))),
            ] + lock_balanced(c, E, h)

        def ignored(c, E, r):
            fa = c.obj(h.file).f
            S1 = c.obj(h.self).f
            return [('without-effect', z3.And(
                fa['arr'] == arr0, fa['size'] == fa0['size'],
                c.obj(h.commit_lock).f['held'] == 1,
                c.obj(h.dirty).f['set'] == d0,
                c.obj(h.blobfs).f['files'] == E.old[h.blobfs.id]['files'])),
                ('transaction-kept', contract.same_value(c, S['_transaction'],
                                                         S1['_transaction']))] \
                + lock_balanced(c, E, h)
        return [Outcome('aborted', guard=same, post=aborted),
                Outcome('other-transaction-ignored', guard=z3.Not(same), post=ignored)]


class TpcFinish(WriteSpec):
    func = 'ZODB.FileStorage.FileStorage:FileStorage.tpc_finish'
    props = ('C01', 'C02', 'C04', 'C05')
    cases = ('same', 'other', 'same-callback')

    def setup(self, c, case=None):
        h, t = self.mk(c, case, read_only=False)
        fa = c.obj(h.file).f
        M.byte_range_facts(c, fa['arr'], h.pos.t, 23)
        c.obj(h.self).f['_tid'] = h.tid
        if case == 'same-callback':
            def cb(cc, args, kwargs, node):
                cc.event('callback', args[0])
                return NONE
            f = VFunc('spec', 'invalidation-callback', None, cb)
        else:
            f = NONE
        return {'self': h.self, 'transaction': t, 'f': f}

    def hooks(self, c):
        hk = WriteSpec.hooks(self, c)

        def on_set(cc, recv, name, v, node):
            cc.event('setattr', recv.id, name)
        hk['setattr'] = on_set
        return hk

    def requires(self, c, E):
        h = ghost_of(c, E['self'])
        return txn_facts(c, h) + voted_state(c, h)

    def modifies(self, c, E):
        h = ghost_of(c, E['self'])
        s = h.self.id
        return {(h.file.id, '*'), (s, '_pos'), (h.index.id, 'dom'), (h.index.id, 'val'),
                (s, '_ltid'), (s, 'dirty_oids'), (h.dirty.id, 'set'), (h.pool.id, '*'),
                (h.tfile.id, '*'), (s, '_ude'), (s, '_transaction'), (h.commit_lock.id, 'held'),
                (h.tindex.id, 'dom')}

    def outcomes(self, c, E):
        h = ghost_of(c, E['self'])
        S = c.obj(h.self).f
        same = E['transaction'].t == S['_transaction'].t
        fa0 = c.obj(h.file).f
        b = h.pos.t

        def done(c, E, r):
            fa = c.obj(h.file).f
            S1 = c.obj(h.self).f
            return [
                ('returns-tid', b8_eq_num(c, r, bytes_num(c, h.tid))),
                ('durable-before-return', z3.And(z3.Not(fa['dirty']), z3.Not(fa['unsynced']))),
                ('status-byte-flipped',
                 z3.Select(fa['arr'], b + 16) == h.tstatus.code_terms()[0]),
                ('position-published', field_eq(c, S1['_pos'], h.nextpos.t)),
                ('last-tid', b8_eq_num(c, S1['_ltid'], bytes_num(c, h.tid))),
                ('no-transaction', isinstance(S1['_transaction'], VNone)),
                ('commit-lock-released', c.obj(h.commit_lock).f['held'] == 0),
                ('staging-cleared', c.obj(h.tfile).f['pos'] == 0),
                ('pool-write-lock-released', z3.Not(c.obj(h.pool).f['writing'])),
            ] + lock_balanced(c, E, h)

        def rejected(c, E, r):
            fa = c.obj(h.file).f
            return [('without-effect', z3.And(fa['arr'] == fa0['arr'], fa['size'] == fa0['size'],
                                              c.obj(h.commit_lock).f['held'] == 1)),
                    ('pool-write-lock-released', z3.Not(c.obj(h.pool).f['writing']))] \
                + lock_balanced(c, E, h)

        def failed(c, E, r):
            S1 = c.obj(h.self).f
            return [('commit-lock-released', c.obj(h.commit_lock).f['held'] == 0),
                    ('no-transaction', isinstance(S1['_transaction'], VNone)),
                    ('pool-write-lock-released', z3.Not(c.obj(h.pool).f['writing']))] \
                + lock_balanced(c, E, h)
        return [Outcome('wrong-transaction', 'raise', StorageTransactionError,
                        guard=z3.Not(same), post=rejected),
                Outcome('finished', guard=same, post=done,
                        result=lambda c, E: h.tid),
                Outcome('io-error', 'raise', OSError_, guard=same, post=failed)]

    def at_exit(self, c, E, kind, val):
        if kind != 'return':
            return []
        h = ghost_of(c, E['self'])
        is_cb = lambda e: e[0] == 'callback'
        publish = lambda e: (e[0] == 'setattr' and e[2] in ('_pos', '_ltid')) or e[0] == 'map-set' \
            or e[0] == 'outcome:_finish'
        wl = lambda e: e[0] == 'pool-write-lock'
        unl = lambda e: e[0] == 'pool-write-unlock'
        fin = lambda e: e[0] == 'outcome:_finish'
        out = []
        if isinstance(E['f'], VFunc):
            out.append(('order.invalidation-callback-before-data-becomes-loadable',
                        order_check(c, is_cb, fin)))
        # readers are excluded while index and position change
        iw = [k for k, e in enumerate(c.events) if wl(e)]
        iu = [k for k, e in enumerate(c.events) if unl(e)]
        ifin = [k for k, e in enumerate(c.events) if fin(e)]
        out.append(('order.finish-inside-pool-write-lock',
                    (not ifin) or (bool(iw) and bool(iu) and min(iw) < min(ifin) < max(iu))))
        return out


SPECS += [NewOid, TpcBegin, TpcAbort, TpcFinish]


# ======================================================================================
# restore (copyTransactionsFrom / recovery write path)
# ======================================================================================
class Restore(WriteSpec):
    """FileStorage.restore: stages exactly one record (oid, the GIVEN serial, prev = current committed record,
    tloc = transaction start) holding the data, or - when the hinted transaction holds an identical record - a back
    pointer to it, or a zero pointer for an un-creation; a hint naming a transaction this storage does not have is
    ignored (data in full); and the oid counter covers the restored oid AS SOON AS the call returns (C20: an
    allocation made before the vote must not hand the id out again).
    ASSUMED at the call sites: _txn_find(tid, 0) returns the position of that transaction or raises UndoError;
    _data_find returns 0 or a record position (its own contract: contracts/recover.py)."""
    func = 'ZODB.FileStorage.FileStorage:FileStorage.restore'
    props = ('C17', 'C20')
    cases = ('data', 'uncreate', 'data-with-hint', 'other', 'same-readonly')
    assumptions = WriteSpec.assumptions + (
        'A-TXNFIND (restore): _txn_find(tid, 0) returns the position of the transaction with that tid or raises '
        'UndoError; _data_find returns 0 or the position of a record (hooked at the call site)',)

    def setup(self, c, case=None):
        h, t = self.mk(c, 'other' if case == 'other' else 'same', read_only=(case == 'same-readonly'))
        data = NONE if case == 'uncreate' else c.fresh_barr('data')
        hint = c.fresh_bytes(8, 'prev_txn') if case == 'data-with-hint' else NONE
        return {'self': h.self, 'oid': c.fresh_bytes(8, 'oid'), 'serial': c.fresh_bytes(8, 'serial'),
                'data': data, 'version': VStr(''), 'prev_txn': hint, 'transaction': t}

    def requires(self, c, E):
        h = ghost_of(c, E['self'])
        idx = c.obj(h.index).f
        out = M.RI_chain(h.F, h.g, idx['dom'], idx['val'], h.pos.t) + txn_facts(c, h)
        if isinstance(E['data'], VBytes):
            out.append(('data-nonempty', z3.And(E['data'].length() > 0, E['data'].length() < M.MAXPOS)))
        return out

    def hooks(self, c):
        hk = WriteSpec.hooks(self, c)

        def txn_find(cc, args, kwargs, node):
            if cc.choose([True, True], 'hinted-transaction-found') == 1:
                cc.event('hint-missing')
                raise RaiseSig(VExc(UndoError))
            p = cc.fresh_int('prev_txn_pos')
            cc.assume(z3.And(p.t >= 4, p.t < M.MAXPOS))
            return p

        def data_find(cc, args, kwargs, node):
            p = cc.fresh_int('prev_pos')
            cc.assume(z3.And(p.t >= 0, p.t < M.MAXPOS))
            cc.ghost['restore_prev_pos'] = p.t
            return p
        hk['call:ZODB.FileStorage.FileStorage:FileStorage._txn_find'] = txn_find
        hk['call:ZODB.FileStorage.FileStorage:FileStorage._data_find'] = data_find
        return hk

    def modifies(self, c, E):
        h = ghost_of(c, E['self'])
        return {(h.tfile.id, 'arr'), (h.tfile.id, 'size'), (h.tfile.id, 'pos'),
                (h.tfile.id, 'dirty'), (h.tfile.id, 'unsynced'),
                (h.tindex.id, 'dom'), (h.tindex.id, 'val'), (h.self.id, '_oid'), (h.file.id, 'pos')}

    def outcomes(self, c, E):
        h = ghost_of(c, E['self'])
        S = c.obj(h.self).f
        ro = S['_is_read_only'].t
        same = E['transaction'].t == S['_transaction'].t
        idx = c.obj(h.index).f
        o = bytes_num(c, E['oid'])
        has = z3.Select(idx['dom'], o)
        old_p = z3.If(has, z3.Select(idx['val'], o), 0)
        t0 = c.obj(h.tfile).f['pos']
        tf_old = c.obj(h.tfile).f['arr']
        here = h.pos.t + t0 + h.thl.t
        oldoid = bytes_num(c, S['_oid'])
        data = E['data']

        def oid_post(c, E):
            cur = c.obj(h.self).f['_oid']
            return [('oid-counter-covers-the-restored-oid-at-once',
                     b8_eq_num(c, cur, z3.If(o > oldoid, o, oldoid)))]

        def effect(c, E, res):
            tf = c.obj(h.tfile).f
            ti, ti0 = c.obj(h.tindex).f, E.old[h.tindex.id]
            r = rec(tf['arr'], t0)
            pp = c.ghost.get('restore_prev_pos')
            pointer = z3.BoolVal(True) if isinstance(data, VNone) else (
                (pp != 0) if pp is not None else z3.BoolVal(False))
            target = pp if pp is not None else z3.IntVal(0)
            out = [
                ('record.oid', r['oid'] == o),
                ('record.tid-is-the-given-serial', r['tid'] == bytes_num(c, E['serial'])),
                ('record.prev-is-current-committed-record', r['prev'] == old_p),
                ('record.tloc-is-transaction-start', r['tloc'] == h.pos.t),
                ('record.vlen-zero', r['vlen'] == 0),
                ('staged-prefix-unchanged', All(['byte'], lambda k: z3.Implies(
                    z3.And(k >= 0, k < t0), z3.Select(tf['arr'], k) == z3.Select(tf_old, k)))),
                ('tfile.size', tf['size'] >= tf['pos']),
                ('tindex.entry', z3.And(z3.Select(ti['dom'], o), z3.Select(ti['val'], o) == here)),
                ('tindex.others-unchanged', All(['oid'], lambda q: z3.Implies(
                    q != o, z3.And(z3.Select(ti['dom'], q) == z3.Select(ti0['dom'], q),
                                   z3.Select(ti['val'], q) == z3.Select(ti0['val'], q))))),
            ]
            if isinstance(data, VBytes):
                darr, doff, dlen = one_seg(data)
                out += [
                    ('record.plen', r['plen'] == z3.If(pointer, 0, dlen)),
                    ('record.data-or-pointer-to-the-identical-record', z3.If(
                        pointer, be(tf['arr'], t0 + 42, 8) == target, z3.BoolVal(True))),
                    ('record.data', All(['byte'], lambda k: z3.Implies(
                        z3.And(z3.Not(pointer), k >= 0, k < dlen),
                        z3.Select(tf['arr'], t0 + 42 + k) == z3.Select(darr, doff + k)))),
                    ('tfile.pos', tf['pos'] == t0 + 42 + z3.If(pointer, 8, dlen)),
                ]
            else:
                out += [('record.plen-zero', r['plen'] == 0),
                        ('record.zero-pointer-for-an-un-creation', be(tf['arr'], t0 + 42, 8) == 0),
                        ('tfile.pos', tf['pos'] == t0 + 50)]
            return out + oid_post(c, E) + lock_balanced(c, E, h)

        def nothing_staged(c, E, res):
            tf, tf0 = c.obj(h.tfile).f, E.old[h.tfile.id]
            ti, ti0 = c.obj(h.tindex).f, E.old[h.tindex.id]
            return [('nothing-staged', z3.And(tf['arr'] == tf0['arr'], tf['pos'] == tf0['pos'],
                                              tf['size'] == tf0['size'], ti['dom'] == ti0['dom'],
                                              ti['val'] == ti0['val']))] + lock_balanced(c, E, h)

        def untouched(c, E, res):
            return nothing_staged(c, E, res) + [
                ('oid-counter-unchanged', contract.same_value(c, E.old[h.self.id]['_oid'],
                                                              c.obj(h.self).f['_oid']))]
        live = z3.And(z3.Not(ro), same)
        return [
            Outcome('read-only', 'raise', ReadOnlyError, guard=ro, post=untouched),
            Outcome('wrong-transaction', 'raise', StorageTransactionError,
                    guard=z3.And(z3.Not(ro), z3.Not(same)), post=untouched),
            # prev_txn is only a HINT (IStorageRestoreable; the comment in restore): when the transaction it names is
            # not in this storage (packed away, or a partial copy) the record is written with its data in full
            Outcome('restored', guard=live, post=effect),
        ]


SPECS.append(Restore)
