"""C19 - contracts for ZODB.fsIndex.fsIndex over the abstract view.

view(self) : pairs (p, s) -> value, p = number of the 6-byte prefix, s = number of the 2-byte
suffix; the 8-byte key is p*65536+s and (lemma C19.order) numeric order of keys is the
lexicographic order of pairs.  Every postcondition is stated over the WHOLE view.
"""
import z3

from pyvc import btrees, contract
from pyvc.contract import LoopSpec, Outcome, Spec
from pyvc.engine import bytes_elems, be_num, as_z3_bool
from pyvc.values import I, NONE, VBool, VBytes, VExc, VInt, VNone, VRef, VTuple, fresh_name

from .common import KeyError_, ValueError_, U16, U48, inst

CLS = 'ZODB.fsIndex:fsIndex'


def HAS(f, p, s):
    return z3.And(z3.Select(f['dom'], p), z3.Select(z3.Select(f['bdom'], p), s))


def VAL(f, p, s):
    return z3.Select(z3.Select(f['bval'], p), s)


def LE(p1, s1, p2, s2):
    return z3.Or(p1 < p2, z3.And(p1 == p2, s1 <= s2))


def tree_fields(c, selfv, old=None):
    t = (old[selfv.id]['_data'] if old is not None else c.obj(selfv).f['_data'])
    return old[t.id] if old is not None else c.obj(t).f, t


def INV(f):
    p, s = z3.Ints('ip is')
    return [
        ('prefix-range', z3.ForAll([p], z3.Implies(z3.Select(f['dom'], p),
                                                   z3.And(p >= 0, p < U48)),
                                   patterns=[z3.Select(f['dom'], p)])),
        ('no-empty-bucket', z3.ForAll([p], z3.Implies(
            z3.Select(f['dom'], p),
            z3.Exists([s], z3.Select(z3.Select(f['bdom'], p), s))),
            patterns=[z3.Select(f['dom'], p)])),
        ('suffix-value-range', z3.ForAll([p, s], z3.Implies(
            HAS(f, p, s), z3.And(s >= 0, s < U16, VAL(f, p, s) >= 0, VAL(f, p, s) < U48)),
            patterns=[z3.Select(z3.Select(f['bdom'], p), s)])),
    ]


def key_ps(c, key):
    el = bytes_elems(c, key)
    return be_num(el[:6]), be_num(el[6:])


def view_eq(f1, f0, except_=None, newval=None, removed=False):
    """[(label, formula)]: view f1 equals view f0 except at pair except_=(kp,ks)"""
    p, s = z3.Ints('vp vs')
    if except_ is None:
        dom = z3.ForAll([p, s], HAS(f1, p, s) == HAS(f0, p, s))
        val = z3.ForAll([p, s], z3.Implies(HAS(f0, p, s), VAL(f1, p, s) == VAL(f0, p, s)))
    else:
        kp, ks = except_
        here = z3.And(p == kp, s == ks)
        if removed:
            dom = z3.ForAll([p, s], HAS(f1, p, s) == z3.And(HAS(f0, p, s), z3.Not(here)))
            val = z3.ForAll([p, s], z3.Implies(HAS(f1, p, s), VAL(f1, p, s) == VAL(f0, p, s)))
        else:
            dom = z3.ForAll([p, s], HAS(f1, p, s) == z3.Or(HAS(f0, p, s), here))
            val = z3.ForAll([p, s], z3.Implies(
                HAS(f1, p, s), VAL(f1, p, s) == z3.If(here, newval, VAL(f0, p, s))))
    return [('view-domain', dom), ('view-values', val)]


class FsIndexSpec(Spec):
    props = ('C19',)
    key_param = True
    mutates = False

    def mk_self(self, c):
        tree = btrees.new_tree(c, '_data')
        return inst(c, CLS, _data=tree)

    def setup(self, c, case=None):
        a = {'self': self.mk_self(c)}
        if self.key_param:
            a['key'] = c.fresh_bytes(8, 'key')
        return a

    def requires(self, c, E):
        f, _ = tree_fields(c, E['self'])
        r = [('inv.' + l, b) for l, b in INV(f)]
        return r

    def modifies(self, c, E):
        if not self.mutates:
            return set()
        t = c.obj(E['self']).f['_data']
        return {(t.id, 'dom'), (t.id, 'bdom'), (t.id, 'bval')}

    def old_new(self, c, E):
        f0, _ = tree_fields(c, E['self'], E.old)
        f1, _ = tree_fields(c, E['self'])
        return f0, f1


class GetItem(FsIndexSpec):
    func = 'ZODB.fsIndex:fsIndex.__getitem__'

    def outcomes(self, c, E):
        f0, _ = tree_fields(c, E['self'])
        kp, ks = key_ps(c, E['key'])
        return [
            Outcome('found', guard=HAS(f0, kp, ks),
                    result=lambda c, E: c.fresh_int('v'),
                    post=lambda c, E, r: [('value', isinstance(r, VInt) and r.t == VAL(f0, kp, ks))]),
            Outcome('missing', 'raise', KeyError_, guard=z3.Not(HAS(f0, kp, ks))),
        ]


class Get(FsIndexSpec):
    func = 'ZODB.fsIndex:fsIndex.get'
    cases = ('default-none', 'default-int', 'default-self')

    def setup(self, c, case=None):
        a = FsIndexSpec.setup(self, c, case)
        if case == 'default-none':
            a['default'] = NONE
        elif case == 'default-int':
            a['default'] = c.fresh_int('default')
        else:
            a['default'] = a['self']
        return a

    def outcomes(self, c, E):
        f0, _ = tree_fields(c, E['self'])
        kp, ks = key_ps(c, E['key'])
        d = E['default']
        return [
            Outcome('found', guard=HAS(f0, kp, ks),
                    result=lambda c, E: c.fresh_int('v'),
                    post=lambda c, E, r: [('value', isinstance(r, VInt) and r.t == VAL(f0, kp, ks))]),
            Outcome('absent', guard=z3.Not(HAS(f0, kp, ks)),
                    result=lambda c, E: d,
                    post=lambda c, E, r: [('default', contract.same_value(c, d, r))]),
        ]


class Contains(FsIndexSpec):
    func = 'ZODB.fsIndex:fsIndex.__contains__'

    def outcomes(self, c, E):
        f0, _ = tree_fields(c, E['self'])
        kp, ks = key_ps(c, E['key'])
        return [Outcome('ok', result=lambda c, E: c.fresh_bool('r'),
                        post=lambda c, E, r: [('iff-member',
                                               isinstance(r, VBool) and r.t == HAS(f0, kp, ks))])]


class HasKey(Contains):
    func = 'ZODB.fsIndex:fsIndex.has_key'


class SetItem(FsIndexSpec):
    func = 'ZODB.fsIndex:fsIndex.__setitem__'
    mutates = True

    def setup(self, c, case=None):
        a = FsIndexSpec.setup(self, c, case)
        a['value'] = c.fresh_int('value')
        return a

    def requires(self, c, E):
        v = E['value']
        return FsIndexSpec.requires(self, c, E) + [
            ('value-below-2^48', isinstance(v, VInt) and z3.And(v.t >= 0, v.t < U48)),
            ('key-is-8-bytes', isinstance(E['key'], VBytes) and E['key'].conc_len() == 8)]

    def outcomes(self, c, E):
        kp, ks = key_ps(c, E['key'])
        val = E['value'].t

        def post(c, E, r):
            f0, f1 = self.old_new(c, E)
            return view_eq(f1, f0, (kp, ks), val) + [('inv.' + l, b) for l, b in INV(f1)]
        return [Outcome('ok', post=post)]


class DelItem(FsIndexSpec):
    func = 'ZODB.fsIndex:fsIndex.__delitem__'
    mutates = True

    def outcomes(self, c, E):
        f0, _ = tree_fields(c, E['self'])
        kp, ks = key_ps(c, E['key'])

        def post_ok(c, E, r):
            f0, f1 = self.old_new(c, E)
            return view_eq(f1, f0, (kp, ks), removed=True) + \
                [('inv.' + l, b) for l, b in INV(f1)]

        def post_missing(c, E, r):
            f0, f1 = self.old_new(c, E)
            return view_eq(f1, f0) + [('inv.' + l, b) for l, b in INV(f1)]
        return [Outcome('ok', guard=HAS(f0, kp, ks), post=post_ok),
                Outcome('missing', 'raise', KeyError_, guard=z3.Not(HAS(f0, kp, ks)),
                        post=post_missing)]


class Clear(FsIndexSpec):
    func = 'ZODB.fsIndex:fsIndex.clear'
    mutates = True
    key_param = False

    def outcomes(self, c, E):
        def post(c, E, r):
            f0, f1 = self.old_new(c, E)
            p, s = z3.Ints('cp cs')
            return [('view-empty', z3.ForAll([p, s], z3.Not(HAS(f1, p, s))))] + \
                [('inv.' + l, b) for l, b in INV(f1)]
        return [Outcome('ok', post=post)]


class MinMaxKey(FsIndexSpec):
    is_min = True
    cases = ('none', 'key')

    def setup(self, c, case=None):
        a = {'self': self.mk_self(c)}
        a['key'] = NONE if case == 'none' else c.fresh_bytes(8, 'key')
        return a

    def outcomes(self, c, E):
        f0, _ = tree_fields(c, E['self'])
        key = E['key']
        p, s = z3.Ints('mp ms')
        if isinstance(key, VNone):
            cand = lambda pp, ss: z3.BoolVal(True)
        else:
            kp, ks = key_ps(c, key)
            if self.is_min:
                cand = lambda pp, ss: LE(kp, ks, pp, ss)
            else:
                cand = lambda pp, ss: LE(pp, ss, kp, ks)
        some = z3.Exists([p, s], z3.And(HAS(f0, p, s), cand(p, s)))

        def post(c, E, r):
            if not isinstance(r, VBytes) or r.conc_len() != 8:
                return [('result-is-8-bytes', False)]
            rp, rs = key_ps(c, r)
            q, t = z3.Ints('qp qs')
            best = z3.ForAll([q, t], z3.Implies(
                z3.And(HAS(f0, q, t), cand(q, t)),
                LE(rp, rs, q, t) if self.is_min else LE(q, t, rp, rs)))
            return [('member', HAS(f0, rp, rs)), ('within-bound', cand(rp, rs)),
                    ('extremal', best)]
        return [Outcome('found', guard=some, result=lambda c, E: c.fresh_bytes(8, 'r'), post=post),
                Outcome('none', 'raise', ValueError_, guard=z3.Not(some))]


class MinKey(MinMaxKey):
    func = 'ZODB.fsIndex:fsIndex.minKey'
    is_min = True


class MaxKey(MinMaxKey):
    func = 'ZODB.fsIndex:fsIndex.maxKey'
    is_min = False


def lemma_order():
    """C19.order: for pairs in range, lexicographic order of (p,s) <=> numeric order of the
    8-byte keys p*65536+s; and the 8-byte big-endian number splits as prefix*65536+suffix."""
    p1, s1, p2, s2 = z3.Ints('p1 s1 p2 s2')
    rng = z3.And(s1 >= 0, s1 < U16, s2 >= 0, s2 < U16, p1 >= 0, p2 >= 0)
    goals = [('lex-iff-numeric', z3.Implies(rng, LE(p1, s1, p2, s2) ==
                                            (p1 * U16 + s1 <= p2 * U16 + s2)))]
    bs = [z3.Int('b%d' % i) for i in range(8)]
    rb = z3.And([z3.And(b >= 0, b < 256) for b in bs])
    goals.append(('split', z3.Implies(rb, z3.And(
        be_num(bs) == be_num(bs[:6]) * U16 + be_num(bs[6:]),
        be_num(bs[6:]) >= 0, be_num(bs[6:]) < U16, be_num(bs[:6]) >= 0, be_num(bs[:6]) < U48))))
    return goals


SPECS = [GetItem, Get, Contains, HasKey, SetItem, DelItem, Clear, MinKey, MaxKey]
INLINE = ['ZODB.fsIndex:num2str', 'ZODB.fsIndex:str2num', 'ZODB.fsIndex:prefix_plus_one',
          'ZODB.fsIndex:prefix_minus_one', 'ZODB.fsIndex:ensure_bytes']
