"""C19 / C09 - fsIndex.save / fsIndex.load, the streaming format of the .index file: pos, then one (prefix, packed
bucket) pair per prefix, then the end marker None.
save: the stream holds the position first, every prefix of the index exactly once with ITS bucket's packed form, and
the end marker LAST.  load: the index read back gets, for every pair of the stream, a bucket OF ITS OWN unpacked from
that pair's string (no two prefixes share a bucket object), and load returns only after the END MARKER was read - a
stream that is cut short surfaces as the unpickler's error (which _restore_index turns into "no usable index"), never
as a shorter index.  Pickler / Unpickler are a stream of values (A-PICKLE-STREAM); bucket packing is uninterpreted."""
import z3

from pyvc import prims
from pyvc.contract import LoopSpec, Outcome, Spec
from pyvc.engine import ContractStale, RaiseSig, Unsupported
from pyvc.values import (B, I, NONE, Obj, VBool, VBytes, VClass, VExc, VFunc, VInt, VNone, VOpaque, VRef, VStr,
                         VTuple, fresh_name)

from .common import inst

FSI = 'ZODB.fsIndex:fsIndex'
ASSUMPTIONS = ('A-PICKLE-STREAM: Pickler.dump appends one value to the file, Unpickler.load returns the next value or '
               'raises EOFError at the end of the file; the fast flag does not change the values',
               'fsBucket.toString / fromString are inverse (BTrees C code); fromString re-initialises and returns the '
               'bucket it is called on')


class ItemsCursor:
    def __init__(self, ctx, o, what, ref):
        self.o = o

    def havoc(self, ctx):
        pass

    def has_more(self, ctx):
        return z3.Bool(fresh_name('more_prefixes'))

    def next(self, ctx):
        g = ctx.ghost['io']
        k = ctx.fresh_opaque('prefix')
        b = ctx.fresh_opaque('bucket')
        g['cur'] = (k, b)
        g['dumped_this'] = 0
        return VTuple([k, b])


prims.KIND_ITER['prefixitems'] = lambda ctx, o, what, ref: ItemsCursor(ctx, o, what, ref)


class Save(Spec):
    func = FSI + '.save'
    props = ('C19', 'C09')
    assumptions = ASSUMPTIONS

    def setup(self, c, case=None):
        data = c.fresh_opaque('prefix_tree')
        me = inst(c, FSI, _data=data)
        c.ghost['io'] = {'stream': [], 'cur': None, 'dumped_this': 0, 'phase': 'start', 'file': None}
        return {'self': me, 'pos': c.fresh_int('pos'), 'fname': c.fresh_opaque('fname')}

    def hooks(self, c):
        g = lambda cc: cc.ghost['io']

        def ometh(cc, v, name, args, kwargs, node):
            if v.tag == 'prefix_tree' and name == 'items':
                return cc.new_obj('prefixitems', None, {}, {'name': '_data.items()'})
            if v.tag == 'bucket' and name == 'toString':
                return VOpaque(z3.Const(fresh_name('packed'), Obj), 'packed:%d' % id(v))
            if v.tag == 'pickler' and name == 'dump':
                gg = g(cc)
                val = args[0]
                if gg['phase'] == 'start':
                    cc.oblige('stream.position-first', val is cc.E['pos'] or (
                        isinstance(val, VInt) and val.t.eq(cc.E['pos'].t)), node, assume_after=False)
                    gg['phase'] = 'pairs'
                elif isinstance(val, VNone):
                    cc.oblige('stream.end-marker-only-after-the-last-pair', gg['phase'] == 'pairs' and
                              gg.get('loop_done', False), node, assume_after=False)
                    gg['phase'] = 'ended'
                else:
                    cur = gg['cur']
                    ok = gg['phase'] == 'pairs' and cur is not None and isinstance(val, VTuple) and \
                        len(val.items) == 2 and val.items[0] is cur[0] and isinstance(val.items[1], VOpaque) and \
                        val.items[1].tag == 'packed:%d' % id(cur[1])
                    cc.oblige('stream.pair-is-(this prefix, ITS bucket packed)', ok, node, assume_after=False)
                    gg['dumped_this'] += 1
                return NONE
            return None

        def osetattr(cc, v, name, val, node):
            return True if v.tag == 'pickler' else None

        def pickler(cc, interp, args, kwargs, node):
            return cc.fresh_opaque('pickler')
        return {'opaque_method': ometh, 'opaque_setattr': osetattr, 'opaque_is_none': lambda cc, v: False,
                'construct:ZODB._compat:Pickler': pickler}

    @property
    def loops(self):
        def inv(cc, fr):
            g = cc.ghost['io']
            return [('position-written-before-the-pairs', g['phase'] == 'pairs'),
                    ('every-prefix-met-so-far-dumped-exactly-once', g['cur'] is None or g['dumped_this'] == 1)]

        def hv(cc, fr):
            cc.ghost['io'].update(cur=None, dumped_this=0)

        def on_exit(cc, fr):
            cc.ghost['io']['loop_done'] = True
        none = lambda cc, fr: NONE
        return {0: LoopSpec(inv=inv, havoc=hv, on_exit=on_exit, kinds={'k': none, 'v': none})}

    def modifies(self, c, E):
        return set()

    def outcomes(self, c, E):
        return [Outcome('saved', result=lambda cc, E: NONE, post=lambda cc, E, r: [
            ('stream-ends-with-the-end-marker', cc.ghost['io']['phase'] == 'ended')])]


class Load(Spec):
    func = FSI + '.load'
    props = ('C19', 'C09')
    assumptions = ASSUMPTIONS

    def setup(self, c, case=None):
        c.ghost['io'] = {'made': [], 'stored': [], 'ended': False, 'cur': None, 'cur_bucket': None, 'stored_this': 0}
        return {'class_': VClass(FSI), 'fname': c.fresh_opaque('fname')}

    def hooks(self, c):
        g = lambda cc: cc.ghost['io']

        def unpickler(cc, *a):
            return cc.fresh_opaque('unpickler')

        def ometh(cc, v, name, args, kwargs, node):
            gg = g(cc)
            if v.tag == 'unpickler' and name == 'load':
                if 'pos' not in gg:
                    gg['pos'] = cc.fresh_int('saved_pos')
                    return gg['pos']
                i = cc.choose([True, True, True], 'next-value')
                if i == 0:
                    gg['ended'] = True
                    return NONE
                if i == 1:
                    raise RaiseSig(VExc('builtins:EOFError'))
                k, s = cc.fresh_bytes(6, 'prefix'), cc.fresh_opaque('packed')
                gg['cur'] = (k, s)
                gg['made_before'] = len(gg['made'])
                gg['cur_bucket'] = None
                gg['stored_this'] = 0
                return VTuple([k, s])
            if v.tag == 'new_bucket' and name == 'fromString':
                gg['unpacked'] = gg.get('unpacked', []) + [(v, args[0])]
                return v
            if v.tag == 'prefix_tree' and name == '__setitem__':
                return None
            return None

        def bucket(cc, interp, args, kwargs, node):
            b = cc.fresh_opaque('new_bucket')
            g(cc)['made'].append(b)
            return b

        def index(cc, interp, args, kwargs, node):
            t = cc.new_obj('prefixtree', None, {}, {'name': '_data'})
            r = inst(cc, FSI, _data=t)
            g(cc)['index'] = r
            return r

        def ensure(cc, args, kwargs, node):
            return args[0]
        return {'opaque_method': ometh, 'opaque_is_none': lambda cc, v: False,
                'opaque_truthy': lambda cc, v: True,
                'construct:ZODB._compat:Unpickler': lambda cc, interp, a, k, n: cc.fresh_opaque('unpickler'),
                'prim:BTrees.fsBTree.fsBucket': bucket, 'construct:ext:BTrees.fsBTree.fsBucket': bucket,
                'construct:' + FSI: index, 'call:ZODB.fsIndex:ensure_bytes': ensure}

    @property
    def loops(self):
        def inv(cc, fr):
            g = cc.ghost['io']
            return [('every-pair-read-so-far-was-stored-once-in-a-bucket-of-its-own',
                     g['cur'] is None or g['stored_this'] == 1)]

        def hv(cc, fr):
            cc.ghost['io'].update(cur=None, stored_this=0)
        none = lambda cc, fr: NONE
        return {0: LoopSpec(inv=inv, havoc=hv, kinds={'v': none, 'k': none})}

    def modifies(self, c, E):
        return set()

    def outcomes(self, c, E):
        g = c.ghost['io']

        def post(cc, E, r):
            ok = isinstance(r, VRef) and cc.obj(r).kind == 'pydict'
            if not ok:
                return [('returns-dict(pos=..., index=...)', False)]
            d = dict((k.s, v) for k, v in cc.obj(r).meta['pairs'] if isinstance(k, VStr))
            return [('returns-only-after-the-END-MARKER-was-read (a cut stream is not a shorter index)', g['ended']),
                    ('position-as-saved', d.get('pos') is g.get('pos')),
                    ('the-index-that-was-filled', isinstance(d.get('index'), VRef) and 'index' in g and
                     d['index'].id == g['index'].id)]
        return [Outcome('loaded', post=post, result=lambda cc, E: cc.fresh_opaque('info')),
                Outcome('cut-short', 'raise', 'builtins:EOFError')]


def prefixtree_setitem(c, recv, o, key, v, node):
    g = c.ghost['io']
    cur = g['cur']
    made_here = [b for b in g['made'][g.get('made_before', 0):] if b is v]      # made AFTER this pair was read
    unpacked = [u for u in g.get('unpacked', []) if u[0] is v]
    fresh = bool(made_here) and all(not (s[1] is v) for s in g['stored'])
    c.oblige('store.under-this-pairs-prefix', cur is not None and key is cur[0], node, assume_after=False)
    c.oblige('store.a-bucket-OF-ITS-OWN (made for this pair, shared with no other prefix)', fresh, node,
             assume_after=False)
    c.oblige('store.unpacked-from-this-pairs-string', cur is not None and bool(unpacked) and
             unpacked[-1][1] is cur[1], node, assume_after=False)
    g['stored'].append((key, v))
    g['stored_this'] += 1


prims.KIND_SETITEM['prefixtree'] = prefixtree_setitem

SPECS = [Save, Load]
INLINE = []
