"""Specification vocabulary for FileStorage (DESIGN section 4): image algebra, ghost chains,
representation invariant RI, symbolic FileStorage instance factory, FilePool ghost model."""
import z3

from pyvc import prims
from pyvc.engine import RaiseSig, Unsupported, be_num, bytes_elems, bytes_num
from pyvc.values import (B, I, NONE, Obj, VBool, VBytes, VCtxMgr, VExc, VFunc, VInt, VNone,
                         VOpaque, VRef, VStr, VTuple, fresh_name)

from .common import inst

FS = 'ZODB.FileStorage.FileStorage:FileStorage'
FMT = 'ZODB.FileStorage.format:FileStorageFormatter'
TEMPFMT = 'ZODB.FileStorage.FileStorage:TempFormatter'
DH = 'ZODB.FileStorage.format:DataHeader'
TH = 'ZODB.FileStorage.format:TxnHeader'
CorruptedDataError = 'ZODB.FileStorage.format:CorruptedDataError'
CorruptedError = 'ZODB.FileStorage.format:CorruptedError'
FileStorageError = 'ZODB.FileStorage.FileStorage:FileStorageError'
FileStorageQuotaError = 'ZODB.FileStorage.FileStorage:FileStorageQuotaError'
FileStorageFormatError = 'ZODB.FileStorage.FileStorage:FileStorageFormatError'
CorruptedTransactionError = 'ZODB.FileStorage.FileStorage:CorruptedTransactionError'
StorageSystemError = 'ZODB.POSException:StorageSystemError'

MAXPOS = 2 ** 62
AIB = z3.ArraySort(I, B)


def be(arr, pos, n):
    """big-endian number of arr[pos:pos+n]"""
    t = z3.IntVal(0)
    for k in range(n):
        t = t + z3.Select(arr, pos + k) * (256 ** (n - 1 - k))
    return t


def rec(arr, p):
    """fields of the data record header at p (format.py header comment)"""
    return {'oid': be(arr, p, 8), 'tid': be(arr, p + 8, 8), 'prev': be(arr, p + 16, 8),
            'tloc': be(arr, p + 24, 8), 'vlen': be(arr, p + 32, 2), 'plen': be(arr, p + 34, 8),
            'back': be(arr, p + 42, 8)}


def txn(arr, p):
    return {'tid': be(arr, p, 8), 'tl': be(arr, p + 8, 8), 'status': z3.Select(arr, p + 16),
            'ul': be(arr, p + 17, 2), 'dl': be(arr, p + 19, 2), 'el': be(arr, p + 21, 2)}


def byte_range_facts(c, arr, lo, n):
    for k in range(n):
        t = z3.Select(arr, z3.simplify(lo + k))
        c.assume(z3.And(t >= 0, t < 256))


class RecFuns:
    """Ghost functions of a file image F: oidF(p) = be(F,p,8) ... (conservative extension: each
    is defined by a term).  The definitions are never given to the solver as quantified axioms:
    `link(c, p)` adds the ground instance at a position p, and is called wherever a path reads
    a header (own instantiation at the terms the path reads, DESIGN 3.5)."""

    def __init__(self, c, arr, tag='F'):
        self.arr = arr
        n = fresh_name(tag)
        mk = lambda nm: z3.Function('%s_%s' % (nm, n), I, I)
        self.oid, self.tid, self.prev, self.tloc = mk('oid'), mk('tid'), mk('prev'), mk('tloc')
        self.vlen, self.plen, self.back = mk('vlen'), mk('plen'), mk('back')
        c.ghost.setdefault('recfuns', {})[arr.get_id()] = self
        self.linked = set()

    def link(self, c, p):
        p = z3.simplify(p)
        k = p.get_id()
        if k in self.linked:
            return
        self.linked.add(k)
        r = rec(self.arr, p)
        byte_range_facts(c, self.arr, p, 50)
        for fn, key in ((self.oid, 'oid'), (self.tid, 'tid'), (self.prev, 'prev'),
                        (self.tloc, 'tloc'), (self.vlen, 'vlen'), (self.plen, 'plen'),
                        (self.back, 'back')):
            c.assume(fn(p) == r[key])


class TxnFuns:
    """ghost functions of the transaction header fields of an image (ground-linked, see RecFuns);
    trl(b) is the redundant length stored after the records: be(A, b + tl(b), 8)"""

    def __init__(self, c, arr, tag='T'):
        self.arr = arr
        n = fresh_name(tag)
        mk = lambda nm: z3.Function('%s_%s' % (nm, n), I, I)
        self.tid, self.tl, self.status = mk('ttid'), mk('tl'), mk('status')
        self.ul, self.dl, self.el, self.trl = mk('ul'), mk('dl'), mk('el'), mk('trl')
        c.ghost.setdefault('txnfuns', {})[arr.get_id()] = self
        self.linked = set()

    def hdrlen(self, b):
        return 23 + self.ul(b) + self.dl(b) + self.el(b)

    def link(self, c, b):
        b = z3.simplify(b)
        k = b.get_id()
        if k in self.linked:
            return
        self.linked.add(k)
        t = txn(self.arr, b)
        byte_range_facts(c, self.arr, b, 23)
        for fn, key in ((self.tid, 'tid'), (self.tl, 'tl'), (self.status, 'status'),
                        (self.ul, 'ul'), (self.dl, 'dl'), (self.el, 'el')):
            c.assume(fn(b) == t[key])
        byte_range_facts(c, self.arr, z3.simplify(b + t['tl']), 8)
        c.assume(self.trl(b) == be(self.arr, b + t['tl'], 8))


def link_at(c, arr, p):
    F = c.ghost.get('recfuns', {}).get(arr.get_id())
    if F is not None:
        F.link(c, p)


class Ghost:
    """ghost chain structure of the committed image (DESIGN 4.3)"""

    def __init__(self, c, tag='g'):
        n = fresh_name(tag)
        self.chain = z3.Array('chain_' + n, I, AIB)     # oid -> pos -> Bool
        self.rank = z3.Array('rank_' + n, I, I)         # pos -> Int (0 = current revision)
        self.succ = z3.Array('succ_' + n, I, I)         # pos -> pos of the next newer revision
        self.vrec = z3.Array('vrec_' + n, I, B)         # pos is a valid committed record
        self.drec = z3.Array('drec_' + n, I, I)         # pos -> record holding its data (0 none)

    def inchain(self, o, p):
        return z3.Select(z3.Select(self.chain, o), p)


def register_roles(c, F, g, index_dom, index_val):
    r = c.roles
    r.nested_array(g.chain, 'oid', 'pos')
    for a in (g.rank, g.succ, g.vrec, g.drec):
        r.array(a, 'pos')
    for f in (F.oid, F.tid, F.prev, F.tloc, F.vlen, F.plen, F.back):
        r.func(f, ['pos'])
    r.array(index_dom, 'oid')
    r.array(index_val, 'oid')


def RI_chain(F, g, index_dom, index_val, pos):
    """representation invariant relating index, prev-chains and back-pointers of the committed
    image (F.arr, size pos).  F: RecFuns, g: Ghost.  -> [(label, Q)]  (roles: oid / pos)"""
    from pyvc.ground import All
    inc = g.inchain
    rank = lambda p: z3.Select(g.rank, p)
    succ = lambda p: z3.Select(g.succ, p)
    drec = lambda p: z3.Select(g.drec, p)
    vrec = lambda p: z3.Select(g.vrec, p)
    out = [
        ('index-heads', All(['oid'], lambda o: z3.Implies(
            z3.Select(index_dom, o),
            z3.And(inc(o, z3.Select(index_val, o)), rank(z3.Select(index_val, o)) == 0,
                   o >= 0, o < 2 ** 64)))),
        ('chain-records', All(['oid', 'pos'], lambda o, p: z3.Implies(
            inc(o, p), z3.And(vrec(p), F.oid(p) == o, rank(p) >= 0)))),
        ('chain-prev', All(['oid', 'pos'], lambda o, p: z3.Implies(
            z3.And(inc(o, p), F.prev(p) != 0),
            z3.And(inc(o, F.prev(p)), rank(F.prev(p)) == rank(p) + 1)))),
        ('chain-tids-decrease', All(['oid', 'pos', 'pos'], lambda o, p, q: z3.Implies(
            z3.And(inc(o, p), inc(o, q), rank(p) < rank(q)), F.tid(p) > F.tid(q)))),
        ('chain-rank-injective', All(['oid', 'pos', 'pos'], lambda o, p, q: z3.Implies(
            z3.And(inc(o, p), inc(o, q), rank(p) == rank(q)), p == q))),
        ('chain-contiguous', All(['oid', 'pos', 'pos'], lambda o, p, q: z3.Implies(
            z3.And(inc(o, p), inc(o, q), rank(q) > rank(p)), F.prev(p) != 0))),
        ('chain-succ', All(['oid', 'pos'], lambda o, p: z3.Implies(
            z3.And(inc(o, p), rank(p) > 0),
            z3.And(inc(o, succ(p)), F.prev(succ(p)) == p, rank(succ(p)) == rank(p) - 1)))),
        ('valid-records', All(['pos'], lambda p: z3.Implies(
            vrec(p),
            z3.And(p >= 4, p + 42 + z3.If(F.plen(p) == 0, 8, F.plen(p)) <= pos,
                   F.vlen(p) == 0, F.plen(p) >= 0, F.prev(p) >= 0, F.prev(p) < p,
                   z3.Implies(z3.And(F.plen(p) == 0, F.back(p) != 0),
                              z3.And(vrec(F.back(p)), F.back(p) < p, F.back(p) > 0)),
                   # drec: the record that holds the data of revision p
                   drec(p) == z3.If(F.plen(p) != 0, p,
                                    z3.If(F.back(p) == 0, 0, drec(F.back(p)))),
                   drec(p) >= 0, drec(p) <= p)))),
    ]
    return out


# --------------------------------------------------------------------------------------
# FilePool ghost model (assumed contract of the real FilePool: reader/writer exclusion)
# --------------------------------------------------------------------------------------
POOL_ASSUMPTION = ('A-FILEPOOL: FilePool.get() yields a read handle on the flushed image; '
                   'write_lock() excludes all readers; flush() = write_lock + close idle handles; '
                   'ghost `stale`: some pooled handle may buffer bytes that are no longer in the file')


def new_pool(c, main_file_ref, stale=False):
    return c.new_obj('filepool', None, {'stale': z3.BoolVal(stale) if isinstance(stale, bool)
                                        else stale, 'writing': z3.BoolVal(False),
                                        'closed': z3.BoolVal(False)},
                     {'main': main_file_ref, 'name': '_files'})


def pool_method(c, interp, ref, o, name, args, kwargs, node):
    main = o.meta['main']
    if name == 'get':
        def enter(cc):
            mo = cc.obj(main)
            stale = o.f['stale']
            i = cc.choose([z3.Not(stale), stale], 'pool-stale')
            if i == 0:
                r = prims.new_file(cc, 'reader', arr=mo.f['arr'], size=mo.f['size'], mode='rb')
            else:
                # a stale read-ahead buffer: the reader may return arbitrary bytes
                r = prims.new_file(cc, 'reader', mode='rb')
            cc.obj(r).meta['reader_of'] = main
            return r
        return VCtxMgr(enter, lambda cc: None)
    if name == 'write_lock':
        def enter(cc):
            o.f['writing'] = z3.BoolVal(True)
            cc.event('pool-write-lock', ref)
            return NONE

        def exit_(cc):
            o.f['writing'] = z3.BoolVal(False)
            cc.event('pool-write-unlock', ref)
        return VCtxMgr(enter, exit_)
    if name == 'flush':
        h = c.hooks.get('io_fault')
        o.f['stale'] = z3.BoolVal(False)
        c.event('pool-flush', ref)
        return NONE
    if name == 'empty':
        # closes the idle handles only; handles checked out by running loads survive unless
        # the caller holds the pool's write lock (then nothing is checked out)
        o.f['stale'] = z3.simplify(z3.And(o.f['stale'], z3.Not(o.f['writing'])))
        c.event('pool-empty', ref)
        return NONE
    if name == 'close':
        o.f['closed'] = z3.BoolVal(True)
        o.f['stale'] = z3.BoolVal(False)
        c.event('pool-close', ref)
        return NONE
    raise Unsupported('FilePool method %s' % name, node)


prims.KIND_METHOD['filepool'] = pool_method


def mark_pool_stale(c, fs_self):
    """called by the truncate/rename hooks: bytes disappear from under pooled readers"""
    pool = c.obj(fs_self).f.get('_files')
    if isinstance(pool, VRef):
        c.obj(pool).f['stale'] = z3.BoolVal(True)


# --------------------------------------------------------------------------------------
# symbolic FileStorage instance
# --------------------------------------------------------------------------------------

class FSHandles:
    pass


def mk_fs(c, in_txn=None, read_only=None, with_ghost=True, quota='sym', cls=FS):
    """A symbolic open FileStorage.  in_txn: None (symbolic) / True / False."""
    h = FSHandles()
    h.file = prims.new_file(c, '_file', mode='r+b')
    h.tfile = prims.new_file(c, '_tfile', mode='w+b')
    h.index = prims.new_map(c, 'bytes8', 'int', '_index', sorted_=True, cls='ZODB.fsIndex:fsIndex')
    h.tindex = prims.new_map(c, 'bytes8', 'int', '_tindex')
    h.lock = prims.new_lock(c, '_lock', reentrant=True, held=z3.Int(fresh_name('lock_held')))
    h.commit_lock = prims.new_lock(c, '_commit_lock', reentrant=False,
                                   held=z3.Int(fresh_name('clock_held')))
    c.assume(c.obj(h.lock).f['held'] >= 0)
    ch = c.obj(h.commit_lock).f['held']
    c.assume(z3.Or(ch == 0, ch == 1))
    h.pool = new_pool(c, h.file, stale=z3.Bool(fresh_name('pool_stale')))
    h.tfmt = inst(c, TEMPFMT, _file=h.tfile)
    h.resolved = prims.new_slist(c, 'bytes8', '_resolved')
    h.pos = c.fresh_int('_pos')
    h.nextpos = c.fresh_int('_nextpos')
    h.thl = c.fresh_int('_thl')
    h.tid = c.fresh_bytes(8, '_tid')
    h.ltid = c.fresh_bytes(8, '_ltid')
    h.oid = c.fresh_bytes(8, '_oid')
    h.ts = c.fresh_opaque('TimeStamp')
    if read_only is None:
        ro = c.fresh_bool('_is_read_only')
    else:
        ro = VBool(read_only)
    if quota == 'sym':
        q = c.fresh_int('_quota')
    else:
        q = quota
    h.user = c.fresh_barr('user')
    h.descr = c.fresh_barr('descr')
    h.ext = c.fresh_barr('ext')
    h.txn = c.fresh_opaque('transaction')
    h.tstatus = VStr(codes=[z3.Int(fresh_name('_tstatus'))])
    fields = dict(
        _file=h.file, _tfile=h.tfile, _tfmt=h.tfmt, _files=h.pool, _index=h.index,
        _tindex=h.tindex, _index_get=VFunc('meth', 'get', h.index), _lock=h.lock,
        _commit_lock=h.commit_lock, _commit_lock_release=VFunc('meth', 'release', h.commit_lock),
        _commit_lock_acquire=VFunc('meth', 'acquire', h.commit_lock),
        _lock_acquire=VFunc('meth', 'acquire', h.lock),
        _lock_release=VFunc('meth', 'release', h.lock),
        _pos=h.pos, _nextpos=h.nextpos, _thl=h.thl, _tid=h.tid, _ltid=h.ltid, _oid=h.oid,
        _ts=h.ts, _is_read_only=ro, _quota=q, _resolved=h.resolved, _tstatus=h.tstatus,
        _ude=VTuple([h.user, h.descr, h.ext]),
        _file_name=VStr('<Data.fs>'), __name__=VStr('<Data.fs>'),
        _pack_is_in_progress=c.fresh_bool('_pack_is_in_progress'),
    )
    if in_txn is True:
        fields['_transaction'] = h.txn
    elif in_txn is False:
        fields['_transaction'] = NONE
    else:
        fields['_transaction'] = h.txn   # symbolic: "may be none" is expressed by cases
    from . import blobmodel
    h.blobfs = blobmodel.new_blobfs(c)
    h.dirty = blobmodel.new_dirty(c)
    h.fshelper = blobmodel.new_fshelper(c, h.blobfs)
    fields['dirty_oids'] = h.dirty
    fields['fshelper'] = h.fshelper
    h.self = c.new_obj('inst', cls, fields, {'name': 'FileStorage'})
    fa = c.obj(h.file).f
    c.assume(z3.And(h.pos.t >= 4, h.pos.t <= fa['size'], fa['size'] < MAXPOS))
    c.assume(z3.And(h.thl.t >= 23, h.thl.t < MAXPOS))
    ta = c.obj(h.tfile).f
    c.assume(z3.And(ta['size'] < MAXPOS, ta['pos'] <= ta['size']))
    if with_ghost:
        h.F = RecFuns(c, fa['arr'])
        h.g = Ghost(c)
        idx = c.obj(h.index).f
        register_roles(c, h.F, h.g, idx['dom'], idx['val'])
    return h


def fs_fields(c, selfv):
    return c.obj(selfv).f


def file_of(c, selfv, name='_file'):
    return c.obj(c.obj(selfv).f[name])
