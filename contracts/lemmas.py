"""Property-level lemmas: pure z3 goals whose hypotheses are the postconditions / invariants of the
function contracts (predicate builders are imported from the contract modules, not restated).
Each function returns [(label, (hypotheses, goal))]."""
import z3

from pyvc.engine import be_num
from pyvc.values import B, I

from . import fs_open, fs_write
from .fsmodel import be, txn


def lemma_c20_fresh():
    present = z3.Function('present', I, B)
    issued = z3.Function('issued', I, B)
    x = z3.Int('x')
    c, r, o = z3.Ints('counter result stored_oid')
    oidinv = z3.ForAll([x], z3.Implies(z3.Or(present(x), issued(x)), x <= c))
    # new_oid/post: r = c + 1, counter' = r
    g1 = z3.And(z3.Not(present(r)), z3.Not(issued(r)))
    g2 = z3.ForAll([x], z3.Implies(z3.Or(present(x), issued(x), x == r), x <= r))
    # store/post: counter' = max(c, o), present' = present + {o}
    c2 = z3.If(o > c, o, c)
    g3 = z3.ForAll([x], z3.Implies(z3.Or(present(x), issued(x), x == o), x <= c2))
    return [('new-oid-is-fresh', ([oidinv, r == c + 1], g1)),
            ('new-oid-preserves-OIDINV', ([oidinv, r == c + 1], g2)),
            ('store-preserves-OIDINV', ([oidinv], g3))]


def lemma_header_roundtrip():
    a = [z3.Int('a%d' % i) for i in range(8)]
    b = [z3.Int('b%d' % i) for i in range(8)]
    rng = [z3.And(t >= 0, t < 256) for t in a + b]
    lex_lt = z3.BoolVal(False)
    for i in reversed(range(8)):
        lex_lt = z3.Or(a[i] < b[i], z3.And(a[i] == b[i], lex_lt))
    return [
        ('ord8.numeric-equality-is-bytewise-equality',
         (rng, (be_num(a) == be_num(b)) == z3.And([x == y for x, y in zip(a, b)]))),
        ('ord8.lexicographic-order-is-numeric-order', (rng, lex_lt == (be_num(a) < be_num(b)))),
        ('ord8.range', (rng, z3.And(be_num(a) >= 0, be_num(a) < 2 ** 64))),
    ]


def lemma_c01_crash():
    """C01.crash: the crash invariant proved at every write of vote/_finish/_abort implies the
    precondition shape of read_index with committed end b (tail ignorable) or n (complete)."""
    A = z3.Array('S', I, I)
    n, b = z3.Ints('n b')
    k = z3.Int('k')
    bytes_ok = z3.ForAll([k], z3.And(z3.Select(A, k) >= 0, z3.Select(A, k) < 256))
    base = [bytes_ok, b >= 4, b <= n]
    ign = fs_write.tail_ignorable(A, n, b)
    comp = fs_write.tail_complete(A, n, b)
    t = txn(A, b)
    # (1) the two sides use the same notion of "ignorable tail"
    wf_tail = z3.Or(n - b < 23, t['status'] == ord('c'), b + t['tl'] + 8 > n)
    # (2) a complete tail is an accepted boundary whose successor is the end of file, where the
    #     (empty) tail is ignorable again
    nb = b + t['tl'] + 8
    accepted = z3.And(n - b >= 23, t['status'] != ord('c'), nb <= n,
                      t['tl'] >= 23 + t['ul'] + t['dl'] + t['el'], be(A, b + t['tl'], 8) == t['tl'])
    return [
        ('ignorable-tail-is-the-scan-stop-condition', (base, ign == wf_tail)),
        ('complete-tail-is-an-accepted-boundary', (base + [comp], accepted)),
        ('after-a-complete-tail-the-scan-stops-at-end-of-file', (base + [comp],
                                                                 z3.And(nb == n, n - nb < 23))),
        ('ignorable-and-complete-exclude-each-other', (base + [comp], z3.Not(ign))),
    ]


def lemma_c05_noleak():
    """C05.noleak: the state tpc_abort guarantees is the state tpc_begin / tpc_vote of the next
    transaction require."""
    held, size, pos, nextpos = z3.Ints('commit_lock_held size pos nextpos')
    txn_none = z3.Bool('transaction_is_None')
    post_abort = [held == 0, txn_none, size == pos, nextpos == 0]
    return [('next-begin-can-acquire-the-commit-lock', (post_abort, held == 0)),
            ('next-vote-precondition', (post_abort, z3.And(size == pos, nextpos == 0)))]
