"""C02 / C04 - MappingStorage.loadBefore (the storage under DemoStorage's default layers and of the suite's race
test): answers with the revision whose tid is the GREATEST one strictly below the bound, and names as its end the
LEAST tid at or above the bound (None if there is none).  The snapshot bound of a connection is exclusive
(_start = last + 1): a revision whose tid EQUALS the bound belongs to a later commit and must not be returned.

Model (A-BTREE): `self._data` is a map oid -> per-object BTree tid -> data; a BTree is true iff it has a key;
`keys(min, max)` is the ascending sequence of its keys k with min <= k <= max (None = unbounded, both bounds
INCLUSIVE), true iff non-empty, [0] its least and [-1] its greatest member; 8-byte keys order as their numbers."""
import z3

from pyvc import prims
from pyvc.contract import Outcome, Spec
from pyvc.engine import RaiseSig, Unsupported, bytes_num, num_to_bytes
from pyvc.ground import All, FAnd, FOr
from pyvc.values import (B, I, NONE, Obj, VBool, VBytes, VExc, VInt, VNone, VOpaque, VRef, VStr, VTuple,
                         fresh_name)

from .common import POSKeyError, inst

MS = 'ZODB.MappingStorage:MappingStorage'
DATA = z3.Function('ms_data', I, Obj)
ASSUMPTIONS = ['A-BTREE: OOBTree semantics as stated in contracts/mappingstorage.py (truth value, inclusive key '
               'ranges, ascending order of 8-byte keys = numeric order)']


def in_range(o, t):
    lo, hi = o.meta['lo'], o.meta['hi']
    tr = o.meta['tree']
    cs = [z3.Select(tr.f['dom'], t), t >= 0, t < 2 ** 64]
    if lo is not None:
        cs.append(t >= lo)
    if hi is not None:
        cs.append(t <= hi)
    return z3.And(*cs)


def tidtree_method(c, interp, ref, o, name, args, kwargs, node):
    if name == 'keys':
        a = list(args) + [NONE] * (2 - len(args))
        b = [None if isinstance(x, VNone) else bytes_num(c, x, node) for x in a[:2]]
        return c.new_obj('keyrange', None, {}, {'tree': o, 'lo': b[0], 'hi': b[1]})
    if name in ('maxKey', 'minKey') and not args:
        whole = c.new_obj('keyrange', None, {}, {'tree': o, 'lo': None, 'hi': None})
        try:
            return keyrange_getitem(c, whole, c.obj(whole), VInt(-1 if name == 'maxKey' else 0), node)
        except RaiseSig:
            raise RaiseSig(VExc('builtins:ValueError'))
    raise Unsupported('BTree.%s' % name, node)


def tidtree_getitem(c, recv, o, key, node):
    k = bytes_num(c, key, node)
    present = z3.Select(o.f['dom'], k)
    if c.choose([present, z3.Not(present)], 'btree-getitem') == 1:
        raise RaiseSig(VExc('builtins:KeyError', [key]))
    c.event('data-read', k)
    return VOpaque(DATA(z3.Select(o.f['val'], k)), 'data')


def tidtree_truthy(c, ref, o, node):
    w = z3.Int(fresh_name('some_tid'))
    ne = z3.Bool(fresh_name('tree_nonempty'))
    c.assume(z3.Implies(ne, z3.And(z3.Select(o.f['dom'], w), w >= 0, w < 2 ** 64)))
    c.assume(('or', [ne, All(['tid'], lambda t: z3.Not(z3.Select(o.f['dom'], t)))]))
    return ne


def keyrange_truthy(c, ref, o, node):
    w = z3.Int(fresh_name('member'))
    ne = z3.Bool(fresh_name('range_nonempty'))
    c.assume(z3.Implies(ne, in_range(o, w)))
    c.assume(('or', [ne, All(['tid'], lambda t: z3.Not(in_range(o, t)))]))
    c.roles.seed('tid', w)
    return ne


def keyrange_getitem(c, recv, o, key, node):
    if not isinstance(key, VInt) or key.conc() not in (0, -1):
        raise Unsupported('keys(...)[%r]' % (key,), node)
    m = z3.Int(fresh_name('greatest' if key.conc() == -1 else 'least'))
    ne = z3.Bool(fresh_name('range_nonempty'))
    c.assume(z3.Implies(ne, in_range(o, m)))
    c.assume(('or', [ne, All(['tid'], lambda t: z3.Not(in_range(o, t)))]))
    if c.choose([ne, z3.Not(ne)], 'range-index') == 1:
        raise RaiseSig(VExc('builtins:IndexError'))
    if key.conc() == -1:
        c.assume(All(['tid'], lambda t: z3.Implies(in_range(o, t), t <= m)))
    else:
        c.assume(All(['tid'], lambda t: z3.Implies(in_range(o, t), t >= m)))
    c.roles.seed('tid', m)
    return num_to_bytes(c, m, 8, 'key')


def oidmap_method(c, interp, ref, o, name, args, kwargs, node):
    if name == 'get':
        if c.choose([True, True], 'oid-known') == 1:
            c.event('oid-unknown')
            return NONE
        return o.meta['tree_ref']
    raise Unsupported('_data.%s' % name, node)


prims.KIND_METHOD['tidtree'] = tidtree_method
prims.KIND_GETITEM['tidtree'] = tidtree_getitem
prims.KIND_TRUTHY['tidtree'] = tidtree_truthy
prims.KIND_TRUTHY['keyrange'] = keyrange_truthy
prims.KIND_GETITEM['keyrange'] = keyrange_getitem
prims.KIND_METHOD['oidmap'] = oidmap_method


class MappingLoadBefore(Spec):
    func = MS + '.loadBefore'
    props = ('C02', 'C04', 'C15')
    assumptions = tuple(ASSUMPTIONS)

    def setup(self, c, case=None):
        n = fresh_name('revs')
        tree = c.new_obj('tidtree', None, {'dom': z3.Array('dom_' + n, I, B), 'val': z3.Array('val_' + n, I, I)},
                         {'name': 'revisions-of-the-oid'})
        c.roles.array(c.obj(tree).f['dom'], 'tid')
        data = c.new_obj('oidmap', None, {}, {'tree_ref': tree, 'name': '_data'})
        lock = prims.new_lock(c, 'MappingStorage._lock', reentrant=True, held=0)
        me = inst(c, MS, _data=data, _lock=lock, _opened=VBool(True))
        c.ghost['ms'] = {'tree': tree, 'lock': lock}
        tid = c.fresh_bytes(8, 'bound')
        c.roles.seed('tid', bytes_num(c, tid))
        return {'self': me, 'oid': c.fresh_bytes(8, 'oid'), 'tid': tid}

    def modifies(self, c, E):
        return set()

    def outcomes(self, c, E):
        g = c.ghost['ms']
        tf = c.obj(g['tree']).f
        dom, val = tf['dom'], tf['val']
        b = bytes_num(c, E['tid'])
        has = lambda t: z3.And(z3.Select(dom, t), t >= 0, t < 2 ** 64)
        unknown = lambda c: any(e[0] == 'oid-unknown' for e in c.events)

        def found(c, E, r):
            if not (isinstance(r, VTuple) and len(r.items) == 3):
                return [('returns-(data, serial, end)', False)]
            d, s_, e_ = r.items
            if not (isinstance(s_, VBytes) and s_.conc_len() == 8):
                return [('serial-is-a-tid', False)]
            s = bytes_num(c, s_)
            c.roles.seed('tid', s)
            out = [('serial-is-a-revision-strictly-below-the-bound', z3.And(has(s), s < b)),
                   ('no-revision-between-serial-and-bound', All(['tid'], lambda t: z3.Implies(
                       z3.And(has(t), t < b), t <= s))),
                   ('data-is-that-revisions-data', isinstance(d, VOpaque) and d.tag == 'data' and
                    d.t == DATA(z3.Select(val, s)))]
            if isinstance(e_, VNone):
                out.append(('end-None-only-if-no-revision-at-or-after-the-bound', All(
                    ['tid'], lambda t: z3.Implies(has(t), t < b))))
            elif isinstance(e_, VBytes) and e_.conc_len() == 8:
                e = bytes_num(c, e_)
                c.roles.seed('tid', e)
                out.append(('end-is-the-least-revision-at-or-after-the-bound', z3.And(has(e), e >= b)))
                out.append(('end-is-the-least-revision-at-or-after-the-bound.least', All(
                    ['tid'], lambda t: z3.Implies(z3.And(has(t), t >= b), e <= t))))
            else:
                out.append(('end-is-a-tid-or-None', False))
            return out

        def nothing(c, E, r):
            return [('None-only-if-no-revision-below-the-bound', All(['tid'], lambda t: z3.Implies(has(t), t >= b))),
                    ('oid-is-known', not unknown(c))]

        def classify(c, E, r):
            return found(c, E, r) if not isinstance(r, VNone) else nothing(c, E, r)

        def lock_free(c, E, x):
            return [('lock-released', c.obj(g['lock']).f['held'] == 0)]
        return [Outcome('answer', post=lambda c, E, r: classify(c, E, r) + lock_free(c, E, r),
                        result=lambda c, E: c.fresh_opaque('answer')),
                Outcome('unknown-oid', 'raise', POSKeyError, post=lock_free)]


SPECS = [MappingLoadBefore]
INLINE = ['ZODB.utils:p64', 'ZODB.utils:u64', MS + '.opened']


class MappingStore(Spec):
    """MappingStorage.store (C03): accepted only for the transaction in progress and only if the object has no
    revision yet or the caller's serial IS the tid of its newest revision; otherwise ConflictError (naming the
    newest tid and the caller's serial) and nothing is staged."""
    func = MS + '.store'
    props = ('C03',)
    assumptions = tuple(ASSUMPTIONS)
    cases = ('same', 'other')

    def setup(self, c, case=None):
        n = fresh_name('revs')
        tree = c.new_obj('tidtree', None, {'dom': z3.Array('dom_' + n, I, B), 'val': z3.Array('val_' + n, I, I)},
                         {'name': 'revisions-of-the-oid'})
        c.roles.array(c.obj(tree).f['dom'], 'tid')
        data = c.new_obj('oidmap', None, {}, {'tree_ref': tree, 'name': '_data'})
        lock = prims.new_lock(c, 'MappingStorage._lock', reentrant=True, held=0)
        tdata = prims.new_map(c, 'bytes8', 'opaque', '_tdata')
        txn = c.fresh_opaque('transaction')
        me = inst(c, MS, _data=data, _lock=lock, _opened=VBool(True), _tdata=tdata, _transaction=txn)
        t = txn if case == 'same' else c.fresh_opaque('other_transaction')
        if case == 'other':
            c.assume(t.t != txn.t)
        c.ghost['ms'] = {'tree': tree, 'lock': lock, 'tdata': tdata}
        ser = c.fresh_bytes(8, 'serial')
        c.roles.seed('tid', bytes_num(c, ser))
        return {'self': me, 'oid': c.fresh_bytes(8, 'oid'), 'serial': ser, 'data': c.fresh_opaque('data'),
                'version': VStr(''), 'transaction': t}

    def modifies(self, c, E):
        g = c.ghost['ms']
        return {(g['tdata'].id, 'dom'), (g['tdata'].id, 'val')}

    def outcomes(self, c, E):
        g = c.ghost['ms']
        dom = c.obj(g['tree']).f['dom']
        has = lambda t: z3.And(z3.Select(dom, t), t >= 0, t < 2 ** 64)
        ser = bytes_num(c, E['serial'])
        o = bytes_num(c, E['oid'])
        td0 = dict(c.obj(g['tdata']).f)
        same = E['transaction'] is c.obj(E['self']).f['_transaction']
        unknown = lambda cc: any(e[0] == 'oid-unknown' for e in cc.events)

        def staged(cc, E, r):
            td = cc.obj(g['tdata']).f
            out = [('data-staged-under-the-oid', z3.And(z3.Select(td['dom'], o), z3.Select(td['val'], o) == E['data'].t)),
                   ('other-staged-entries-untouched', All(['oid'], lambda q: z3.Implies(q != o, z3.And(
                       z3.Select(td['dom'], q) == z3.Select(td0['dom'], q),
                       z3.Select(td['val'], q) == z3.Select(td0['val'], q))))),
                   ('lock-released', cc.obj(g['lock']).f['held'] == 0)]
            if not unknown(cc):
                out.append(('accepted-only-if-new-or-the-serial-is-the-newest-tid', FOr(
                    All(['tid'], lambda t: z3.Not(has(t))),
                    FAnd(has(ser), All(['tid'], lambda t: z3.Implies(has(t), t <= ser))))))
            return out

        def untouched(cc, E, x):
            td = cc.obj(g['tdata']).f
            return [('nothing-staged', z3.And(td['dom'] == td0['dom'], td['val'] == td0['val'])),
                    ('lock-released', cc.obj(g['lock']).f['held'] == 0)]

        def conflict(cc, E, x):
            a = x.attrs if isinstance(x, VExc) else {}
            sers = a.get('serials')
            ok = isinstance(sers, VTuple) and len(sers.items) == 2 and isinstance(sers.items[0], VBytes)
            out = untouched(cc, E, x) + [('oid-is-known', not unknown(cc)),
                                         ('conflict-error-names-(newest tid, caller serial)', ok)]
            if ok:
                m = bytes_num(cc, sers.items[0])
                cc.roles.seed('tid', m)
                out += [('newest-tid-differs-from-the-callers-serial', z3.And(has(m), m != ser)),
                        ('newest-tid-differs-from-the-callers-serial.newest', All(
                            ['tid'], lambda t: z3.Implies(has(t), t <= m)))]
            return out
        if not same:
            return [Outcome('wrong-transaction', 'raise', 'ZODB.POSException:StorageTransactionError', post=untouched)]
        return [Outcome('staged', result=lambda cc, E: NONE, post=staged),
                Outcome('conflict', 'raise', 'ZODB.POSException:ConflictError', post=conflict)]


SPECS.append(MappingStore)


class MappingNewOid(Spec):
    """MappingStorage.new_oid (C20): old counter + 1, counter advanced, both inside one critical section of the
    storage lock (the decorator); with OIDINV (counter >= every id present or issued: kept by store/tpc_finish,
    bounded) the id is fresh - lemma C20.fresh."""
    func = MS + '.new_oid'
    props = ('C20',)

    def setup(self, c, case=None):
        lock = prims.new_lock(c, 'MappingStorage._lock', reentrant=True, held=0)
        cnt = c.fresh_int('_oid')
        me = inst(c, MS, _lock=lock, _opened=VBool(True), _oid=cnt)
        c.ghost['no'] = {'lock': lock, 'cnt': cnt.t, 'me': me}
        return {'self': me}

    def requires(self, c, E):
        return [('counter-in-range', z3.And(c.ghost['no']['cnt'] >= 0, c.ghost['no']['cnt'] < 2 ** 64 - 1))]

    def hooks(self, c):
        def on_set(cc, recv, name, v, node):
            if name == '_oid':
                cc.oblige('guarded._oid-written-under-the-storage-lock',
                          cc.obj(cc.ghost['no']['lock']).f['held'] >= 1, node, assume_after=False)
        return {'setattr': on_set}

    def modifies(self, c, E):
        return {(c.ghost['no']['me'].id, '_oid')}

    def outcomes(self, c, E):
        g = c.ghost['no']

        def post(cc, E, r):
            cur = cc.obj(g['me']).f['_oid']
            return [('returns-old-counter-plus-one', isinstance(r, VBytes) and r.conc_len() == 8 and
                     bytes_num(cc, r) == g['cnt'] + 1),
                    ('counter-advanced', isinstance(cur, VInt) and cur.t == g['cnt'] + 1),
                    ('lock-released', cc.obj(g['lock']).f['held'] == 0)]
        return [Outcome('ok', post=post, result=lambda cc, E: cc.fresh_bytes(8, 'oid'))]


SPECS.append(MappingNewOid)


def _ms_read_setup(c):
    n = fresh_name('revs')
    tree = c.new_obj('tidtree', None, {'dom': z3.Array('dom_' + n, I, B), 'val': z3.Array('val_' + n, I, I)},
                     {'name': 'revisions-of-the-oid'})
    c.roles.array(c.obj(tree).f['dom'], 'tid')
    data = c.new_obj('oidmap', None, {}, {'tree_ref': tree, 'name': '_data'})
    lock = prims.new_lock(c, 'MappingStorage._lock', reentrant=True, held=0)
    me = inst(c, MS, _data=data, _lock=lock, _opened=VBool(True))
    c.ghost['ms'] = {'tree': tree, 'lock': lock}
    return me


class MappingGetTid(Spec):
    """MappingStorage.getTid (C03 / C04; the serial `Connection.readCurrent` checks and DemoStorage hands on):
    the tid of the object's NEWEST revision - a revision, and no revision is later; POSKeyError exactly when the
    object has no revision (unknown oid or an emptied tree).  Nothing is modified."""
    func = MS + '.getTid'
    props = ('C03', 'C04')
    assumptions = tuple(ASSUMPTIONS)

    def setup(self, c, case=None):
        return {'self': _ms_read_setup(c), 'oid': c.fresh_bytes(8, 'oid')}

    def modifies(self, c, E):
        return set()

    def outcomes(self, c, E):
        g = c.ghost['ms']
        dom = c.obj(g['tree']).f['dom']
        has = lambda t: z3.And(z3.Select(dom, t), t >= 0, t < 2 ** 64)
        unknown = lambda cc: any(e[0] == 'oid-unknown' for e in cc.events)
        free = lambda cc: [('lock-released', cc.obj(g['lock']).f['held'] == 0)]

        def newest(cc, E, r):
            if not (isinstance(r, VBytes) and r.conc_len() == 8):
                return [('returns-a-tid', False)]
            m = bytes_num(cc, r)
            cc.roles.seed('tid', m)
            return [('oid-is-known', not unknown(cc)),
                    ('result-is-the-tid-of-a-revision', has(m)),
                    ('no-revision-is-later', All(['tid'], lambda t: z3.Implies(has(t), t <= m)))] + free(cc)

        def none(cc, E, x):
            out = free(cc)
            if not unknown(cc):
                out.append(('POSKeyError-only-if-the-object-has-no-revision',
                            All(['tid'], lambda t: z3.Not(has(t)))))
            return out
        return [Outcome('newest', post=newest, result=lambda cc, E: cc.fresh_bytes(8, 'tid')),
                Outcome('no-revision', 'raise', POSKeyError, post=none)]


class MappingLoadSerial(Spec):
    """MappingStorage.loadSerial (C04): the data stored by the transaction named - exactly the revision whose tid
    EQUALS the serial; POSKeyError exactly when the object has no revision with that tid.  Nothing is modified."""
    func = MS + '.loadSerial'
    props = ('C04',)
    assumptions = tuple(ASSUMPTIONS)

    def setup(self, c, case=None):
        me = _ms_read_setup(c)
        ser = c.fresh_bytes(8, 'serial')
        c.roles.seed('tid', bytes_num(c, ser))
        return {'self': me, 'oid': c.fresh_bytes(8, 'oid'), 'serial': ser}

    def modifies(self, c, E):
        return set()

    def outcomes(self, c, E):
        g = c.ghost['ms']
        tf = c.obj(g['tree']).f
        dom, val = tf['dom'], tf['val']
        s = bytes_num(c, E['serial'])
        unknown = lambda cc: any(e[0] == 'oid-unknown' for e in cc.events)
        free = lambda cc: [('lock-released', cc.obj(g['lock']).f['held'] == 0)]

        def found(cc, E, r):
            return [('oid-is-known', not unknown(cc)),
                    ('the-object-has-a-revision-with-that-tid', z3.Select(dom, s)),
                    ('data-is-that-revisions-data', isinstance(r, VOpaque) and r.tag == 'data' and
                     r.t == DATA(z3.Select(val, s)))] + free(cc)

        def absent(cc, E, x):
            out = free(cc)
            if not unknown(cc):
                out.append(('POSKeyError-only-if-no-revision-has-that-tid', z3.Not(z3.Select(dom, s))))
            return out
        return [Outcome('found', post=found, result=lambda cc, E: cc.fresh_opaque('data')),
                Outcome('absent', 'raise', POSKeyError, post=absent)]


SPECS += [MappingGetTid, MappingLoadSerial]


class MappingTpcAbort(Spec):
    """MappingStorage.tpc_abort (C05): for the transaction in progress the storage forgets it and frees the commit
    lock (exactly once: the next tpc_begin can proceed); the committed revisions are not touched (the staged data
    live in `_tdata`, which only tpc_finish reads and the next tpc_begin replaces).  For any OTHER transaction the
    call changes nothing at all - in particular it does not take the commit lock away from its holder."""
    func = MS + '.tpc_abort'
    props = ('C05',)
    cases = ('same', 'other', 'idle')

    def setup(self, c, case=None):
        lock = prims.new_lock(c, 'MappingStorage._lock', reentrant=True, held=0)
        clock = prims.new_lock(c, 'MappingStorage._commit_lock', reentrant=False, held=0 if case == 'idle' else 1)
        txn = NONE if case == 'idle' else c.fresh_opaque('transaction')
        data = c.new_obj('oidmap', None, {}, {'tree_ref': None, 'name': '_data'})
        me = inst(c, MS, _data=data, _lock=lock, _commit_lock=clock, _opened=VBool(True), _transaction=txn)
        t = txn if case == 'same' else c.fresh_opaque('other_transaction')
        if case == 'other':
            c.assume(t.t != txn.t)
        c.ghost['ab'] = {'lock': lock, 'clock': clock, 'me': me, 'txn': txn}
        return {'self': me, 'transaction': t}

    def modifies(self, c, E):
        g = c.ghost['ab']
        if E['transaction'] is g['txn']:
            return {(g['me'].id, '_transaction'), (g['clock'].id, 'held')}
        return set()

    def outcomes(self, c, E):
        g = c.ghost['ab']
        mine = E['transaction'] is g['txn']
        held0 = c.obj(g['clock']).f['held']

        def post(cc, E, r):
            cur = cc.obj(g['me']).f['_transaction']
            held = cc.obj(g['clock']).f['held']
            out = [('lock-released', cc.obj(g['lock']).f['held'] == 0), ('returns-None', isinstance(r, VNone))]
            if mine:
                out += [('transaction-forgotten', isinstance(cur, VNone)),
                        ('commit-lock-free-for-the-next-transaction', held == 0)]
            else:
                out += [('transaction-in-progress-kept', cur is g['txn']),
                        ('commit-lock-stays-with-its-holder', held == held0)]
            return out
        return [Outcome('ok', post=post, result=lambda cc, E: NONE)]


SPECS.append(MappingTpcAbort)


from .demostorage import NewTid  # noqa: E402  (assumed contract of ZODB.utils.newTid, A-TIMESTAMP)


class MappingTpcBegin(Spec):
    """MappingStorage.tpc_begin (C04 / C05): a duplicate call for the transaction in progress is refused without any
    effect; otherwise the commit lock is taken (never while the storage lock is held: no lock-order inversion with
    a finishing thread), the transaction recorded, staging emptied, and - no tid given - a tid chosen that is LATER
    than every committed transaction's, whatever the clock says; LOCKINV (commit lock held <=> transaction recorded)."""
    func = MS + '.tpc_begin'
    props = ('C04', 'C05')
    assumptions = tuple(ASSUMPTIONS) + NewTid.assumptions
    cases = ('fresh', 'duplicate', 'explicit-tid')

    def setup(self, c, case=None):
        n = fresh_name('txns')
        tree = c.new_obj('tidtree', None, {'dom': z3.Array('dom_' + n, I, B), 'val': z3.Array('val_' + n, I, I)},
                         {'name': '_transactions'})
        c.roles.array(c.obj(tree).f['dom'], 'tid')
        lock = prims.new_lock(c, 'MappingStorage._lock', reentrant=True, held=0)
        dup = case == 'duplicate'
        clock = prims.new_lock(c, 'MappingStorage._commit_lock', reentrant=False, held=1 if dup else 0)
        txn = c.fresh_opaque('transaction')
        me = inst(c, MS, _transactions=tree, _lock=lock, _commit_lock=clock, _opened=VBool(True),
                  _transaction=txn if dup else NONE)
        c.ghost['tb'] = {'tree': tree, 'lock': lock, 'clock': clock, 'me': me}
        E = {'self': me, 'transaction': txn}
        if case == 'explicit-tid':
            E['tid'] = c.fresh_bytes(8, 'given_tid')
        else:
            E['tid'] = NONE
        return E

    def hooks(self, c):
        def acquired(cc, ref, node):
            g = cc.ghost['tb']
            if ref.id == g['clock'].id:
                cc.oblige('commit-lock-never-awaited-while-holding-the-storage-lock',
                          cc.obj(g['lock']).f['held'] == 0, node, assume_after=False)
        return {'acquired': acquired}

    def modifies(self, c, E):
        g = c.ghost['tb']
        if isinstance(c.obj(g['me']).f['_transaction'], VOpaque):
            return set()
        return {(g['me'].id, '_transaction'), (g['me'].id, '_tdata'), (g['me'].id, '_tid'), (g['clock'].id, 'held')}

    def outcomes(self, c, E):
        g = c.ghost['tb']
        dom = c.obj(g['tree']).f['dom']
        has = lambda t: z3.And(z3.Select(dom, t), t >= 0, t < 2 ** 64)
        dup = isinstance(c.obj(g['me']).f['_transaction'], VOpaque)

        def begun(cc, E, r):
            S = cc.obj(g['me']).f
            tid = S.get('_tid')
            out = [('LOCKINV.commit-lock-held', cc.obj(g['clock']).f['held'] == 1),
                   ('LOCKINV.transaction-recorded', S['_transaction'] is E['transaction']),
                   ('storage-lock-released', cc.obj(g['lock']).f['held'] == 0),
                   ('tid-set', isinstance(tid, VBytes) and tid.conc_len() == 8)]
            td = S.get('_tdata')
            out.append(('staging-emptied', isinstance(td, VRef) and cc.obj(td).kind == 'pydict' and
                        not cc.obj(td).meta['pairs']))
            if isinstance(tid, VBytes) and tid.conc_len() == 8:
                if isinstance(E['tid'], VNone):
                    t = bytes_num(cc, tid)
                    out.append(('tid-later-than-every-committed-transaction',
                                All(['tid'], lambda q: z3.Implies(has(q), q < t))))
                else:
                    out.append(('given-tid-used', bytes_num(cc, tid) == bytes_num(cc, E['tid'])))
            return out

        def refused(cc, E, x):
            return [('commit-lock-untouched', cc.obj(g['clock']).f['held'] == 1),
                    ('storage-lock-released', cc.obj(g['lock']).f['held'] == 0)]
        if dup:
            return [Outcome('duplicate', 'raise', 'ZODB.POSException:StorageTransactionError', post=refused)]
        return [Outcome('begun', result=lambda cc, E: NONE, post=begun)]


SPECS += [NewTid, MappingTpcBegin]
INLINE.append('ZODB.utils:check_precondition')


class _MappingForeign(Spec):
    """C05, calls naming a transaction that is NOT the one in progress (or made while none is): refused with
    StorageTransactionError and WITHOUT any effect - empty frame: the staged data, the committed revisions, the
    transaction in progress and the commit lock of its owner are as before."""
    props = ('C05',)
    cases = ('other', 'idle')

    def setup(self, c, case=None):
        lock = prims.new_lock(c, 'MappingStorage._lock', reentrant=True, held=0)
        clock = prims.new_lock(c, 'MappingStorage._commit_lock', reentrant=False, held=0 if case == 'idle' else 1)
        txn = NONE if case == 'idle' else c.fresh_opaque('transaction')
        data = c.new_obj('oidmap', None, {}, {'tree_ref': None, 'name': '_data'})
        tdata = prims.new_map(c, 'bytes8', 'opaque', '_tdata')
        me = inst(c, MS, _data=data, _lock=lock, _commit_lock=clock, _opened=VBool(True), _transaction=txn,
                  _tdata=tdata, _tid=c.fresh_bytes(8, '_tid'))
        t = c.fresh_opaque('other_transaction')
        if case == 'other':
            c.assume(t.t != txn.t)
        c.ghost['fo'] = {'lock': lock, 'clock': clock}
        return dict({'self': me, 'transaction': t}, **self.extra(c))

    def extra(self, c):
        return {}

    def modifies(self, c, E):
        return set()

    def outcomes(self, c, E):
        g = c.ghost['fo']
        held0 = c.obj(g['clock']).f['held']

        def post(cc, E, x):
            return [('storage-lock-released', cc.obj(g['lock']).f['held'] == 0),
                    ('commit-lock-stays-with-its-holder', cc.obj(g['clock']).f['held'] == held0),
                    ('no-callback-ran', not any(e[0] == 'callback' for e in cc.events))]
        return [Outcome('refused', 'raise', 'ZODB.POSException:StorageTransactionError', post=post)]


class MappingVoteForeign(_MappingForeign):
    func = MS + '.tpc_vote'


class MappingFinishForeign(_MappingForeign):
    """tpc_finish for a foreign transaction: refused before the callback runs and before anything is published
    (the case of the storage's OWN transaction - publishing `_tdata` - is not under contract: bounded only)."""
    func = MS + '.tpc_finish'

    def extra(self, c):
        def cb(cc, args, kwargs, node):
            cc.event('callback')
            return NONE
        from pyvc.values import VFunc
        return {'func': VFunc('spec', 'finish-callback', None, cb)}


SPECS += [MappingVoteForeign, MappingFinishForeign]
