"""C02 / C15 (and the undo side of C06): ZODB.mvccadapter and DB.getTID.

The wrapped storage is an opaque IStorage whose relevant contract is assumed (A-ISTORAGE-FINISH):
tpc_finish(txn, f) calls f(tid) exactly once while holding the storage lock and BEFORE the new data
becomes loadable, then returns tid.  Thread schedules are not explored: lock-protected regions are
treated as atomic (T3); what is proved is the sequential content of each region, lock ownership of
the guarded fields and the ordering of calls inside a region."""
import ast

import z3

from pyvc import contract, prims, source, timestamp
from pyvc.contract import LoopSpec, Outcome, Spec
from pyvc.engine import (PathEnd, RaiseSig, Unsupported, as_z3_bool, bytes_num, num_to_bytes)
from pyvc.ground import All, Ex, FAnd, FNot, FOr
from pyvc.values import (B, I, NONE, Obj, VBool, VBytes, VExc, VFunc, VInt, VNone, VOpaque,
                         VRef, VStr, VTuple, fresh_name)

from . import demostorage  # bset model
from .common import POSKeyError, ReadConflictError, ReadOnlyError, inst
from .fs_format import b8_eq_num

INSTANCE = 'ZODB.mvccadapter:MVCCAdapterInstance'
ADAPTER = 'ZODB.mvccadapter:MVCCAdapter'
HIST = 'ZODB.mvccadapter:HistoricalStorageAdapter'
UNDOI = 'ZODB.mvccadapter:UndoAdapterInstance'

ASSUMPTIONS = [
    'A-ISTORAGE-FINISH: storage.tpc_finish(txn, f) calls f(tid) exactly once, holding the storage lock, before '
    'the transaction becomes loadable, and returns tid (proved for FileStorage in fs_write.TpcFinish)',
    'T3: code between two lock operations runs atomically; thread schedules are not explored',
    'instances of one adapter: the registry is unrolled with three members (the committing one and two others)',
]
LOADRES = z3.Function('loadBefore_result', I, I, Obj)       # (oid, bound) -> opaque (data, serial) pair
LOADNONE = z3.Function('loadBefore_none', I, I, B)


def new_mstorage(c):
    return c.new_obj('mstorage', None, {'ltid': z3.Int(fresh_name('storage_ltid'))},
                     {'name': 'storage', 'calls': []})


def mstorage_method(c, interp, ref, o, name, args, kwargs, node):
    c.event('storage-call', name, tuple(args))
    if name == 'lastTransaction':
        c.assume(z3.And(o.f['ltid'] >= 0, o.f['ltid'] < 2 ** 64 - 1))
        return num_to_bytes(c, o.f['ltid'], 8, 'ltid')
    if name == 'loadBefore':
        oid, bound = bytes_num(c, args[0], node), bytes_num(c, args[1], node)
        i = c.choose([LOADNONE(oid, bound), z3.Not(LOADNONE(oid, bound))], 'loadBefore')
        if i == 0:
            return NONE
        pair = VOpaque(LOADRES(oid, bound), 'pair')
        return VTuple([VOpaque(z3.Const(fresh_name('data'), Obj), 'data'),
                       VOpaque(z3.Const(fresh_name('serial'), Obj), 'serial'),
                       VOpaque(z3.Const(fresh_name('end'), Obj), 'end')]) \
            if False else c.new_obj('lbresult', None, {}, {'oid': oid, 'bound': bound})
    if name == 'tpc_finish':
        f = args[1] if len(args) > 1 else kwargs.get('func')
        tid = c.fresh_bytes(8, 'newtid')
        c.assume(bytes_num(c, tid) > o.f['ltid'])
        c.event('storage-lock-taken')
        if f is not None and not isinstance(f, VNone):
            interp.call_value(c, f, [tid], {}, node)
        c.event('data-visible', tid)
        o.f['ltid'] = bytes_num(c, tid)
        return tid
    if name in ('tpc_begin', 'store', 'storeBlob', 'tpc_vote', 'tpc_abort', 'sync', 'release'):
        return NONE
    if name == 'undo':
        return VTuple([c.fresh_bytes(8, 'tid'), demostorage.new_set(c, 'undone_oids')])
    return c.fresh_opaque('result')


prims.KIND_METHOD['mstorage'] = mstorage_method


def lbresult_slice(c, recv, o, lo, hi, node):
    return VOpaque(LOADRES(o.meta['oid'], o.meta['bound']), 'pair')


_orig_get_slice = prims.get_slice


def get_slice(ctx, recv, lo, hi, node):
    if isinstance(recv, VRef) and ctx.obj(recv).kind == 'lbresult':
        if lo is None and isinstance(hi, VInt) and hi.conc() == 2:
            o = ctx.obj(recv)
            return VOpaque(LOADRES(o.meta['oid'], o.meta['bound']), 'pair')
        raise Unsupported('slice of a loadBefore result other than [:2]', node)
    return _orig_get_slice(ctx, recv, lo, hi, node)


prims.get_slice = get_slice


def bset_update(c, o, other, node):
    oo = c.obj(other)
    q = z3.Int(fresh_name('q'))
    o.f['dom'] = z3.Lambda([q], z3.Or(z3.Select(o.f['dom'], q), z3.Select(oo.f['dom'], q)))


_orig_bset = demostorage.bset_method


def bset_method(c, interp, ref, o, name, args, kwargs, node):
    if name == 'update':
        bset_update(c, o, args[0], node)
        return NONE
    if name == 'clear':
        o.f['dom'] = z3.K(I, z3.BoolVal(False))
        return NONE
    return _orig_bset(c, interp, ref, o, name, args, kwargs, node)


prims.KIND_METHOD['bset'] = bset_method


def list_of_hook(c, v, node):
    if isinstance(v, VRef) and c.obj(v).kind == 'bset':
        r = demostorage.new_set(c, 'listed')
        c.obj(r).f['dom'] = c.obj(v).f['dom']
        c.obj(r).kind = 'bset'
        c.obj(r).meta['is_list'] = True
        return r
    raise Unsupported('list() of %r' % (v,), node)


class MvccSpec(Spec):
    assumptions = tuple(ASSUMPTIONS) + tuple(timestamp.ASSUMPTIONS)

    def hooks(self, c):
        return {'list_of': list_of_hook}

    def mk_instance(self, c, name='instance', inval='set', ltid='bytes'):
        st = c.ghost.get('mstorage') or new_mstorage(c)
        c.ghost['mstorage'] = st
        lock = prims.new_lock(c, name + '._lock', reentrant=False, held=0)
        inv = demostorage.new_set(c, name + '._invalidations') if inval == 'set' else NONE
        me = inst(c, INSTANCE, _storage=st, _lock=lock, _invalidations=inv,
                  _ltid=(c.fresh_bytes(8, name + '_ltid') if ltid == 'bytes' else VBytes([])),
                  _start=c.fresh_bytes(8, name + '_start'), _modified=NONE)
        c.obj(me).meta['name'] = name
        return me, lock, inv


def guarded(hk, field, lock_ref_of):
    """every write of `field` happens with the guarding lock held"""
    def on_set(cc, recv, name, v, node):
        if name == field:
            lk = lock_ref_of(cc, recv)
            if lk is not None:
                cc.oblige('guarded.%s-written-under-lock' % field, cc.obj(lk).f['held'] >= 1,
                          node, assume_after=False)
    hk['setattr'] = on_set


class PollInvalidations(MvccSpec):
    func = 'ZODB.mvccadapter:MVCCAdapterInstance.poll_invalidations'
    props = ('C02',)
    cases = ('set', 'none', 'set-fresh-instance')

    def setup(self, c, case=None):
        me, lock, inv = self.mk_instance(c, inval=('none' if case == 'none' else 'set'),
                                         ltid=('empty' if case == 'set-fresh-instance' else 'bytes'))
        c.ghost['me'] = (me, lock, inv)
        return {'self': me}

    def hooks(self, c):
        hk = MvccSpec.hooks(self, c)
        guarded(hk, '_start', lambda cc, recv: cc.obj(recv).f.get('_lock'))
        return hk

    def requires(self, c, E):
        me, lock, inv = c.ghost['me']
        lt = c.obj(me).f['_ltid']
        return [('delivered-tid-below-the-largest-tid',
                 bytes_num(c, lt) < 2 ** 64 - 1 if lt.conc_len() == 8 else True)]

    def modifies(self, c, E):
        me, lock, inv = c.ghost['me']
        m = {(me.id, '_start'), (me.id, '_invalidations')}
        if isinstance(inv, VRef):
            m.add((inv.id, 'dom'))
        return m

    def outcomes(self, c, E):
        me, lock, inv = c.ghost['me']
        S0 = c.obj(me).f
        st = c.obj(c.ghost['mstorage'])
        own = bytes_num(c, S0['_ltid']) if S0['_ltid'].conc_len() == 8 else z3.IntVal(-1)
        mx = z3.If(st.f['ltid'] >= own, st.f['ltid'], own)
        inv0 = c.obj(inv).f['dom'] if isinstance(inv, VRef) else None

        def post(c, E, r):
            S = c.obj(me).f
            out = [('snapshot-bound-is-max-of-storage-and-delivered-tid-plus-one',
                    b8_eq_num(c, S['_start'], mx + 1)),
                   ('instance-lock-released', c.obj(lock).f['held'] == 0)]
            ni = S['_invalidations']
            if inv0 is None:
                out += [('flush-everything-signalled-by-None', isinstance(r, VNone)),
                        ('pending-set-recreated-empty', isinstance(ni, VRef) and
                         All(['oid'], lambda q: z3.Not(z3.Select(c.obj(ni).f['dom'], q))))]
            else:
                out += [('returns-exactly-the-pending-oids', isinstance(r, VRef)
                         and c.obj(r).kind == 'bset' and c.obj(r).f['dom'] == inv0),
                        ('pending-set-drained', isinstance(ni, VRef) and All(
                            ['oid'], lambda q: z3.Not(z3.Select(c.obj(ni).f['dom'], q))))]
            return out
        return [Outcome('ok', post=post)]


class PollTraced(PollInvalidations):
    """same function, with attribute reads traced (for the atomicity obligation)"""
    callable_contract = False
    label = 'traced'

    def hooks(self, c):
        hk = PollInvalidations.hooks(self, c)
        hk['trace_getattr'] = True
        return hk

    def at_exit(self, c, E, kind, val):
        # picking the bound and draining happen in ONE critical section of the instance lock
        me, lock, inv = c.ghost['me']
        ev = c.events
        acq = [k for k, e in enumerate(ev) if e[0] == 'acquire' and e[1].id == lock.id]
        rel = [k for k, e in enumerate(ev) if e[0] == 'release' and e[1].id == lock.id]
        reads = [k for k, e in enumerate(ev) if e[0] == 'getattr' and e[2] == '_ltid']
        ok = len(acq) == 1 and len(rel) == 1 and all(acq[0] < k < rel[0] for k in reads) and bool(reads)
        return [('atomic.delivered-tid-read-inside-the-draining-critical-section', ok)]


class Invalidate(MvccSpec):
    func = 'ZODB.mvccadapter:MVCCAdapterInstance._invalidate'
    props = ('C02',)
    cases = ('set', 'none')

    def setup(self, c, case=None):
        me, lock, inv = self.mk_instance(c, inval=case)
        c.ghost['me'] = (me, lock, inv)
        return {'self': me, 'tid': c.fresh_bytes(8, 'tid'),
                'oids': demostorage.new_set(c, 'oids')}

    def hooks(self, c):
        hk = MvccSpec.hooks(self, c)
        guarded(hk, '_ltid', lambda cc, recv: cc.obj(recv).f.get('_lock'))
        return hk

    def modifies(self, c, E):
        me = E['self']
        inv = c.obj(me).f['_invalidations']
        m = {(me.id, '_ltid')}
        if isinstance(inv, VRef):
            m.add((inv.id, 'dom'))
        return m

    def outcomes(self, c, E):
        me = E['self']
        S0 = c.obj(me).f
        inv = S0['_invalidations']
        inv0 = c.obj(inv).f['dom'] if isinstance(inv, VRef) else None
        od = c.obj(E['oids']).f['dom']

        def post(c, E, r):
            S = c.obj(me).f
            out = [('delivered-tid-recorded', b8_eq_num(c, S['_ltid'], bytes_num(c, E['tid']))),
                   ('instance-lock-released', c.obj(S['_lock']).f['held'] == 0)]
            if inv0 is None:
                out.append(('flush-everything-stays', isinstance(S['_invalidations'], VNone)))
            else:
                nd = c.obj(S['_invalidations']).f['dom']
                out.append(('pending-set-grows-by-the-oids', All(['oid'], lambda q: z3.Select(
                    nd, q) == z3.Or(z3.Select(inv0, q), z3.Select(od, q)))))
            return out
        return [Outcome('ok', post=post)]


class InstanceLoad(MvccSpec):
    func = 'ZODB.mvccadapter:MVCCAdapterInstance.load'
    props = ('C02',)

    def setup(self, c, case=None):
        me, lock, inv = self.mk_instance(c)
        return {'self': me, 'oid': c.fresh_bytes(8, 'oid')}

    def requires(self, c, E):
        # _start is always some tid + 1 (poll_invalidations/post)
        return [('snapshot-bound-positive', bytes_num(c, c.obj(E['self']).f['_start']) >= 1)]

    def outcomes(self, c, E):
        S = c.obj(E['self']).f
        oid, bound = bytes_num(c, E['oid']), bytes_num(c, S['_start'])
        none = LOADNONE(oid, bound)
        return [Outcome('ok', guard=z3.Not(none),
                        post=lambda c, E, r: [('state-as-of-the-snapshot-bound', isinstance(
                            r, VOpaque) and r.t == LOADRES(oid, bound))]),
                Outcome('gone', 'raise', ReadConflictError, guard=none)]


class InstanceTpcFinish(MvccSpec):
    func = 'ZODB.mvccadapter:MVCCAdapterInstance.tpc_finish'
    props = ('C02',)
    cases = ('default-func', 'func')

    def setup(self, c, case=None):
        me, lock, inv = self.mk_instance(c, 'committer')
        o1, l1, i1 = self.mk_instance(c, 'other1')
        o2, l2, i2 = self.mk_instance(c, 'other2', inval='none')
        alock = prims.new_lock(c, 'adapter._lock', reentrant=False, held=0)
        insts = c.new_obj('list', meta={'items': [o1, me, o2]})
        base = inst(c, ADAPTER, _storage=c.ghost['mstorage'], _instances=insts, _lock=alock)
        c.obj(me).f['_base'] = base
        mod = demostorage.new_set(c, '_modified')
        c.obj(me).f['_modified'] = mod
        c.ghost['tf'] = {'me': me, 'others': [(o1, i1), (o2, i2)], 'mod': mod, 'base': base}
        a = {'self': me, 'transaction': c.fresh_opaque('transaction')}
        if case == 'func':
            def cb(cc, args, kwargs, node):
                cc.event('caller-callback', args[0])
                return NONE
            a['func'] = VFunc('spec', 'caller-callback', None, cb)
        return a

    def modifies(self, c, E):
        g = c.ghost['tf']
        m = {(g['me'].id, '_modified'), (g['me'].id, '_ltid'),
             (c.ghost['mstorage'].id, 'ltid')}
        for o, i in g['others']:
            m.add((o.id, '_ltid'))
            if isinstance(i, VRef):
                m.add((i.id, 'dom'))
        return m

    def outcomes(self, c, E):
        g = c.ghost['tf']
        mod0 = c.obj(g['mod']).f['dom']
        olds = [(o, c.obj(i).f['dom'] if isinstance(i, VRef) else None) for o, i in g['others']]
        own_inv0 = c.obj(c.obj(g['me']).f['_invalidations']).f['dom']

        def post(c, E, r):
            tid = bytes_num(c, r)
            out = [('own-delivered-tid-advanced', b8_eq_num(c, c.obj(g['me']).f['_ltid'], tid)),
                   ('own-pending-set-untouched',
                    c.obj(c.obj(g['me']).f['_invalidations']).f['dom'] == own_inv0),
                   ('modified-set-handed-over', isinstance(c.obj(g['me']).f['_modified'], VNone))]
            for k, (o, d0) in enumerate(olds):
                S = c.obj(o).f
                out.append(('other%d.delivered-tid' % k, b8_eq_num(c, S['_ltid'], tid)))
                if d0 is not None:
                    nd = c.obj(S['_invalidations']).f['dom']
                    out.append(('other%d.pending-set-receives-the-modified-oids' % k, All(
                        ['oid'], lambda q: z3.Select(nd, q) == z3.Or(z3.Select(d0, q),
                                                                      z3.Select(mod0, q)))))
            return out
        return [Outcome('ok', post=post, result=lambda c, E: c.fresh_bytes(8, 'tid'))]

    def at_exit(self, c, E, kind, val):
        ev = c.events
        vis = [k for k, e in enumerate(ev) if e[0] == 'data-visible']
        inval = [k for k, e in enumerate(ev) if e[0] == 'outcome:_invalidate']
        taken = [k for k, e in enumerate(ev) if e[0] == 'storage-lock-taken']
        ok = bool(vis) and bool(inval) and bool(taken) and \
            all(taken[0] < k < vis[0] for k in inval)
        out = [('order.invalidations-delivered-inside-storage-finish-before-data-is-loadable', ok)]
        if isinstance(E.args.get('func'), VFunc):
            cbs = [k for k, e in enumerate(ev) if e[0] == 'caller-callback']
            out.append(('order.caller-callback-runs-inside-storage-finish',
                        bool(cbs) and bool(vis) and all(k < vis[0] for k in cbs)))
        return out


class UndoTpcFinish(MvccSpec):
    func = 'ZODB.mvccadapter:UndoAdapterInstance.tpc_finish'
    props = ('C06', 'C02')

    def setup(self, c, case=None):
        o1, l1, i1 = self.mk_instance(c, 'other1')
        o2, l2, i2 = self.mk_instance(c, 'other2')
        alock = prims.new_lock(c, 'adapter._lock', reentrant=False, held=0)
        insts = c.new_obj('list', meta={'items': [o1, o2]})
        base = inst(c, ADAPTER, _storage=c.ghost['mstorage'], _instances=insts, _lock=alock)
        undone = demostorage.new_set(c, '_undone')
        me = inst(c, UNDOI, _storage=c.ghost['mstorage'], _base=base, _undone=undone)
        c.ghost['uf'] = {'others': [(o1, i1), (o2, i2)], 'undone': undone}
        return {'self': me, 'transaction': c.fresh_opaque('transaction')}

    def modifies(self, c, E):
        g = c.ghost['uf']
        m = {(c.ghost['mstorage'].id, 'ltid')}
        for o, i in g['others']:
            m.add((o.id, '_ltid'))
            m.add((i.id, 'dom'))
        return m

    def outcomes(self, c, E):
        g = c.ghost['uf']
        u0 = c.obj(g['undone']).f['dom']
        olds = [(o, c.obj(i).f['dom']) for o, i in g['others']]

        def post(c, E, r):
            out = []
            for k, (o, d0) in enumerate(olds):
                nd = c.obj(c.obj(o).f['_invalidations']).f['dom']
                out.append(('instance%d.pending-set-receives-the-undone-oids' % k, All(
                    ['oid'], lambda q: z3.Select(nd, q) == z3.Or(z3.Select(d0, q),
                                                                  z3.Select(u0, q)))))
            return out
        return [Outcome('ok', post=post)]

    def at_exit(self, c, E, kind, val):
        ev = c.events
        vis = [k for k, e in enumerate(ev) if e[0] == 'data-visible']
        inval = [k for k, e in enumerate(ev) if e[0] == 'outcome:_invalidate']
        taken = [k for k, e in enumerate(ev) if e[0] == 'storage-lock-taken']
        ok = bool(vis) and bool(inval) and bool(taken) and \
            all(taken[0] < k < vis[0] for k in inval)
        return [('order.undone-oids-invalidated-inside-storage-finish-before-data-is-loadable', ok)]


class HistLoad(MvccSpec):
    func = 'ZODB.mvccadapter:HistoricalStorageAdapter.load'
    props = ('C15',)

    def setup(self, c, case=None):
        st = new_mstorage(c)
        c.ghost['mstorage'] = st
        # the adapter is built by running the REAL constructor, so that state the constructor
        # derives from `before` is what load() sees
        before = c.fresh_bytes(8, 'before')
        c.ghost['before'] = before
        from pyvc.values import VClass
        me = c.interp.instantiate(c, VClass(HIST), [st, before], {}, None)
        c.events[:] = []
        return {'self': me, 'oid': c.fresh_bytes(8, 'oid'), 'version': VStr('')}

    def outcomes(self, c, E):
        oid, bound = bytes_num(c, E['oid']), bytes_num(c, c.ghost['before'])
        none = LOADNONE(oid, bound)
        return [Outcome('ok', guard=z3.Not(none),
                        post=lambda c, E, r: [('state-as-of-the-fixed-bound', isinstance(
                            r, VOpaque) and r.t == LOADRES(oid, bound))]),
                Outcome('not-existing-then', 'raise', POSKeyError, guard=none)]


class HistPoll(MvccSpec):
    func = 'ZODB.mvccadapter:HistoricalStorageAdapter.poll_invalidations'
    props = ('C15',)

    def setup(self, c, case=None):
        st = new_mstorage(c)
        me = inst(c, HIST, _storage=st, _before=c.fresh_bytes(8, '_before'))
        return {'self': me}

    def outcomes(self, c, E):
        return [Outcome('ok', post=lambda c, E, r: [('no-invalidations-ever', isinstance(
            r, VRef) and c.obj(r).kind == 'list' and c.obj(r).meta.get('items') == [])])]


class ReadOnlyWriter(MvccSpec):
    func = 'ZODB.mvccadapter:read_only_writer'
    props = ('C15',)

    def setup(self, c, case=None):
        return {'self': c.fresh_opaque('adapter'), 'a': VTuple([c.fresh_opaque('x')])}

    def outcomes(self, c, E):
        return [Outcome('refused', 'raise', ReadOnlyError)]


class GetTID(MvccSpec):
    func = 'ZODB.DB:getTID'
    props = ('C15',)
    cases = ('at', 'before', 'both', 'neither', 'at-datetime', 'before-datetime')

    def setup(self, c, case=None):
        timestamp.install(c.hooks)
        dt = lambda: VOpaque(z3.Const(fresh_name('datetime'), Obj), 'datetime')
        return {'at': c.fresh_bytes(8, 'at') if case in ('at', 'both') else
                (dt() if case == 'at-datetime' else NONE),
                'before': c.fresh_bytes(8, 'before') if case in ('before', 'both') else
                (dt() if case == 'before-datetime' else NONE)}

    def hooks(self, c):
        def isinst(cc, v, clsname):
            if v.tag == 'datetime':
                return clsname.endswith('datetime.datetime')
            return None

        def ometh(cc, v, name, args, kwargs, node):
            if v.tag == 'datetime' and name == 'utctimetuple':
                fields = [VOpaque(z3.Const(fresh_name('utc%d' % k), Obj), 'float') for k in range(9)]
                cc.ghost['utc_fields'] = fields
                return VTuple(fields)
            return None

        def oattr(cc, v, name, node):
            if v.tag == 'datetime':
                if name == 'microsecond':
                    return VOpaque(z3.Const(fresh_name('microsecond'), Obj), 'float')
                if name == 'utctimetuple':
                    return None
                # local (not UTC converted) calendar fields
                cc.event('local-field-read', name)
                return VOpaque(z3.Const(fresh_name('local_' + name), Obj), 'float')
            return None

        def ts_ctor(cc, interp, args, kwargs, node):
            cc.event('TimeStamp', tuple(args))
            r = timestamp.c_timestamp(cc, interp, args, kwargs, node)
            if isinstance(r, VRef) and 'raw' in cc.obj(r).f:
                cc.ghost['stamp_raw'] = cc.obj(r).f['raw']
            return r
        hk = {'opaque_isinstance': isinst, 'opaque_method': ometh, 'opaque_attr': oattr,
              'construct:ext:persistent.TimeStamp.TimeStamp': ts_ctor}
        timestamp.install(hk)
        return hk

    def outcomes(self, c, E):
        at, before = E['at'], E['before']
        outs = []
        if not isinstance(at, VNone) and not isinstance(before, VNone):
            return [Outcome('both', 'raise', 'builtins:ValueError')]
        if isinstance(at, VBytes):
            a = bytes_num(c, at)
            return [Outcome('at', result=lambda c, E: c.fresh_bytes(8, 'bound'), post=lambda c, E, r: [
                ('exclusive-bound-is-the-next-stamp-after-at', b8_eq_num(c, r, timestamp.LATER(a)))])]
        if isinstance(before, VBytes):
            b = bytes_num(c, before)
            return [Outcome('before', result=lambda c, E: c.fresh_bytes(8, 'bound'),
                            post=lambda c, E, r: [('bound-is-before-itself', b8_eq_num(c, r, b))])]
        if isinstance(at, VNone) and isinstance(before, VNone):
            return [Outcome('neither', result=lambda c, E: NONE,
                            post=lambda c, E, r: [('none', isinstance(r, VNone))])]

        def dt_post(c, E, r):
            ts = [e for e in c.events if e[0] == 'TimeStamp']
            utc = c.ghost.get('utc_fields')
            ok = bool(ts) and utc is not None and len(ts[0][1]) == 6 and \
                all(x is y for x, y in zip(ts[0][1][:5], utc[:5]))
            out = [('datetime-converted-through-its-UTC-time-tuple', ok),
                   ('no-local-calendar-field-used',
                    not any(e[0] == 'local-field-read' for e in c.events)),
                   ('returns-8-bytes', isinstance(r, VBytes) and r.conc_len() == 8)]
            raw = c.ghost.get('stamp_raw')
            if isinstance(r, VBytes) and r.conc_len() == 8 and raw is not None:
                # `at` is INCLUSIVE (the bound is the next stamp after the moment), `before` is the moment itself -
                # for datetimes exactly as for raw tids
                if not isinstance(at, VNone):
                    out.append(('at-datetime.exclusive-bound-is-the-next-stamp-after-the-moment',
                                b8_eq_num(c, r, timestamp.LATER(raw))))
                else:
                    out.append(('before-datetime.bound-is-the-moment-itself', b8_eq_num(c, r, raw)))
            else:
                out.append(('bound-derived-from-the-converted-stamp', False))
            return out
        return [Outcome('datetime', post=dt_post)]


def lemma_frames():
    """module-wide frame checks (syntactic, on the current source): the snapshot bound `_start` is
    assigned only in poll_invalidations (and the class default), `_before` only in
    HistoricalStorageAdapter.__init__ - hence constant between two transaction boundaries /
    for the life of a historical connection"""
    m = source.load_module('ZODB.mvccadapter')

    def writers(attr):
        out = set()
        for qual, fn in m.funcs.items():
            for n in ast.walk(fn):
                if isinstance(n, ast.Attribute) and n.attr == attr and \
                        isinstance(n.ctx, (ast.Store, ast.Del)):
                    out.add(qual)
                if isinstance(n, ast.Call) and getattr(n.func, 'id', '') == 'setattr':
                    out.add(qual + ':setattr')
        return out
    ws, wb = writers('_start'), writers('_before')
    ws = {w for w in ws if not w.endswith(':setattr') or 'MVCCAdapterInstance' in w}
    wb = {w for w in wb if not w.endswith(':setattr') or 'Historical' in w}
    # Base.__getattr__ uses setattr with names from _copy_methods only (method forwarding)
    ws.discard('Base.__getattr__:setattr')
    wb.discard('Base.__getattr__:setattr')
    return [('snapshot-bound-assigned-only-at-the-transaction-boundary',
             ([], z3.BoolVal(ws == {'MVCCAdapterInstance.poll_invalidations'}))),
            ('historical-bound-assigned-only-in-the-constructor',
             ([], z3.BoolVal(wb == {'HistoricalStorageAdapter.__init__'})))]


def lemma_snapshot():
    """C02.snapshot / C15.stable over abstract sets: with start = max(storage last tid, delivered tid)+1,
    every commit with tid < start by another instance has been delivered (its oids are in the
    drained list) or is covered by the storage's last tid ... and commits made after the bound was
    fixed have tids >= start, so loadBefore(oid, start) is unaffected by them."""
    start, last, delivered, t, newtid = z3.Ints('start storage_last delivered_tid t new_tid')
    hyps = [start == z3.If(last >= delivered, last, delivered) + 1, newtid > last, newtid > delivered]
    return [('later-commits-are-not-below-the-bound', (hyps, newtid >= start)),
            ('bound-covers-every-completed-commit', (hyps, z3.And(last < start, delivered < start)))]


SPECS = [PollInvalidations, Invalidate, InstanceLoad, InstanceTpcFinish, UndoTpcFinish,
         HistLoad, HistPoll, ReadOnlyWriter, GetTID]
VARIANTS = [PollTraced]
INLINE = ['ZODB.utils:p64', 'ZODB.utils:u64', 'ZODB.utils:load_current',
          'ZODB.mvccadapter:MVCCAdapter._invalidate_finish', 'ZODB.DB:toTimeStamp',
          'ZODB.mvccadapter:HistoricalStorageAdapter.__init__', 'ZODB.mvccadapter:Base.__init__']


def register(reg):
    text = VFunc('spec', 'repr', None, lambda c, a, k, n: VStr('<repr>'))
    for mod in ('ZODB.mvccadapter', 'ZODB.utils'):
        for nm in ('oid_repr', 'tid_repr', 'serial_repr'):
            reg.overrides[(mod, nm)] = text


class NewTransaction(MvccSpec):
    """Connection.newTransaction: the invalidations polled at the boundary (or the whole cache for
    the 'flush everything' signal None) are applied to the object cache before the method returns"""
    func = 'ZODB.Connection:Connection.newTransaction'
    props = ('C02',)

    def setup(self, c, case=None):
        rc = prims.new_map(c, 'opaque', 'opaque', '_readCurrent')
        me = inst(c, 'ZODB.Connection:Connection', _readCurrent=rc,
                  _storage=c.fresh_opaque('mvcc_instance'), _cache=c.fresh_opaque('cache'))
        c.ghost['nt'] = {'rc': rc}
        return {'self': me, 'transaction': c.fresh_opaque('transaction'), 'sync': VBool(True)}

    def hooks(self, c):
        def ometh(cc, v, name, args, kwargs, node):
            cc.event('call', v.tag, name, tuple(args))
            if v.tag == 'mvcc_instance' and name == 'poll_invalidations':
                i = cc.choose([True, True], 'poll-result')
                if i == 0:
                    return NONE
                r = cc.fresh_opaque('polled_oids')
                cc.ghost['polled'] = r
                return r
            if v.tag == 'cache_data' and name == 'copy':
                r = cc.fresh_opaque('whole_cache')
                cc.ghost['whole'] = r
                return r
            return NONE

        def oattr(cc, v, name, node):
            if v.tag == 'cache' and name == 'cache_data':
                return VOpaque(z3.Const('cache_data', Obj), 'cache_data')
            return None
        return {'opaque_method': ometh, 'opaque_attr': oattr}

    def modifies(self, c, E):
        return {(c.ghost['nt']['rc'].id, 'dom')}

    def outcomes(self, c, E):
        def post(c, E, r):
            calls = [e for e in c.events if e[0] == 'call']
            inv = [e for e in calls if e[1] == 'cache' and e[2] == 'invalidate']
            polls = [k for k, e in enumerate(calls) if e[2] == 'poll_invalidations']
            syncs = [k for k, e in enumerate(calls) if e[2] == 'sync']
            rc = c.obj(c.ghost['nt']['rc']).f
            q = z3.Const('rq', Obj)
            out = [('read-current-set-cleared', z3.ForAll([q], z3.Not(z3.Select(rc['dom'], q)))),
                   ('polled-exactly-once-after-sync', len(polls) == 1 and
                    (not syncs or syncs[0] < polls[0])),
                   ('cache-invalidated-exactly-once', len(inv) == 1)]
            if inv:
                arg = inv[0][3][0]
                if 'polled' in c.ghost:
                    out.append(('every-polled-oid-invalidated-in-the-cache',
                                arg is c.ghost['polled']))
                else:
                    out.append(('whole-cache-invalidated-on-the-flush-signal',
                                arg is c.ghost.get('whole')))
            return out
        return [Outcome('ok', post=post)]


SPECS.append(NewTransaction)


class InstanceStore(MvccSpec):
    """MVCCAdapterInstance.store / storeBlob: the record goes to the storage and its oid joins the set whose members
    tpc_finish hands to the other connections as invalidations (a blob revision is a revision like any other:
    C13 "no other connection reads the old bytes after its next boundary")."""
    func = 'ZODB.mvccadapter:MVCCAdapterInstance.store'
    props = ('C02',)
    method = 'store'

    def setup(self, c, case=None):
        me, lock, inv = self.mk_instance(c, 'committer')
        mod = demostorage.new_set(c, '_modified')
        c.obj(me).f['_modified'] = mod
        c.ghost['st'] = {'me': me, 'mod': mod}
        a = {'self': me, 'oid': c.fresh_bytes(8, 'oid'), 'serial': c.fresh_bytes(8, 'serial'),
             'data': c.fresh_opaque('data'), 'version': VStr(''), 'transaction': c.fresh_opaque('transaction')}
        if self.method == 'storeBlob':
            a['blobfilename'] = c.fresh_opaque('blobfilename')
        return a

    def modifies(self, c, E):
        return {(c.ghost['st']['mod'].id, 'dom')}

    def outcomes(self, c, E):
        g = c.ghost['st']
        d0 = c.obj(g['mod']).f['dom']
        oid = bytes_num(c, E['oid'])

        def post(c, E, r):
            m = c.obj(g['me']).f['_modified']
            same = isinstance(m, VRef) and m.id == g['mod'].id
            calls = [e for e in c.events if e[0] == 'storage-call' and e[1] == self.method]
            return [('record-handed-to-the-storage-once', len(calls) == 1),
                    ('oid-joins-the-set-invalidated-at-finish',
                     z3.BoolVal(False) if not same else All(['oid'], lambda q: z3.Select(c.obj(m).f['dom'], q) == z3.Or(
                         z3.Select(d0, q), q == oid)))]
        return [Outcome('ok', post=post)]


class InstanceStoreBlob(InstanceStore):
    func = 'ZODB.mvccadapter:MVCCAdapterInstance.storeBlob'
    props = ('C13', 'C02')
    method = 'storeBlob'


SPECS += [InstanceStore, InstanceStoreBlob]


# ======================================================================================
# C15: where the historical bound comes from - DB.open and Connection.get_connection
# ======================================================================================
def dbmap_getitem(c, recv, o, key, node):
    c.event('database-looked-up', key)
    return o.meta['db']


def dbmap_method(c, interp, ref, o, name, args, kwargs, node):
    if name == 'get':
        if c.choose([True, True], 'already-connected') == 0:
            return NONE
        c.event('existing-connection')
        return o.meta['existing']
    if name == 'update':
        c.event('connections-merged', args[0])
        return NONE
    raise Unsupported('connections.%s' % name, node)


prims.KIND_GETITEM['dbmap'] = dbmap_getitem
prims.KIND_METHOD['dbmap'] = dbmap_method


class GetConnection(MvccSpec):
    """Connection.get_connection: the connection to another database of a multi-database is opened with THIS
    connection's transaction manager and at THIS connection's historical moment (None for a live one): with this
    connection's bound, or - when the partner database has no transaction that late - with the bound just after the
    partner's newest transaction, which shows the same state and which the partner's DB.open does not refuse as
    "in the future".  A historical connection's partners thus read the same past state and are read-only as well."""
    func = 'ZODB.Connection:Connection.get_connection'
    props = ('C15',)
    cases = ('historical', 'live')

    def setup(self, c, case=None):
        other_db = c.fresh_opaque('other_db')
        dbs = c.new_obj('dbmap', None, {}, {'db': other_db, 'name': 'databases'})
        db = inst(c, 'ZODB.DB:DB', databases=dbs)
        existing = c.fresh_opaque('existing_connection')
        conns = c.new_obj('dbmap', None, {}, {'existing': existing, 'name': 'connections'})
        tm = c.fresh_opaque('transaction_manager')
        before = c.fresh_bytes(8, 'before') if case == 'historical' else NONE
        me = inst(c, 'ZODB.Connection:Connection', _db=db, connections=conns, transaction_manager=tm,
                  before=before)
        c.ghost['gc'] = {'other_db': other_db, 'tm': tm, 'before': before, 'conns': conns,
                         'existing': existing, 'name': c.fresh_opaque('database_name'),
                         'other_last': c.fresh_bytes(8, 'partner_last_tid')}
        return {'self': me, 'database_name': c.ghost['gc']['name']}

    def requires(self, c, E):
        # tids are time stamps: the all-ones tid (whose successor does not fit eight bytes) is not one
        return [('partner-last-tid-has-a-successor', bytes_num(c, c.ghost['gc']['other_last']) < 2 ** 64 - 1)]

    def hooks(self, c):
        def ometh(cc, v, name, args, kwargs, node):
            if v.tag == 'other_db' and name == 'lastTransaction':
                return cc.ghost['gc']['other_last']
            if v.tag == 'other_db' and name == 'open':
                # precondition of DB.open (its own contract, DBOpen): a bound later than the newest transaction OF
                # THAT DATABASE is refused with ValueError - the partner may not have been written for a long time
                b = kwargs.get('before')
                if isinstance(b, VBytes):
                    last2 = bytes_num(cc, cc.ghost['gc']['other_last'])
                    bb = bytes_num(cc, b)
                    cc.assume(z3.And(timestamp.LATER(last2) > last2))
                    cc.oblige('partner-open.bound-not-in-the-future-of-the-partner-database',
                              z3.Not(z3.And(bb > last2, bb > timestamp.LATER(last2))), node, assume_after=False)
                n = cc.fresh_opaque('new_connection')
                cc.event('opened', tuple(args), dict(kwargs), n)
                return n
            return None

        def oattr(cc, v, name, node):
            if v.tag == 'new_connection' and name == 'connections':
                return cc.fresh_opaque('its_connections')
            return None

        def osetattr(cc, v, name, val, node):
            if v.tag == 'new_connection' and name == 'connections':
                cc.event('shares-connections', v, val)
                return True
            return None
        return {'opaque_method': ometh, 'opaque_attr': oattr, 'opaque_setattr': osetattr,
                'opaque_is_none': lambda cc, v: False}

    def modifies(self, c, E):
        return set()

    def outcomes(self, c, E):
        g = c.ghost['gc']

        def post(c, E, r):
            opened = [e for e in c.events if e[0] == 'opened']
            if any(e[0] == 'existing-connection' for e in c.events):
                return [('existing-partner-reused', isinstance(r, VOpaque) and r is g['existing'] and not opened)]
            ok1 = len(opened) == 1 and not opened[0][1]
            kw = opened[0][2] if opened else {}
            b = kw.get('before')
            # the same MOMENT: the partner has nothing later than its newest transaction, so the bound just after
            # that transaction shows the same state as this connection's (later) bound
            if isinstance(b, VBytes) and isinstance(g['before'], VBytes):
                mine, last2 = bytes_num(c, g['before']), bytes_num(c, g['other_last'])
                same_bound = z3.Or(bytes_num(c, b) == mine,
                                   z3.And(last2 < bytes_num(c, b), bytes_num(c, b) <= mine))
            else:
                same_bound = isinstance(b, VNone) and isinstance(g['before'], VNone)
            return [('partner-opened-once-in-the-named-database', ok1 and any(
                        e[0] == 'database-looked-up' and e[1] is g['name'] for e in c.events)),
                    ('partner-uses-the-same-transaction-manager', kw.get('transaction_manager') is g['tm']),
                    ('partner-reads-the-same-historical-moment', same_bound if b is not None else False),
                    ('no-at-argument', 'at' not in kw),
                    ('partner-shares-the-connection-table', any(
                        e[0] == 'shares-connections' and e[1] is opened[0][3] and
                        isinstance(e[2], VRef) and e[2].id == g['conns'].id for e in c.events) if opened else False),
                    ('returns-the-new-partner', bool(opened) and r is opened[0][3])]
        return [Outcome('ok', post=post, result=lambda cc, E: cc.fresh_opaque('connection'))]


class DBOpen(MvccSpec):
    """DB.open: at/before are normalised to ONE exclusive bound (getTID); a bound later than the newest transaction
    (i.e. greater than both its tid and the stamp following it) is refused with ValueError and nothing is opened;
    otherwise the connection handed out was constructed with, or pooled under, exactly that bound - a live one
    (bound None) comes from the live pool - and is opened with the caller's transaction manager."""
    func = 'ZODB.DB:DB.open'
    props = ('C15',)
    cases = ('before', 'at', 'live')

    def setup(self, c, case=None):
        timestamp.install(c.hooks)
        lock = prims.new_lock(c, 'DB._lock', reentrant=False, held=0)
        last = c.fresh_bytes(8, 'last_tid')
        me = inst(c, 'ZODB.DB:DB', _lock=lock, pool=c.fresh_opaque('pool'),
                  historical_pool=c.fresh_opaque('historical_pool'),
                  _historical_cache_size=c.fresh_int('hcs'), _historical_cache_size_bytes=c.fresh_int('hcsb'),
                  _cache_size=c.fresh_int('cs'), _cache_size_bytes=c.fresh_int('csb'))
        tm = c.fresh_opaque('transaction_manager')
        c.ghost['do'] = {'last': last, 'tm': tm, 'lock': lock, 'pushed': {}}
        return {'self': me, 'transaction_manager': tm,
                'at': c.fresh_bytes(8, 'at') if case == 'at' else NONE,
                'before': c.fresh_bytes(8, 'before') if case == 'before' else NONE}

    def bound(self, c, E):
        if isinstance(E['at'], VBytes):
            return timestamp.LATER(bytes_num(c, E['at']))
        if isinstance(E['before'], VBytes):
            return bytes_num(c, E['before'])
        return None

    def hooks(self, c):
        g = lambda cc: cc.ghost['do']

        def last_txn(cc, args, kwargs, node):
            return g(cc)['last']

        def construct(cc, interp, args, kwargs, node):
            n = cc.fresh_opaque('constructed_connection')
            cc.event('constructed', tuple(args), n)
            return n

        def ometh(cc, v, name, args, kwargs, node):
            if v.tag in ('pool', 'historical_pool'):
                cc.oblige('pools-touched-under-the-database-lock', cc.obj(g(cc)['lock']).f['held'] >= 1, node,
                          assume_after=False)
                if name == 'pop':
                    pushed = g(cc)['pushed'].get(v.tag)
                    if pushed is not None:
                        cc.event('popped', v.tag, tuple(args), pushed[0], 'pushed')
                        return pushed[0]
                    if cc.choose([True, True], 'pool-has-one') == 0:
                        return NONE
                    n = cc.fresh_opaque('pooled_connection')
                    cc.event('popped', v.tag, tuple(args), n, 'pooled')
                    return n
                if name == 'push':
                    g(cc)['pushed'][v.tag] = (args[0], tuple(args[1:]))
                    cc.event('pushed', v.tag, tuple(args))
                    return NONE
                if name == 'availableGC':
                    return NONE
            if v.tag in ('pooled_connection', 'constructed_connection') and name == 'open':
                cc.event('connection-opened', v, tuple(args))
                return NONE
            return None

        def isinst(cc, v, clsname):
            if v.tag == 'transaction_manager' and clsname.endswith('str'):
                return False
            return None
        hk = {'call:ZODB.DB:DB.lastTransaction': last_txn, 'construct:ZODB.Connection:Connection': construct,
              'opaque_method': ometh, 'opaque_isinstance': isinst, 'opaque_is_none': lambda cc, v: False}
        timestamp.install(hk)
        return hk

    def modifies(self, c, E):
        return set()

    def outcomes(self, c, E):
        g = c.ghost['do']
        b = self.bound(c, E)
        last = bytes_num(c, g['last'])
        future = z3.BoolVal(False) if b is None else z3.And(b > last, b > timestamp.LATER(last))

        def same_key(key):
            if b is None:
                return len(key) == 0
            return len(key) == 1 and isinstance(key[0], VBytes) and bytes_num(c, key[0]) == b

        def post(c, E, r):
            pops = [e for e in c.events if e[0] == 'popped']
            made = [e for e in c.events if e[0] == 'constructed']
            opened = [e for e in c.events if e[0] == 'connection-opened']
            want_pool = 'pool' if b is None else 'historical_pool'
            out = [('connection-comes-from-the-right-pool', bool(pops) and all(e[1] == want_pool for e in pops)),
                   ('pool-key-is-the-normalised-bound', as_z3_bool(z3.And(*[
                       x if isinstance(x, z3.ExprRef) else z3.BoolVal(bool(x)) for x in
                       [same_key(e[2]) for e in pops]])) if pops else False),
                   ('returns-the-popped-connection', bool(pops) and r is pops[-1][3]),
                   ('opened-once-with-the-callers-transaction-manager',
                    len(opened) == 1 and opened[0][1] is r and len(opened[0][2]) == 1 and
                    opened[0][2][0] is g['tm']),
                   ('database-lock-released', c.obj(g['lock']).f['held'] == 0)]
            if made:
                a = made[0][1]
                bnd = a[2] if len(a) > 2 else None
                okb = (isinstance(bnd, VNone) and b is None) or \
                    (isinstance(bnd, VBytes) and b is not None and bytes_num(c, bnd) == b)
                out.append(('new-connection-constructed-with-the-normalised-bound', okb))
                pushed = [e for e in c.events if e[0] == 'pushed']
                out.append(('new-connection-filed-under-the-bound', len(pushed) == 1 and
                            pushed[0][1] == want_pool and pushed[0][2][0] is made[0][2] and
                            same_key(pushed[0][2][1:])))
            return out

        def refused(c, E, r):
            return [('nothing-opened', not any(e[0] in ('popped', 'constructed', 'connection-opened')
                                               for e in c.events))]
        return [Outcome('ok', guard=z3.Not(future), post=post, result=lambda cc, E: cc.fresh_opaque('connection')),
                Outcome('future-refused', 'raise', 'builtins:ValueError', guard=future, post=refused)]


SPECS += [GetConnection, DBOpen]


# ======================================================================================
# C02: who makes the transaction boundaries happen - Connection.open / afterCompletion
# ======================================================================================
class BoundarySpec(MvccSpec):
    props = ('C02',)

    def mk(self, c, explicit):
        tm = c.fresh_opaque('transaction_manager')
        me = inst(c, 'ZODB.Connection:Connection', transaction_manager=NONE, explicit_transactions=VBool(False),
                  opened=NONE, _reset_counter=c.fresh_int('_reset_counter'),
                  _storage=c.fresh_opaque('mvcc_instance'), _cache=c.fresh_opaque('cache'))
        c.ghost['bd'] = {'me': me, 'tm': tm, 'explicit': explicit}
        return me, tm

    def hooks(self, c):
        g = lambda cc: cc.ghost['bd']

        def oattr(cc, v, name, node):
            if v.tag == 'transaction_manager' and name == 'explicit':
                return VBool(g(cc)['explicit'])
            return None

        def ometh(cc, v, name, args, kwargs, node):
            cc.event('call', v.tag, name, tuple(args))
            return NONE

        def recorder(nm):
            def f(cc, args, kwargs, node):
                cc.event('self-call', nm, tuple(args[1:]))
                return NONE
            return f

        def has_attr(cc, interp, args, kwargs, node):
            if isinstance(args[0], VOpaque) and args[0].tag == 'mvcc_instance':
                return VBool(z3.Bool(fresh_name('storage_has_afterCompletion')))
            return None
        hk = {'opaque_attr': oattr, 'opaque_method': ometh, 'opaque_is_none': lambda cc, v: False,
              'call:ZODB.Connection:Connection.newTransaction': recorder('newTransaction'),
              'call:ZODB.Connection:Connection._resetCache': recorder('_resetCache'),
              'prim:builtins.hasattr': lambda cc, interp, a, k, n: VBool(z3.Bool(fresh_name('has_afterCompletion')))}
        timestamp.install(hk)
        return hk


class ConnectionOpen(BoundarySpec):
    """Connection.open (run by DB.open for new AND pooled connections): the connection takes the caller's transaction
    manager, starts a new cache first if resetCaches() was called since, crosses a transaction boundary
    (newTransaction: pending invalidations applied, new snapshot bound) unless the manager is in explicit mode, and
    REGISTERS itself with the manager so that every later begin/commit/abort is a boundary for it too."""
    func = 'ZODB.Connection:Connection.open'
    cases = ('implicit', 'explicit')

    def setup(self, c, case=None):
        me, tm = self.mk(c, case == 'explicit')
        return {'self': me, 'transaction_manager': tm, 'delegate': VBool(False)}

    def modifies(self, c, E):
        me = c.ghost['bd']['me']
        return {(me.id, 'transaction_manager'), (me.id, 'explicit_transactions'), (me.id, 'opened')}

    def outcomes(self, c, E):
        g = c.ghost['bd']
        stale_cache = c.obj(g['me']).f['_reset_counter'].t != 0

        def post(c, E, r):
            S = c.obj(g['me']).f
            sc = [e for e in c.events if e[0] == 'self-call']
            nt = [k for k, e in enumerate(sc) if e[1] == 'newTransaction']
            rc = [k for k, e in enumerate(sc) if e[1] == '_resetCache']
            reg = [e for e in c.events if e[0] == 'call' and e[1] == 'transaction_manager' and e[2] == 'registerSynch']
            out = [('uses-the-callers-transaction-manager', S['transaction_manager'] is g['tm']),
                   ('explicit-mode-taken-from-the-manager', isinstance(S['explicit_transactions'], VBool) and
                    contract.same_value(c, S['explicit_transactions'], VBool(g['explicit']))),
                   ('registered-for-the-managers-transaction-boundaries', len(reg) == 1 and len(reg[0][3]) == 1 and
                    isinstance(reg[0][3][0], VRef) and reg[0][3][0].id == g['me'].id),
                   ('cache-reset-iff-resetCaches-was-called-since', z3.BoolVal(bool(rc)) == stale_cache),
                   ('at-most-one-boundary-and-one-reset', len(nt) <= 1 and len(rc) <= 1)]
            if g['explicit']:
                out.append(('explicit-mode.no-boundary-before-begin', not nt))
            else:
                out.append(('crosses-a-transaction-boundary-on-open (pooled connections too)', len(nt) == 1))
                if nt and rc:
                    out.append(('cache-reset-before-the-boundary', rc[0] < nt[0]))
            return out
        return [Outcome('ok', post=post)]


class AfterCompletion(BoundarySpec):
    """Connection.afterCompletion (called by the manager after every commit and abort): the end of a transaction is
    a boundary - pending invalidations are applied and a new snapshot bound is taken - unless the manager is in
    explicit mode (then begin() is the boundary)."""
    func = 'ZODB.Connection:Connection.afterCompletion'
    cases = ('implicit', 'explicit')

    def setup(self, c, case=None):
        me, tm = self.mk(c, case == 'explicit')
        c.obj(me).f['explicit_transactions'] = VBool(case == 'explicit')
        c.obj(me).f['transaction_manager'] = tm
        t = c.fresh_opaque('transaction')
        c.ghost['bd']['txn'] = t
        return {'self': me, 'transaction': t}

    def modifies(self, c, E):
        return set()

    def outcomes(self, c, E):
        g = c.ghost['bd']

        def post(c, E, r):
            nt = [e for e in c.events if e[0] == 'self-call' and e[1] == 'newTransaction']
            if g['explicit']:
                return [('explicit-mode.no-boundary-here', not nt)]
            return [('the-end-of-a-transaction-is-a-boundary', len(nt) == 1 and len(nt[0][2]) >= 1 and
                     nt[0][2][0] is g['txn'])]
        return [Outcome('ok', post=post)]


SPECS += [ConnectionOpen, AfterCompletion]


class BeforeInstance(MvccSpec):
    """MVCCAdapter.before_instance(before): a historical adapter over the adapter's OWN storage, fixed at exactly the
    bound given (the real HistoricalStorageAdapter constructor runs)."""
    func = 'ZODB.mvccadapter:MVCCAdapter.before_instance'
    props = ('C15',)

    def setup(self, c, case=None):
        st = new_mstorage(c)
        c.ghost['mstorage'] = st
        alock = prims.new_lock(c, 'adapter._lock', reentrant=False, held=0)
        me = inst(c, ADAPTER, _storage=st, _lock=alock, _instances=demostorage.new_set(c, '_instances'))
        before = c.fresh_bytes(8, 'before')
        c.ghost['bi'] = {'before': before, 'st': st}
        return {'self': me, 'before': before}

    def modifies(self, c, E):
        return set()

    def outcomes(self, c, E):
        g = c.ghost['bi']

        def post(c, E, r):
            ok = isinstance(r, VRef) and c.obj(r).cls == HIST
            out = [('returns-a-historical-adapter', ok)]
            if ok:
                f = c.obj(r).f
                out += [('fixed-at-the-given-bound', isinstance(f.get('_before'), VBytes) and
                         bytes_num(c, f['_before']) == bytes_num(c, g['before'])),
                        ('over-the-adapters-own-storage', isinstance(f.get('_storage'), VRef) and
                         f['_storage'].id == g['st'].id)]
            return out
        return [Outcome('ok', post=post)]


SPECS.append(BeforeInstance)
