"""C08 / C07 (catch-up side of the FileStorage packer): FileStoragePacker.copyOne, copyRest, pack and
FileStorage.packer - the hand-over of the commit lock per copied transaction and the guarantee that
the packer returns, HOLDING the commit lock, only after it has consumed the data file up to its
real end.

Environment model (rely): other threads can append complete transactions to the data file whenever
this thread does not hold the commit lock.  The VC generator applies that step at every acquisition
of the commit lock (hook 'acquired'): the size of the data file is replaced by an arbitrary size >=
the old one, and ENV-INV is assumed for the new size:

  ENV-INV   while the commit lock is held the data file ends at the committed end and [4, size) is
            tiled by complete transactions (the commit lock is held from tpc_begin to finish/abort,
            and _abort cuts the file back: contracts of C01/C05)

LOCKFLAG    self.locked  <=>  this thread holds the commit lock          (every exit)
CONSUMED    on `return pos` of pack(): lock held and every byte of the data file has been consumed:
            the last end-of-file test was made at the frontier of the copy, against the real end of
            the file, with the lock held since.
"""
import z3

from pyvc import contract, prims
from pyvc.contract import LoopSpec, Outcome, Spec
from pyvc.engine import RaiseSig, Unsupported, as_z3_bool, bytes_num
from pyvc.ground import All
from pyvc.values import (B, I, NONE, Obj, VBool, VBytes, VExc, VFunc, VInt, VNone, VOpaque, VRef,
                         VStr, VTuple, fresh_name)

from . import fsmodel as M
from . import pack_gc as G
from .common import KeyError_, OSError_, POSKeyError, inst
from .pack_swap import DATA, PACK

FSP = 'ZODB.FileStorage.fspack'
PK = FSP + ':FileStoragePacker'
PackError = FSP + ':PackError'

ASSUMPTIONS = (
    'ENV (rely): other threads only APPEND complete transactions to the data file, and only while this thread '
    'does not hold the commit lock; applied at every acquisition of the commit lock',
    'ENV-INV: while the commit lock is held the data file ends at the committed end and is tiled by complete '
    'transactions (contracts of tpc_begin/_finish/_abort, C01/C05)',
    'PackCopier.copy, fetchDataViaBackpointer, getTxnFromData, copyToPacktime: assumed frame contracts (write only '
    'the .pack file and the packer\'s indexes; may raise) - the CONTENT of the packed file is covered by the bounded '
    'before/after harness of C07, not proved',
)


class CopyWorld:
    pass


def mk_packer(c, locked, gc_fresh=False):
    """a symbolic FileStoragePacker over a symbolic open FileStorage"""
    w = CopyWorld()
    w.c = c
    h = M.mk_fs(c, in_txn=False, read_only=False)
    c.ghost[('fs', h.self.id)] = h
    w.h = h
    c.assume(c.obj(h.lock).f['held'] == 0)
    c.assume(c.obj(h.commit_lock).f['held'] == (1 if locked else 0))
    w.A = c.obj(h.file).f['arr']
    w.size0 = z3.Int(fresh_name('datafile_size'))
    c.assume(z3.And(w.size0 >= 4, w.size0 < M.MAXPOS))
    w.pf = prims.new_file(c, 'packer_handle', arr=w.A, size=w.size0, mode='rb')
    c.obj(w.pf).meta['datafile'] = True
    w.tfile = prims.new_file(c, 'packfile_out', mode='w+b')
    w.gcw = G.mk_gc(c, fresh_gc=gc_fresh, file=w.pf)
    w.gcw.later = G.Later(c, w.gcw)
    G.fresh_U(c, w.gcw)
    if gc_fresh:
        c.obj(w.gcw.self).f['packpos'] = NONE
    w.R = w.gcw.R
    w.lt = w.gcw.later
    w.vrec = z3.Array(fresh_name('vrec_env'), I, B)   # records of the (growing) file, ENV-INV
    c.roles.array(w.vrec, 'pos')
    w.index = prims.new_map(c, 'bytes8', 'int', 'pack_index', sorted_=True, cls='ZODB.fsIndex:fsIndex')
    w.tindex = prims.new_map(c, 'bytes8', 'int', 'pack_tindex')
    w.copier = inst(c, FSP + ':PackCopier', _file=w.tfile, _index=w.index, _tindex=w.tindex, _pos=NONE)
    w.file_end = c.fresh_int('file_end')
    w.self = inst(c, PK, _storage=h.self, pack_blobs=VBool(False), blob_removed=NONE,
                  _name=VStr(DATA), _file=w.pf, _path=VStr(DATA), _stop=c.fresh_bytes(8, 'stop'),
                  locked=VBool(locked), file_end=w.file_end, gc=w.gcw.self, _lock=h.lock,
                  _commit_lock=h.commit_lock, index=w.index, tindex=w.tindex, _tfile=w.tfile,
                  _copier=w.copier)
    c.ghost[('packer', w.self.id)] = w
    c.ghost['packer'] = w
    return w


def world(c, selfv):
    return c.ghost[('packer', selfv.id)]


def dsize(c, w):
    """current size of the data file as the packer's handle sees it"""
    f = c.obj(w.self).f['_file']
    return c.obj(f).f['size']


class EnvView:
    """what later_clauses needs of a world, for the growing file"""

    def __init__(self, w):
        self.R, self.vrec = w.R, w.vrec


def env_inv(c, w, lo, size):
    """ENV-INV for the region [lo, size)"""
    sel = z3.Select
    R = w.R
    lt = w.lt
    out = G.later_clauses(EnvView(w), lt, lo=lo, eof=size)
    out.append(('env.records-wellformed', All(['pos'], lambda p: z3.Implies(
        z3.And(sel(lt.rec, p), p >= lo, p < size),
        z3.And(R.vlen(p) == 0, R.plen(p) >= 0, R.oid(p) >= 0)))))
    return out


def install_env(c, hk, w_of):
    """the rely step at every acquisition of the commit lock"""
    def acquired(cc, ref, node):
        w = w_of(cc)
        if ref.id != w.h.commit_lock.id:
            return
        f = cc.obj(w.self).f['_file']
        old = cc.obj(f).f['size']
        new = z3.Int(fresh_name('datafile_size'))
        cc.assume(new >= old)
        cc.assume(new < M.MAXPOS)
        cc.obj(f).f['size'] = new
        cc.ghost['datafile_size'] = new
        for lbl, b in env_inv(cc, w, cc.ghost.get('env_lo', z3.IntVal(4)), new):
            cc.assume(b)
        cc.event('env-step', old, new)
    hk['acquired'] = acquired

    def open_(cc, args, kwargs, node):
        w = w_of(cc)
        nm = args[0].s if isinstance(args[0], VStr) else None
        if nm == DATA:
            # a new handle on the data file sees its current size
            cur = cc.obj(cc.obj(w.self).f['_file']).f['size'] if isinstance(
                cc.obj(w.self).f.get('_file'), VRef) else w.size0
            f = prims.new_file(cc, 'packer_handle', arr=w.A, size=cc.ghost.get('datafile_size', cur),
                               pos=z3.IntVal(0), mode='rb')
            cc.event('open', f, nm)
            return f
        if nm == PACK:
            f = prims.new_file(cc, 'packfile_out', arr=z3.K(I, z3.IntVal(0)), size=z3.IntVal(0),
                               pos=z3.IntVal(0), mode='w+b')
            cc.event('open', f, nm)
            return f
        raise Unsupported('open(%r)' % (args[0],), node)
    hk['open'] = open_

    def os_remove(cc, interp, args, kwargs, node):
        cc.event('os', 'remove', args[0].s if isinstance(args[0], VStr) else args[0])
        if cc.choose([True, True], 'os-remove-fault') == 1:
            raise RaiseSig(VExc(OSError_))
        return NONE
    hk['prim:os.remove'] = os_remove


def lockflag(c, w):
    held = c.obj(w.h.commit_lock).f['held']
    lk = c.obj(w.self).f['locked']
    if not isinstance(lk, VBool):
        return z3.BoolVal(False)
    return as_z3_bool(lk.t) == (held == 1)


class PackerSpec(Spec):
    props = ('C08', 'C07')
    assumptions = ASSUMPTIONS + G.ASSUMPTIONS

    def w(self, c, E):
        return world(c, E['self'])

    def hooks(self, c):
        hk = {}
        install_env(c, hk, lambda cc: cc.ghost['packer'])
        return hk


# ======================================================================================
# assumed frame contracts of the content-copying helpers
# ======================================================================================
class FrameOnly(PackerSpec):
    verify = False
    props = ()
    raises = (M.CorruptedError, PackError, OSError_, POSKeyError)

    def modifies(self, c, E):
        w = c.ghost['packer']
        return {(w.tfile.id, '*'), (w.pf.id, 'pos'), (w.index.id, 'dom'), (w.index.id, 'val'),
                (w.tindex.id, 'dom'), (w.tindex.id, 'val')}

    def havoc(self, c, E, outcome=None):
        w = c.ghost['packer']
        f = c.obj(w.self).f['_file']
        if isinstance(f, VRef):
            c.obj(f).f['pos'] = z3.Int(fresh_name('fpos'))
        t = c.obj(w.self).f['_tfile']
        if isinstance(t, VRef):
            to = c.obj(t).f
            to['arr'] = z3.Array(fresh_name('pack_img'), I, I)
            to['size'] = z3.Int(fresh_name('pack_size'))
            to['pos'] = z3.Int(fresh_name('pack_pos'))
            c.assume(z3.And(to['pos'] >= 0, to['size'] >= to['pos']))
        for m_ in (w.index, w.tindex):
            o = c.obj(m_)
            o.f['dom'] = z3.Array(fresh_name('pidx_dom'), I, B)
            o.f['val'] = z3.Array(fresh_name('pidx_val'), I, I)

    def ok(self, c, E):
        return NONE

    def outcomes(self, c, E):
        return [Outcome('ok', result=self.ok)] + \
            [Outcome('raises-' + x.split(':')[-1], 'raise', x) for x in self.raises]


class CopierCopy(FrameOnly):
    func = FSP + ':PackCopier.copy'


class FetchData(FrameOnly):
    func = PK + '.fetchDataViaBackpointer'

    def ok(self, c, E):
        return [NONE, c.fresh_barr('data')][c.choose([True, True], 'fetched')]


class GetTxnFromData(FrameOnly):
    func = 'ZODB.FileStorage.format:FileStorageFormatter.getTxnFromData'

    def ok(self, c, E):
        return c.fresh_bytes(8, 'prev_txn')


class CopyToPacktime(FrameOnly):
    func = PK + '.copyToPacktime'

    def ok(self, c, E):
        w = c.ghost['packer']
        opos = c.fresh_int('opos')
        c.assume(z3.And(opos.t >= 4, opos.t <= w.gcw.pp))
        c.ghost['copied_upto'] = w.gcw.pp
        return VTuple([VInt(w.gcw.pp), opos])


# ======================================================================================
class CopyOne(PackerSpec):
    func = PK + '.copyOne'

    def setup(self, c, case=None):
        w = mk_packer(c, locked=True)
        ipos = c.fresh_int('ipos')
        c.ghost['env_lo'] = ipos.t
        return {'self': w.self, 'ipos': ipos}

    def requires(self, c, E):
        w = self.w(c, E)
        ipos = E['ipos'].t
        w.lt.T.link(c, ipos)
        return [('commit-lock-held', c.obj(w.h.commit_lock).f['held'] == 1),
                ('LOCKFLAG', lockflag(c, w)),
                ('at-a-transaction-boundary', z3.And(ipos >= 4, ipos <= dsize(c, w)))] + \
            env_inv(c, w, ipos, dsize(c, w))

    def modifies(self, c, E):
        w = self.w(c, E)
        return {(w.tfile.id, '*'), (w.pf.id, 'pos'), (w.pf.id, 'size'), (w.index.id, 'dom'),
                (w.index.id, 'val'), (w.tindex.id, 'dom'), (w.tindex.id, 'val'),
                (w.h.commit_lock.id, 'held'), (w.self.id, 'locked'), (w.copier.id, '_pos')}

    def havoc(self, c, E, outcome=None):
        w = self.w(c, E)
        FrameOnly.havoc(self, c, E)
        c.obj(w.copier).f['_pos'] = c.fresh_int('copier_pos')
        if outcome is not None and outcome.label == 'copied':
            # rely step (the lock was free for a while) + ENV-INV under the re-acquired lock
            f = c.obj(w.self).f['_file']
            old = c.obj(f).f['size']
            new = z3.Int(fresh_name('datafile_size'))
            c.assume(z3.And(new >= old, new < M.MAXPOS))
            c.obj(f).f['size'] = new
            c.ghost['datafile_size'] = new
            for lbl, b in env_inv(c, w, E['ipos'].t, new):
                c.assume(b)
        if outcome is not None and outcome.label == 'failed':
            c.obj(w.h.commit_lock).f['held'] = z3.IntVal(0)
            c.obj(w.self).f['locked'] = VBool(False)

    @property
    def loops(self):
        none = lambda cc, fr: NONE
        sel = z3.Select

        def hv(cc, fr):
            FrameOnly.havoc(self, cc, cc.E)

        def inv(cc, fr):
            w = self.w(cc, cc.E)
            lt = w.lt
            ipos0 = cc.E['ipos'].t
            ipos, tend = fr.locals['ipos'].t, fr.locals['tend'].t
            w.R.link(cc, ipos)
            return [
                ('lock-released-while-copying', z3.And(cc.obj(w.h.commit_lock).f['held'] == 0,
                                                       lockflag(cc, w))),
                ('in-the-transaction', tend == ipos0 + lt.T.tl(ipos0)),
                ('at-record-or-end', z3.And(ipos >= ipos0 + lt.T.hdrlen(ipos0), ipos <= tend, z3.Or(
                    ipos == tend, z3.And(sel(lt.rec, ipos), sel(lt.txnOf, ipos) == ipos0)))),
                ('data-file-untouched', z3.And(cc.obj(w.pf).f['size'] == cc.E.old[w.pf.id]['size'],
                                               cc.obj(w.pf).f['arr'] == w.A)),
            ]
        return {0: LoopSpec(inv=inv, havoc=hv, kinds={'h': none, 'data': none, 'prev_txn': none})}

    def outcomes(self, c, E):
        w = self.w(c, E)
        ipos = E['ipos'].t
        size = dsize(c, w)
        lt = w.lt
        c.ghost['frontier'] = ipos     # ghost: the position of the last header read by the copy
        avail = size - ipos
        got = z3.If(avail > 0, avail, 0)
        held = lambda cc: cc.obj(w.h.commit_lock).f['held']

        def mk_eof(cc, E):
            return VExc(M.CorruptedDataError, [], {'oid': NONE, 'pos': VInt(ipos),
                                                   'buf': VBytes([('a', w.A, ipos, got)])})

        def post_eof(cc, E, x):
            ok = isinstance(x, VExc) and isinstance(x.attrs.get('pos'), VInt)
            return [('lock-still-held', z3.And(held(cc) == 1, lockflag(cc, w))),
                    ('reports-the-position-of-the-short-read', ok and x.attrs['pos'].t == ipos),
                    ('data-file-size-unchanged', dsize(cc, w) == size)]

        def post_copied(cc, E, r):
            return [('lock-held-again', z3.And(held(cc) == 1, lockflag(cc, w))),
                    ('returns-the-next-transaction-boundary', isinstance(r, VInt) and
                     r.t == ipos + lt.T.tl(ipos) + 8),
                    ('data-file-only-grows', dsize(cc, w) >= size)]

        def post_failed(cc, E, x):
            return [('lock-not-held-and-flag-says-so', z3.And(held(cc) == 0, lockflag(cc, w)))]
        return [Outcome('eof', 'raise', M.CorruptedDataError, guard=avail < 23, result=mk_eof,
                        post=post_eof),
                Outcome('copied', guard=avail >= 23, result=lambda cc, E: VInt(
                    ipos + lt.T.tl(ipos) + 8), post=post_copied),
                Outcome('failed', 'raise', 'builtins:Exception', guard=avail >= 23, post=post_failed)]


# ======================================================================================
class CopyRest(PackerSpec):
    func = PK + '.copyRest'

    def setup(self, c, case=None):
        w = mk_packer(c, locked=True)
        ipos = c.fresh_int('ipos')
        c.ghost['env_lo'] = ipos.t
        c.ghost['frontier'] = None
        return {'self': w.self, 'ipos': ipos}

    def requires(self, c, E):
        return CopyOne.requires(self, c, E)

    def modifies(self, c, E):
        return CopyOne.modifies(self, c, E)

    def havoc(self, c, E, outcome=None):
        w = self.w(c, E)
        FrameOnly.havoc(self, c, E)
        c.obj(w.copier).f['_pos'] = c.fresh_int('copier_pos')
        f = c.obj(w.self).f['_file']
        old = c.obj(f).f['size']
        new = z3.Int(fresh_name('datafile_size'))
        c.assume(z3.And(new >= old, new < M.MAXPOS))
        c.obj(f).f['size'] = new
        c.ghost['datafile_size'] = new
        if outcome is not None and outcome.label == 'consumed':
            c.ghost['frontier'] = new
        if outcome is not None and outcome.label == 'failed':
            h_ = z3.Int(fresh_name('held'))
            c.assume(z3.Or(h_ == 0, h_ == 1))
            c.obj(w.h.commit_lock).f['held'] = h_
            c.obj(w.self).f['locked'] = VBool(h_ == 1)

    @property
    def loops(self):
        def hv(cc, fr):
            w = self.w(cc, cc.E)
            CopyRest.havoc(self, cc, cc.E)
            cc.ghost['frontier'] = None

        def inv(cc, fr):
            w = self.w(cc, cc.E)
            ipos = fr.locals['ipos'].t
            w.lt.T.link(cc, ipos)
            return [('commit-lock-held', z3.And(cc.obj(w.h.commit_lock).f['held'] == 1, lockflag(cc, w))),
                    ('at-a-transaction-boundary', z3.And(ipos >= cc.E['ipos'].t, ipos <= dsize(cc, w),
                                                         z3.Select(w.lt.isB, ipos))),
                    ('data-file-only-grows', dsize(cc, w) >= cc.E.old[w.pf.id]['size'])] + \
                env_inv(cc, w, cc.E['ipos'].t, dsize(cc, w))
        return {0: LoopSpec(inv=inv, havoc=hv)}

    def outcomes(self, c, E):
        w = self.w(c, E)
        held = lambda cc: cc.obj(w.h.commit_lock).f['held']

        def post_consumed(cc, E, r):
            fr_ = cc.ghost.get('frontier')
            last = [e for e in cc.events if e[0] == 'outcome:copyOne']
            return [('commit-lock-held', z3.And(held(cc) == 1, lockflag(cc, w))),
                    ('end-of-file-test-made-at-the-frontier-of-the-copy',
                     (fr_ is not None) and (bool(last) and last[-1][1] == 'eof' or
                                           bool(getattr(cc, 'in_apply', 0)))),
                    ('frontier-is-the-real-end-of-the-data-file',
                     (fr_ is not None) and fr_ == dsize(cc, w))]

        def post_failed(cc, E, x):
            return [('LOCKFLAG', z3.And(z3.Or(held(cc) == 0, held(cc) == 1), lockflag(cc, w)))]
        return [Outcome('consumed', result=lambda cc, E: NONE, post=post_consumed),
                Outcome('failed', 'raise', 'builtins:Exception', post=post_failed)]


# ======================================================================================
class Pack(PackerSpec):
    """FileStoragePacker.pack: returns None (nothing freed, .pack removed, lock not held) or the end
    position of the packed file HOLDING the commit lock, having consumed the data file up to its
    real end (CONSUMED); every exception leaves the lock released"""
    func = PK + '.pack'
    cases = ('gc', 'no-gc')
    assumptions = PackerSpec.assumptions + G.BuildPackIndex.assumptions

    def setup(self, c, case=None):
        w = mk_packer(c, locked=False, gc_fresh=True)
        c.obj(w.gcw.self).f['gc'] = VBool(case == 'gc')
        # FileStoragePacker.__init__: file_end = storage.getSize(); GC(self._file, self.file_end, ...)
        c.obj(w.self).f['file_end'] = w.gcw.eof
        c.obj(w.self).f['_tfile'] = NONE
        c.ghost['env_lo'] = z3.IntVal(4)
        c.ghost['frontier'] = None
        c.ghost['copied_upto'] = None
        return {'self': w.self}

    def requires(self, c, E):
        w = self.w(c, E)
        return [('commit-lock-not-held-by-this-thread', c.obj(w.h.commit_lock).f['held'] == 0),
                ('LOCKFLAG', lockflag(c, w))] + G.find_reachable_requires(c, w.gcw)

    def definitions(self, c, E):
        return G.map_model(c, self.w(c, E).gcw)

    def modifies(self, c, E):
        w = self.w(c, E)
        g = w.gcw
        return CopyOne.modifies(self, c, E) | {
            (w.self.id, '_tfile'), (w.self.id, '_file'), (w.self.id, 'file_end'), (w.self.id, '_copier'),
            (w.pf.id, '*'), (w.h.lock.id, 'held'),
            (g.cur.id, 'dom'), (g.cur.id, 'val'), (g.cur.id, 'size'), (g.self.id, 'packpos'),
            (g.self.id, 'ltid'), (g.self.id, 'oid2curpos'), (g.self.id, 'reachable'),
            (g.reachable.id, 'dom'), (g.reachable.id, 'val'), (g.reach_ex.id, 'mem')}

    def havoc(self, c, E, outcome=None):
        w = self.w(c, E)
        if outcome is not None and outcome.label == 'packed':
            c.obj(w.h.commit_lock).f['held'] = z3.simplify(c.obj(w.h.commit_lock).f['held'] + 1)
            c.obj(w.self).f['locked'] = VBool(True)
        for m_ in (w.index,):
            o = c.obj(m_)
            o.f['dom'] = z3.Array(fresh_name('pidx_dom'), I, B)
            o.f['val'] = z3.Array(fresh_name('pidx_val'), I, I)

    def outcomes(self, c, E):
        w = self.w(c, E)
        held = lambda cc: cc.obj(w.h.commit_lock).f['held']

        def post_packed(cc, E, r):
            if getattr(cc, 'in_apply', 0):
                return [('commit-lock-held', z3.And(held(cc) == 1, lockflag(cc, w)))]
            ran = [e for e in cc.events if e[0] == 'outcome:copyRest']
            consumed = cc.ghost.get('frontier') if ran else cc.ghost.get('copied_upto')
            return [('commit-lock-held', z3.And(held(cc) == 1, lockflag(cc, w))),
                    ('storage-lock-released', cc.obj(w.h.lock).f['held'] == 0),
                    ('CONSUMED.data-file-consumed-up-to-its-real-end-under-the-lock',
                     (consumed is not None) and consumed == dsize(cc, w)),
                    ('returns-a-position', isinstance(r, VInt))]

        def post_none(cc, E, r):
            out = [('commit-lock-not-held', z3.And(held(cc) == 0, lockflag(cc, w))),
                   ('storage-lock-released', cc.obj(w.h.lock).f['held'] == 0)]
            if not getattr(cc, 'in_apply', 0):
                out.append(('pack-file-removed', any(e[0] == 'os' and e[1] == 'remove' and e[2] == PACK
                                                      for e in cc.events) or
                            any(e[0] == 'os-remove-attempt' for e in cc.events)))
            return out

        def post_raise(cc, E, x):
            # (the `locked` attribute is not reset by the exception handlers; the packer object is
            # discarded by its only caller, so only the lock itself is specified here)
            return [('commit-lock-not-held', held(cc) == 0),
                    ('storage-lock-released', cc.obj(w.h.lock).f['held'] == 0)]
        return [Outcome('packed', result=lambda cc, E: cc.fresh_int('opos'), post=post_packed),
                Outcome('nothing-freed', result=lambda cc, E: NONE, post=post_none),
                Outcome('failed', 'raise', 'builtins:Exception', post=post_raise)]


class PackerCtor(PackerSpec):
    """FileStoragePacker(storage, referencesf, stop, gc): ASSUMED to leave the state mk_packer describes
    (attribute initialisation; own read handle on the data file; file_end = storage.getSize())"""
    func = PK + '.__init__'
    props = ()
    verify = False


class Packer(Spec):
    """FileStorage.packer against the contract FileStorage.pack relies on (pack_swap.PackerResult)"""
    func = 'ZODB.FileStorage.FileStorage:FileStorage.packer'
    props = ('C08',)
    callable_contract = False
    label = 'body'
    assumptions = ASSUMPTIONS + ('FileStoragePacker.__init__ leaves the state the contract of pack() starts from '
                                 '(assumed: attribute initialisation)',)

    cases = ('gc', 'no-gc')

    def setup(self, c, case=None):
        w = mk_packer(c, locked=False, gc_fresh=True)
        c.obj(w.gcw.self).f['gc'] = VBool(case == 'gc')
        c.obj(w.self).f['file_end'] = w.gcw.eof
        c.obj(w.self).f['_tfile'] = NONE
        c.ghost['env_lo'] = z3.IntVal(4)
        c.ghost['frontier'] = None
        c.ghost['copied_upto'] = None
        for lbl, b in G.find_reachable_requires(c, w.gcw):
            c.assume(b)
        return {'storage': w.h.self, 'referencesf': c.fresh_opaque('referencesf'),
                'stop': c.fresh_bytes(8, 'stop'), 'gc': c.fresh_bool('gc')}

    def hooks(self, c):
        hk = {}
        install_env(c, hk, lambda cc: cc.ghost['packer'])
        hk['construct:' + PK] = lambda cc, interp, args, kwargs, node: cc.ghost['packer'].self
        return hk

    def modifies(self, c, E):
        w = c.ghost['packer']
        g = w.gcw
        # the packer and everything it owns is local to this call; of the STORAGE only the locks
        return {(w.h.commit_lock.id, 'held'), (w.h.lock.id, 'held')} | {
            (x.id, '*') for x in (w.self, w.pf, w.tfile, w.index, w.tindex, w.copier, g.self, g.cur,
                                  g.reachable, g.reach_ex)}

    def outcomes(self, c, E):
        w = c.ghost['packer']
        held = lambda cc: cc.obj(w.h.commit_lock).f['held']

        def closed(cc):
            f = cc.obj(w.self).f['_file']
            return isinstance(f, VRef) and cc.obj(f).f['closed'] is True

        def post_packed(cc, E, r):
            ok = isinstance(r, VTuple) and len(r.items) == 2 and isinstance(r.items[1], VRef) and \
                r.items[1].id == w.index.id
            return [('commit-lock-taken', held(cc) == 1), ('returns-end-position-and-index', ok),
                    ('packer-files-closed', closed(cc))]

        def post_unlocked(cc, E, r):
            return [('commit-lock-as-before', held(cc) == 0), ('packer-files-closed', closed(cc))]
        def post_none(cc, E, r):
            return [('returns-None', isinstance(r, VNone))] + post_unlocked(cc, E, r)
        return [Outcome('packed', post=post_packed),
                Outcome('nothing-to-do', post=post_none),
                Outcome('failed', 'raise', 'builtins:Exception', post=post_unlocked)]

    def at_exit(self, c, E, kind, val):
        return []


SPECS = [CopierCopy, FetchData, GetTxnFromData, CopyToPacktime, CopyOne, CopyRest, Pack]
VARIANTS = [Packer]
INLINE = [FSP + ':PackCopier.setTxnPos', FSP + ':PackCopier.__init__', PK + '.close']
