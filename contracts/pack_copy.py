"""C08 / C07 (catch-up side of the FileStorage packer): FileStoragePacker.copyOne, copyRest, pack and
FileStorage.packer - the hand-over of the commit lock per copied transaction and the guarantee that
the packer returns, HOLDING the commit lock, only after it has consumed the data file up to its
real end.

Environment model (rely): other threads can append complete transactions to the data file whenever
this thread does not hold the commit lock.  The VC generator applies that step at every acquisition
of the commit lock (hook 'acquired'): the size of the data file is replaced by an arbitrary size >=
the old one, and ENV-INV is assumed for the new size:

  ENV-INV   while the commit lock is held the data file ends at the committed end and [4, size) is
            tiled by complete transactions (the commit lock is held from tpc_begin to finish/abort,
            and _abort cuts the file back: contracts of C01/C05)

LOCKFLAG    self.locked  <=>  this thread holds the commit lock          (every exit)
CONSUMED    on `return pos` of pack(): lock held and every byte of the data file has been consumed:
            the last end-of-file test was made at the frontier of the copy, against the real end of
            the file, with the lock held since.
"""
import z3

from pyvc import contract, prims
from pyvc.contract import LoopSpec, Outcome, Spec
from pyvc.engine import ContractStale, RaiseSig, Unsupported, as_z3_bool, bytes_num
from pyvc.ground import All
from pyvc.values import (B, I, NONE, Obj, VBool, VBytes, VExc, VFunc, VInt, VNone, VOpaque, VRef,
                         VStr, VTuple, fresh_name)

from . import fsmodel as M
from . import pack_gc as G
from .common import KeyError_, OSError_, POSKeyError, inst
from .pack_swap import DATA, PACK
from .fs_write import rope_at

FSP = 'ZODB.FileStorage.fspack'
PK = FSP + ':FileStoragePacker'
PackError = FSP + ':PackError'

ASSUMPTIONS = (
    'ENV (rely): other threads only APPEND complete transactions to the data file, and only while this thread '
    'does not hold the commit lock; applied at every acquisition of the commit lock',
    'ENV-INV: while the commit lock is held the data file ends at the committed end and is tiled by complete '
    'transactions (contracts of tpc_begin/_finish/_abort, C01/C05)',
    'PackCopier.copy, fetchDataViaBackpointer, getTxnFromData, copyToPacktime: assumed frame contracts (write only '
    'the .pack file and the packer\'s indexes; may raise) - the CONTENT of the packed file is covered by the bounded '
    'before/after harness of C07, not proved',
)


class CopyWorld:
    pass


def mk_packer(c, locked, gc_fresh=False):
    """a symbolic FileStoragePacker over a symbolic open FileStorage"""
    w = CopyWorld()
    w.c = c
    h = M.mk_fs(c, in_txn=False, read_only=False)
    c.ghost[('fs', h.self.id)] = h
    w.h = h
    c.assume(c.obj(h.lock).f['held'] == 0)
    c.assume(c.obj(h.commit_lock).f['held'] == (1 if locked else 0))
    w.A = c.obj(h.file).f['arr']
    w.size0 = z3.Int(fresh_name('datafile_size'))
    c.assume(z3.And(w.size0 >= 4, w.size0 < M.MAXPOS))
    w.pf = prims.new_file(c, 'packer_handle', arr=w.A, size=w.size0, mode='rb')
    c.obj(w.pf).meta['datafile'] = True
    w.tfile = prims.new_file(c, 'packfile_out', mode='w+b')
    w.gcw = G.mk_gc(c, fresh_gc=gc_fresh, file=w.pf)
    w.gcw.later = G.Later(c, w.gcw)
    G.fresh_U(c, w.gcw)
    if gc_fresh:
        c.obj(w.gcw.self).f['packpos'] = NONE
    w.R = w.gcw.R
    w.lt = w.gcw.later
    w.vrec = z3.Array(fresh_name('vrec_env'), I, B)   # records of the (growing) file, ENV-INV
    c.roles.array(w.vrec, 'pos')
    w.index = prims.new_map(c, 'bytes8', 'int', 'pack_index', sorted_=True, cls='ZODB.fsIndex:fsIndex')
    w.tindex = prims.new_map(c, 'bytes8', 'int', 'pack_tindex')
    w.copier = inst(c, FSP + ':PackCopier', _file=w.tfile, _index=w.index, _tindex=w.tindex, _pos=NONE)
    w.file_end = c.fresh_int('file_end')
    w.self = inst(c, PK, _storage=h.self, pack_blobs=VBool(False), blob_removed=NONE,
                  _name=VStr(DATA), _file=w.pf, _path=VStr(DATA), _stop=c.fresh_bytes(8, 'stop'),
                  locked=VBool(locked), file_end=w.file_end, gc=w.gcw.self, _lock=h.lock,
                  _commit_lock=h.commit_lock, index=w.index, tindex=w.tindex, _tfile=w.tfile,
                  _copier=w.copier)
    c.ghost[('packer', w.self.id)] = w
    c.ghost['packer'] = w
    return w


def world(c, selfv):
    return c.ghost[('packer', selfv.id)]


def dsize(c, w):
    """current size of the data file as the packer's handle sees it"""
    f = c.obj(w.self).f['_file']
    return c.obj(f).f['size']


class EnvView:
    """what later_clauses needs of a world, for the growing file"""

    def __init__(self, w):
        self.R, self.vrec = w.R, w.vrec


def env_inv(c, w, lo, size):
    """ENV-INV for the region [lo, size)"""
    sel = z3.Select
    R = w.R
    lt = w.lt
    out = G.later_clauses(EnvView(w), lt, lo=lo, eof=size)
    out.append(('env.records-wellformed', All(['pos'], lambda p: z3.Implies(
        z3.And(sel(lt.rec, p), p >= lo, p < size),
        z3.And(R.vlen(p) == 0, R.plen(p) >= 0, R.oid(p) >= 0)))))
    return out


def install_env(c, hk, w_of):
    """the rely step at every acquisition of the commit lock"""
    def acquired(cc, ref, node):
        w = w_of(cc)
        if ref.id != w.h.commit_lock.id:
            return
        f = cc.obj(w.self).f['_file']
        old = cc.obj(f).f['size']
        new = z3.Int(fresh_name('datafile_size'))
        cc.assume(new >= old)
        cc.assume(new < M.MAXPOS)
        cc.obj(f).f['size'] = new
        cc.ghost['datafile_size'] = new
        for lbl, b in env_inv(cc, w, cc.ghost.get('env_lo', z3.IntVal(4)), new):
            cc.assume(b)
        cc.event('env-step', old, new)
    hk['acquired'] = acquired

    def open_(cc, args, kwargs, node):
        w = w_of(cc)
        nm = args[0].s if isinstance(args[0], VStr) else None
        if nm == DATA:
            # a new handle on the data file sees its current size
            cur = cc.obj(cc.obj(w.self).f['_file']).f['size'] if isinstance(
                cc.obj(w.self).f.get('_file'), VRef) else w.size0
            f = prims.new_file(cc, 'packer_handle', arr=w.A, size=cc.ghost.get('datafile_size', cur),
                               pos=z3.IntVal(0), mode='rb')
            cc.event('open', f, nm)
            return f
        if nm == PACK:
            f = prims.new_file(cc, 'packfile_out', arr=z3.K(I, z3.IntVal(0)), size=z3.IntVal(0),
                               pos=z3.IntVal(0), mode='w+b')
            cc.event('open', f, nm)
            return f
        raise Unsupported('open(%r)' % (args[0],), node)
    hk['open'] = open_

    def os_remove(cc, interp, args, kwargs, node):
        cc.event('os', 'remove', args[0].s if isinstance(args[0], VStr) else args[0])
        if cc.choose([True, True], 'os-remove-fault') == 1:
            raise RaiseSig(VExc(OSError_))
        return NONE
    hk['prim:os.remove'] = os_remove


def lockflag(c, w):
    held = c.obj(w.h.commit_lock).f['held']
    lk = c.obj(w.self).f['locked']
    if not isinstance(lk, VBool):
        return z3.BoolVal(False)
    return as_z3_bool(lk.t) == (held == 1)


class PackerSpec(Spec):
    props = ('C08', 'C07')
    assumptions = ASSUMPTIONS + G.ASSUMPTIONS

    def w(self, c, E):
        return world(c, E['self'])

    def hooks(self, c):
        hk = {}
        install_env(c, hk, lambda cc: cc.ghost['packer'])
        return hk


# ======================================================================================
# assumed frame contracts of the content-copying helpers
# ======================================================================================
class FrameOnly(PackerSpec):
    verify = False
    props = ()
    raises = (M.CorruptedError, PackError, OSError_, POSKeyError)

    def modifies(self, c, E):
        w = c.ghost['packer']
        return {(w.tfile.id, '*'), (w.pf.id, 'pos'), (w.index.id, 'dom'), (w.index.id, 'val'),
                (w.tindex.id, 'dom'), (w.tindex.id, 'val')}

    def havoc(self, c, E, outcome=None):
        w = c.ghost['packer']
        f = c.obj(w.self).f['_file']
        if isinstance(f, VRef):
            c.obj(f).f['pos'] = z3.Int(fresh_name('fpos'))
        t = c.obj(w.self).f['_tfile']
        if isinstance(t, VRef):
            to = c.obj(t).f
            to['arr'] = z3.Array(fresh_name('pack_img'), I, I)
            to['size'] = z3.Int(fresh_name('pack_size'))
            to['pos'] = z3.Int(fresh_name('pack_pos'))
            c.assume(z3.And(to['pos'] >= 0, to['size'] >= to['pos']))
        for m_ in (w.index, w.tindex):
            o = c.obj(m_)
            o.f['dom'] = z3.Array(fresh_name('pidx_dom'), I, B)
            o.f['val'] = z3.Array(fresh_name('pidx_val'), I, I)

    def ok(self, c, E):
        return NONE

    def outcomes(self, c, E):
        return [Outcome('ok', result=self.ok)] + \
            [Outcome('raises-' + x.split(':')[-1], 'raise', x) for x in self.raises]


class CopierCopy(FrameOnly):
    func = FSP + ':PackCopier.copy'


class ResolveBackpointer(PackerSpec):
    """PackCopier._resolve_backpointer as copy() sees it: 0 or a record position of the OUTPUT file; the
    output file is left positioned where it was (the code saves and restores the position) - ASSUMED
    (its loops _txn_find/_data_find walk the output file backwards)"""
    func = FSP + ':PackCopier._resolve_backpointer'
    props = ()
    verify = False

    def requires(self, c, E):
        return []

    def outcomes(self, c, E):
        def mk(cc, E):
            p = cc.fresh_int('prev_pos')
            cc.assume(z3.And(p.t >= 0, p.t < M.MAXPOS))
            return p
        return [Outcome('resolved', result=mk), Outcome('bad-hint', 'raise', PackError),
                Outcome('corrupt', 'raise', M.CorruptedError)]


class CopierCopyBody(Spec):
    """PackCopier.copy (the real body; call sites use the frame contract CopierCopy): appends exactly one
    data record to the output file - header (oid, serial, prev = position of the object's previous record
    in the OUTPUT file or 0, tloc = the output transaction, plen) followed by the data, or by a back pointer
    / z64 when there is none - and ALWAYS files the record's position in the transaction index, also for an
    un-creation (the index FileStorage.pack installs must say that the object is gone)"""
    func = FSP + ':PackCopier.copy'
    props = ('C07',)
    callable_contract = False
    label = 'body'
    cases = ('data', 'no-data')
    assumptions = ('PackCopier._resolve_backpointer: assumed contract (returns 0 or a position, restores the file position)',)

    def setup(self, c, case=None):
        f = prims.new_file(c, 'packfile_out', mode='w+b')
        fo = c.obj(f).f
        c.assume(z3.And(fo['pos'] >= 0, fo['size'] < M.MAXPOS, fo['pos'] <= fo['size']))
        index = prims.new_map(c, 'bytes8', 'int', 'pack_index', sorted_=True, cls='ZODB.fsIndex:fsIndex')
        tindex = prims.new_map(c, 'bytes8', 'int', 'pack_tindex')
        for m_ in (index, tindex):
            c.roles.array(c.obj(m_).f['dom'], 'oid')
            c.roles.array(c.obj(m_).f['val'], 'oid')
        c.roles.array(fo['arr'], 'byte')
        me = inst(c, FSP + ':PackCopier', _file=f, _index=index, _tindex=tindex, _pos=c.fresh_int('_pos'))
        c.ghost['copier'] = (me, f, index, tindex)
        txnpos, datapos = c.fresh_int('txnpos'), c.fresh_int('datapos')
        c.assume(z3.And(txnpos.t >= 0, txnpos.t < 2 ** 63, datapos.t >= 0, datapos.t < 2 ** 63))
        data = c.fresh_barr('data') if case == 'data' else NONE
        if case == 'data':
            c.assume(data.length() < M.MAXPOS)        # machine range of a record length
        return {'self': me, 'oid': c.fresh_bytes(8, 'oid'), 'serial': c.fresh_bytes(8, 'serial'),
                'data': data,
                'prev_txn': c.fresh_bytes(8, 'prev_txn') if case == 'no-data' else NONE,
                'txnpos': txnpos, 'datapos': datapos}

    def requires(self, c, E):
        me, f, index, tindex = c.ghost['copier']
        ix = c.obj(index).f
        return [('index-positions-are-positions', All(['oid'], lambda q: z3.Implies(
            z3.Select(ix['dom'], q), z3.And(z3.Select(ix['val'], q) >= 0,
                                            z3.Select(ix['val'], q) < 2 ** 63))))]

    def modifies(self, c, E):
        me, f, index, tindex = c.ghost['copier']
        return {(f.id, 'arr'), (f.id, 'size'), (f.id, 'pos'), (f.id, 'dirty'), (f.id, 'unsynced'),
                (tindex.id, 'dom'), (tindex.id, 'val')}

    def outcomes(self, c, E):
        me, f, index, tindex = c.ghost['copier']
        fo0 = dict(c.obj(f).f)
        t0 = fo0['pos']
        o = bytes_num(c, E['oid'])
        ix = c.obj(index).f
        old = z3.If(z3.Select(ix['dom'], o), z3.Select(ix['val'], o), 0)
        ti0 = dict(c.obj(tindex).f)
        data = E['data']

        def post(cc, E, res):
            from .fsmodel import rec
            fo = cc.obj(f).f
            ti = cc.obj(tindex).f
            r = rec(fo['arr'], t0)
            out = [
                ('record.oid', r['oid'] == o),
                ('record.tid', r['tid'] == bytes_num(cc, E['serial'])),
                ('record.prev-is-the-previous-record-in-the-output-file', r['prev'] == old),
                ('record.tloc-is-the-output-transaction', r['tloc'] == E['txnpos'].t),
                ('record.vlen-zero', r['vlen'] == 0),
                ('earlier-bytes-unchanged', All(['byte'], lambda k: z3.Implies(
                    z3.And(k >= 0, k < t0), z3.Select(fo['arr'], k) == z3.Select(fo0['arr'], k)))),
                ('transaction-index.entry-ALWAYS-filed', z3.And(z3.Select(ti['dom'], o),
                                                               z3.Select(ti['val'], o) == E['datapos'].t)),
                ('transaction-index.others-unchanged', All(['oid'], lambda q: z3.Implies(
                    q != o, z3.And(z3.Select(ti['dom'], q) == z3.Select(ti0['dom'], q),
                                   z3.Select(ti['val'], q) == z3.Select(ti0['val'], q))))),
            ]
            if isinstance(data, VBytes):
                dl = data.length()
                # (prev_pos found: a back pointer is written instead of the data)
                out.append(('record.length', z3.Or(
                    z3.And(r['plen'] == dl, fo['pos'] == t0 + 42 + dl),
                    z3.And(r['plen'] == 0, fo['pos'] == t0 + 50))))
            else:
                out.append(('record.no-data-then-8-byte-pointer', z3.And(r['plen'] == 0,
                                                                         fo['pos'] == t0 + 50)))
            return out
        return [Outcome('copied', result=lambda cc, E: NONE, post=post),
                Outcome('bad-hint', 'raise', PackError),
                Outcome('corrupt', 'raise', M.CorruptedError),
                Outcome('io-error', 'raise', OSError_)]


class WritePackedDataRecord(Spec):
    """FileStoragePacker.writePackedDataRecord (records of transactions up to the pack time): appends the
    record with its data RESOLVED (no back pointer, no previous-record pointer), tloc = the output
    transaction, the object's tid unchanged, an 8-byte zero pointer after a record without data; files the
    record's position in the packer's index"""
    func = PK + '.writePackedDataRecord'
    props = ('C07',)
    cases = ('data', 'no-data')

    def setup(self, c, case=None):
        f = prims.new_file(c, 'packfile_out', mode='w+b')
        fo = c.obj(f).f
        c.assume(z3.And(fo['pos'] >= 0, fo['size'] < M.MAXPOS, fo['pos'] <= fo['size']))
        index = prims.new_map(c, 'bytes8', 'int', 'pack_index', sorted_=True, cls='ZODB.fsIndex:fsIndex')
        c.roles.array(c.obj(index).f['dom'], 'oid')
        c.roles.array(c.obj(index).f['val'], 'oid')
        c.roles.array(fo['arr'], 'byte')
        me = inst(c, PK, _tfile=f, index=index)
        h = inst(c, M.DH, oid=c.fresh_bytes(8, 'h_oid'), tid=c.fresh_bytes(8, 'h_tid'),
                 prev=c.fresh_int('h_prev'), tloc=c.fresh_int('h_tloc'), plen=c.fresh_int('h_plen'),
                 back=c.fresh_int('h_back'))
        data = c.fresh_barr('data') if case == 'data' else NONE
        if case == 'data':
            c.assume(data.length() < M.MAXPOS)
        new_tpos = c.fresh_int('new_tpos')
        c.assume(z3.And(new_tpos.t >= 0, new_tpos.t < 2 ** 63))
        c.ghost['wp'] = (me, f, index, h)
        return {'self': me, 'h': h, 'data': data, 'new_tpos': new_tpos}

    def modifies(self, c, E):
        me, f, index, h = c.ghost['wp']
        return {(f.id, 'arr'), (f.id, 'size'), (f.id, 'pos'), (f.id, 'dirty'), (f.id, 'unsynced'),
                (index.id, 'dom'), (index.id, 'val'), (h.id, 'prev'), (h.id, 'back'), (h.id, 'plen'),
                (h.id, 'tloc')}

    def outcomes(self, c, E):
        me, f, index, h = c.ghost['wp']
        fo0 = dict(c.obj(f).f)
        t0 = fo0['pos']
        h0 = dict(c.obj(h).f)
        o = bytes_num(c, h0['oid'])
        ix0 = dict(c.obj(index).f)
        data = E['data']
        dl = data.length() if isinstance(data, VBytes) else z3.IntVal(0)

        def post(cc, E, res):
            from .fsmodel import rec
            fo = cc.obj(f).f
            ix = cc.obj(index).f
            r = rec(fo['arr'], t0)
            return [
                ('record.oid', r['oid'] == o),
                ('record.tid-unchanged', r['tid'] == bytes_num(cc, h0['tid'])),
                ('record.no-previous-record-pointer', r['prev'] == 0),
                ('record.tloc-is-the-output-transaction', r['tloc'] == E['new_tpos'].t),
                ('record.vlen-zero', r['vlen'] == 0),
                ('record.plen-is-the-resolved-data-length', r['plen'] == dl),
                ('record.end', fo['pos'] == t0 + 42 + z3.If(dl == 0, 8, dl)),
                ('record.zero-pointer-after-a-record-without-data', z3.Implies(
                    dl == 0, z3.And([z3.Select(fo['arr'], t0 + 42 + k) == 0 for k in range(8)]))),
                ('earlier-bytes-unchanged', All(['byte'], lambda k: z3.Implies(
                    z3.And(k >= 0, k < t0), z3.Select(fo['arr'], k) == z3.Select(fo0['arr'], k)))),
                ('index.entry', z3.And(z3.Select(ix['dom'], o), z3.Select(ix['val'], o) == t0)),
                ('index.others-unchanged', All(['oid'], lambda q: z3.Implies(
                    q != o, z3.And(z3.Select(ix['dom'], q) == z3.Select(ix0['dom'], q),
                                   z3.Select(ix['val'], q) == z3.Select(ix0['val'], q))))),
            ] + ([('record.data', All(['byte'], lambda k: z3.Implies(
                z3.And(k >= 0, k < dl), z3.Select(fo['arr'], t0 + 42 + k) == rope_at(data, k))))]
                 if isinstance(data, VBytes) else [])
        return [Outcome('written', result=lambda cc, E: NONE, post=post),
                Outcome('io-error', 'raise', OSError_)]


class CopyDataRecords(PackerSpec):
    """FileStoragePacker.copyDataRecords (one transaction up to the pack time, no blob directory): EXACTLY
    the records the reachability pass keeps (GC.isReachable) are handed to writePackedDataRecord, in file
    order, after the transaction header has been written once with status 'p'; returns (position of that
    header in the output or 0 if nothing was kept, end of the input transaction's records)"""
    func = PK + '.copyDataRecords'
    props = ('C07',)

    def setup(self, c, case=None):
        w = mk_packer(c, locked=False)
        g = w.gcw
        T = w.lt.T
        pos = c.fresh_int('pos')
        c.ghost['env_lo'] = pos.t
        c.ghost['written'] = z3.K(I, z3.BoolVal(False))
        th = inst(c, M.TH, tid=c.fresh_bytes(8, 'th_tid'), tlen=VInt(T.tl(pos.t)),
                  status=VStr(codes=[T.status(pos.t)]), ulen=VInt(T.ul(pos.t)), dlen=VInt(T.dl(pos.t)),
                  elen=VInt(T.el(pos.t)), user=c.fresh_barr('user'), descr=c.fresh_barr('descr'),
                  ext=c.fresh_barr('ext'))
        c.assume(z3.And(c.obj(th).f['user'].length() == T.ul(pos.t), c.obj(th).f['descr'].length() == T.dl(pos.t),
                        c.obj(th).f['ext'].length() == T.el(pos.t), T.ul(pos.t) <= 65535, T.dl(pos.t) <= 65535,
                        T.el(pos.t) <= 65535, T.tl(pos.t) < 2 ** 63))
        w.th = th
        return {'self': w.self, 'pos': pos, 'th': th}

    def requires(self, c, E):
        w = self.w(c, E)
        g = w.gcw
        pos = E['pos'].t
        w.lt.T.link(c, pos)
        return G.gc_ri(c, g)[:2] + G.later_clauses(g, w.lt, lo=pos, eof=g.pp) + [
            ('at-a-transaction-before-the-pack-position', z3.And(pos >= 4, pos < g.pp, g.pp <= dsize(c, w))),
            ('output-position-past-the-file-magic', c.obj(w.tfile).f['pos'] >= 4)]

    def hooks(self, c):
        hk = PackerSpec.hooks(self, c)

        def wp(cc, args, kwargs, node):
            # ghost: which input record this call writes (the header object was read at that position)
            w = cc.ghost['packer']
            h = args[1]
            cc.ghost['last_written_header'] = h
            spec = cc.interp.reg.specs[PK + '.writePackedDataRecord']
            cc.event('write-packed', h.id if isinstance(h, VRef) else None, args[3] if len(args) > 3 else None)
            # effect on the output file as in its own contract (WritePackedDataRecord): appended
            to = cc.obj(w.tfile).f
            newpos = z3.Int(fresh_name('pack_pos'))
            cc.assume(newpos >= to['pos'] + 50)
            to['arr'] = z3.Array(fresh_name('pack_img'), I, I)
            to['pos'] = newpos
            to['size'] = z3.Int(fresh_name('pack_size'))
            cc.assume(to['size'] >= newpos)
            o = cc.obj(w.index)
            o.f['dom'] = z3.Array(fresh_name('pidx_dom'), I, B)
            o.f['val'] = z3.Array(fresh_name('pidx_val'), I, I)
            return NONE
        hk['call:' + PK + '.writePackedDataRecord'] = wp
        return hk

    def modifies(self, c, E):
        w = self.w(c, E)
        th = E['th']
        return {(w.tfile.id, '*'), (w.pf.id, 'pos'), (w.index.id, 'dom'), (w.index.id, 'val'),
                (th.id, 'status')}

    @property
    def loops(self):
        none = lambda cc, fr: NONE
        sel = z3.Select

        def hv(cc, fr):
            w = self.w(cc, cc.E)
            cc.obj(w.pf).f['pos'] = z3.Int(fresh_name('fpos'))
            to = cc.obj(w.tfile).f
            to['arr'] = z3.Array(fresh_name('pack_img'), I, I)
            to['size'] = z3.Int(fresh_name('pack_size'))
            to['pos'] = z3.Int(fresh_name('pack_pos'))
            cc.assume(to['size'] >= to['pos'])
            o = cc.obj(w.index)
            o.f['dom'] = z3.Array(fresh_name('pidx_dom'), I, B)
            o.f['val'] = z3.Array(fresh_name('pidx_val'), I, I)
            st = cc.obj(cc.E['th']).f
            st['status'] = VStr(codes=[z3.Int(fresh_name('th_status'))])
            cc.ghost['written'] = z3.Array(fresh_name('written'), I, B)
            cc.roles.array(cc.ghost['written'], 'pos')
            cc.ghost['iter_events'] = len(cc.events)

        def ghost(cc, fr):
            # the record scanned in this iteration was written iff writePackedDataRecord was called
            w = self.w(cc, cc.E)
            h = fr.locals.get('h')
            if not (isinstance(h, VRef) and cc.obj(h).cls == M.DH):
                raise ContractStale('copyDataRecords: local h')
            wrote = any(e[0] == 'write-packed' for e in cc.events[cc.ghost.get('iter_events', 0):])
            hf = cc.obj(h).f
            plen = hf['plen'].t
            # position of the record just scanned: pos was advanced by its length
            here = z3.simplify(fr.locals['pos'].t - 42 - z3.If(plen == 0, 8, plen))
            cc.ghost['written'] = z3.Store(cc.ghost['written'], here, z3.BoolVal(wrote))
            cc.ghost['iter_events'] = len(cc.events)

        def inv(cc, fr):
            w = self.w(cc, cc.E)
            g = w.gcw
            lt = w.lt
            pos0 = cc.E['pos'].t
            pos, tend = fr.locals['pos'].t, fr.locals['tend'].t
            copy, new_tpos = fr.locals['copy'], fr.locals['new_tpos']
            w.R.link(cc, pos)
            W = cc.ghost['written']
            cc.ghost['iter_events'] = len(cc.events)
            return [
                ('in-the-transaction', tend == pos0 + lt.T.tl(pos0)),
                ('at-record-or-end', z3.And(pos >= pos0 + lt.T.hdrlen(pos0), pos <= tend, z3.Or(
                    pos == tend, z3.And(sel(lt.rec, pos), sel(lt.txnOf, pos) == pos0)))),
                ('written-exactly-the-kept-records-so-far', All(['pos'], lambda p: z3.Implies(
                    z3.And(sel(lt.rec, p), p >= pos0, p < pos),
                    sel(W, p) == G.kept(cc, g, w.R.oid(p), p)))),
                ('header-written-iff-something-was-kept', z3.And(
                    z3.Or(copy.t == 0, copy.t == 1) if isinstance(copy, VInt) else False,
                    (copy.t == 1) == (new_tpos.t != 0) if isinstance(new_tpos, VInt) else False)),
                ('data-file-untouched', z3.And(cc.obj(w.pf).f['size'] == cc.E.old[w.pf.id]['size'],
                                               cc.obj(w.pf).f['arr'] == w.A)),
                ('output-position-past-the-file-magic', cc.obj(w.tfile).f['pos'] >= 4),
            ]
        return {0: LoopSpec(inv=inv, havoc=hv, ghost_step=ghost,
                            kinds={'h': none, 'data': none, 's': none})}

    def outcomes(self, c, E):
        w = self.w(c, E)
        g = w.gcw
        lt = w.lt
        pos0 = E['pos'].t
        sel = z3.Select

        def post(cc, E, r):
            if not (isinstance(r, VTuple) and len(r.items) == 2 and all(isinstance(x, VInt) for x in r.items)):
                return [('returns-two-positions', False)]
            W = cc.ghost['written']
            tend = pos0 + lt.T.tl(pos0)
            return [('returns-the-end-of-the-records', r.items[1].t == tend),
                    ('written-exactly-the-kept-records', All(['pos'], lambda p: z3.Implies(
                        z3.And(sel(lt.rec, p), p >= pos0, p < tend),
                        sel(W, p) == G.kept(cc, g, w.R.oid(p), p))))]
        return [Outcome('copied', post=post)] + \
            [Outcome('raises-' + x.split(':')[-1], 'raise', x) for x in FrameOnly.raises]


class FetchData(FrameOnly):
    """fetchDataViaBackpointer reads the INPUT file only (follows back pointers with _loadBackTxn): frame = the
    input file's position - ASSUMED"""
    func = PK + '.fetchDataViaBackpointer'

    def modifies(self, c, E):
        w = c.ghost['packer']
        return {(w.pf.id, 'pos')}

    def havoc(self, c, E, outcome=None):
        w = c.ghost['packer']
        c.obj(w.pf).f['pos'] = z3.Int(fresh_name('fpos'))

    def ok(self, c, E):
        return [NONE, c.fresh_barr('data')][c.choose([True, True], 'fetched')]


class GetTxnFromData(FrameOnly):
    func = 'ZODB.FileStorage.format:FileStorageFormatter.getTxnFromData'

    def ok(self, c, E):
        return c.fresh_bytes(8, 'prev_txn')


class CopyToPacktime(FrameOnly):
    func = PK + '.copyToPacktime'

    def ok(self, c, E):
        w = c.ghost['packer']
        opos = c.fresh_int('opos')
        c.assume(z3.And(opos.t >= 4, opos.t <= w.gcw.pp))
        c.ghost['copied_upto'] = w.gcw.pp
        return VTuple([VInt(w.gcw.pp), opos])


# ======================================================================================
class CopyOne(PackerSpec):
    func = PK + '.copyOne'

    def setup(self, c, case=None):
        w = mk_packer(c, locked=True)
        ipos = c.fresh_int('ipos')
        c.ghost['env_lo'] = ipos.t
        return {'self': w.self, 'ipos': ipos}

    def requires(self, c, E):
        w = self.w(c, E)
        ipos = E['ipos'].t
        w.lt.T.link(c, ipos)
        return [('commit-lock-held', c.obj(w.h.commit_lock).f['held'] == 1),
                ('LOCKFLAG', lockflag(c, w)),
                ('at-a-transaction-boundary', z3.And(ipos >= 4, ipos <= dsize(c, w)))] + \
            env_inv(c, w, ipos, dsize(c, w))

    def modifies(self, c, E):
        w = self.w(c, E)
        return {(w.tfile.id, '*'), (w.pf.id, 'pos'), (w.pf.id, 'size'), (w.index.id, 'dom'),
                (w.index.id, 'val'), (w.tindex.id, 'dom'), (w.tindex.id, 'val'),
                (w.h.commit_lock.id, 'held'), (w.self.id, 'locked'), (w.copier.id, '_pos')}

    def havoc(self, c, E, outcome=None):
        w = self.w(c, E)
        FrameOnly.havoc(self, c, E)
        c.obj(w.copier).f['_pos'] = c.fresh_int('copier_pos')
        if outcome is not None and outcome.label == 'copied':
            # rely step (the lock was free for a while) + ENV-INV under the re-acquired lock
            f = c.obj(w.self).f['_file']
            old = c.obj(f).f['size']
            new = z3.Int(fresh_name('datafile_size'))
            c.assume(z3.And(new >= old, new < M.MAXPOS))
            c.obj(f).f['size'] = new
            c.ghost['datafile_size'] = new
            for lbl, b in env_inv(c, w, E['ipos'].t, new):
                c.assume(b)
        if outcome is not None and outcome.label == 'failed':
            c.obj(w.h.commit_lock).f['held'] = z3.IntVal(0)
            c.obj(w.self).f['locked'] = VBool(False)

    @property
    def loops(self):
        none = lambda cc, fr: NONE
        sel = z3.Select

        def hv(cc, fr):
            FrameOnly.havoc(self, cc, cc.E)

        def inv(cc, fr):
            w = self.w(cc, cc.E)
            lt = w.lt
            ipos0 = cc.E['ipos'].t
            ipos, tend = fr.locals['ipos'].t, fr.locals['tend'].t
            w.R.link(cc, ipos)
            return [
                ('lock-released-while-copying', z3.And(cc.obj(w.h.commit_lock).f['held'] == 0,
                                                       lockflag(cc, w))),
                ('in-the-transaction', tend == ipos0 + lt.T.tl(ipos0)),
                ('at-record-or-end', z3.And(ipos >= ipos0 + lt.T.hdrlen(ipos0), ipos <= tend, z3.Or(
                    ipos == tend, z3.And(sel(lt.rec, ipos), sel(lt.txnOf, ipos) == ipos0)))),
                ('data-file-untouched', z3.And(cc.obj(w.pf).f['size'] == cc.E.old[w.pf.id]['size'],
                                               cc.obj(w.pf).f['arr'] == w.A)),
            ]
        return {0: LoopSpec(inv=inv, havoc=hv, kinds={'h': none, 'data': none, 'prev_txn': none})}

    def outcomes(self, c, E):
        w = self.w(c, E)
        ipos = E['ipos'].t
        size = dsize(c, w)
        lt = w.lt
        c.ghost['frontier'] = ipos     # ghost: the position of the last header read by the copy
        avail = size - ipos
        got = z3.If(avail > 0, avail, 0)
        held = lambda cc: cc.obj(w.h.commit_lock).f['held']

        def mk_eof(cc, E):
            return VExc(M.CorruptedDataError, [], {'oid': NONE, 'pos': VInt(ipos),
                                                   'buf': VBytes([('a', w.A, ipos, got)])})

        def post_eof(cc, E, x):
            ok = isinstance(x, VExc) and isinstance(x.attrs.get('pos'), VInt)
            return [('lock-still-held', z3.And(held(cc) == 1, lockflag(cc, w))),
                    ('reports-the-position-of-the-short-read', ok and x.attrs['pos'].t == ipos),
                    ('data-file-size-unchanged', dsize(cc, w) == size)]

        def post_copied(cc, E, r):
            return [('lock-held-again', z3.And(held(cc) == 1, lockflag(cc, w))),
                    ('returns-the-next-transaction-boundary', isinstance(r, VInt) and
                     r.t == ipos + lt.T.tl(ipos) + 8),
                    ('data-file-only-grows', dsize(cc, w) >= size)]

        def post_failed(cc, E, x):
            return [('lock-not-held-and-flag-says-so', z3.And(held(cc) == 0, lockflag(cc, w)))]
        return [Outcome('eof', 'raise', M.CorruptedDataError, guard=avail < 23, result=mk_eof,
                        post=post_eof),
                Outcome('copied', guard=avail >= 23, result=lambda cc, E: VInt(
                    ipos + lt.T.tl(ipos) + 8), post=post_copied),
                Outcome('failed', 'raise', 'builtins:Exception', guard=avail >= 23, post=post_failed)]


# ======================================================================================
class CopyRest(PackerSpec):
    func = PK + '.copyRest'

    def setup(self, c, case=None):
        w = mk_packer(c, locked=True)
        ipos = c.fresh_int('ipos')
        c.ghost['env_lo'] = ipos.t
        c.ghost['frontier'] = None
        return {'self': w.self, 'ipos': ipos}

    def requires(self, c, E):
        return CopyOne.requires(self, c, E)

    def modifies(self, c, E):
        return CopyOne.modifies(self, c, E)

    def havoc(self, c, E, outcome=None):
        w = self.w(c, E)
        FrameOnly.havoc(self, c, E)
        c.obj(w.copier).f['_pos'] = c.fresh_int('copier_pos')
        f = c.obj(w.self).f['_file']
        old = c.obj(f).f['size']
        new = z3.Int(fresh_name('datafile_size'))
        c.assume(z3.And(new >= old, new < M.MAXPOS))
        c.obj(f).f['size'] = new
        c.ghost['datafile_size'] = new
        if outcome is not None and outcome.label == 'consumed':
            c.ghost['frontier'] = new
        if outcome is not None and outcome.label == 'failed':
            h_ = z3.Int(fresh_name('held'))
            c.assume(z3.Or(h_ == 0, h_ == 1))
            c.obj(w.h.commit_lock).f['held'] = h_
            c.obj(w.self).f['locked'] = VBool(h_ == 1)

    @property
    def loops(self):
        def hv(cc, fr):
            w = self.w(cc, cc.E)
            CopyRest.havoc(self, cc, cc.E)
            cc.ghost['frontier'] = None

        def inv(cc, fr):
            w = self.w(cc, cc.E)
            ipos = fr.locals['ipos'].t
            w.lt.T.link(cc, ipos)
            return [('commit-lock-held', z3.And(cc.obj(w.h.commit_lock).f['held'] == 1, lockflag(cc, w))),
                    ('at-a-transaction-boundary', z3.And(ipos >= cc.E['ipos'].t, ipos <= dsize(cc, w),
                                                         z3.Select(w.lt.isB, ipos))),
                    ('data-file-only-grows', dsize(cc, w) >= cc.E.old[w.pf.id]['size'])] + \
                env_inv(cc, w, cc.E['ipos'].t, dsize(cc, w))
        return {0: LoopSpec(inv=inv, havoc=hv)}

    def outcomes(self, c, E):
        w = self.w(c, E)
        held = lambda cc: cc.obj(w.h.commit_lock).f['held']

        def post_consumed(cc, E, r):
            fr_ = cc.ghost.get('frontier')
            last = [e for e in cc.events if e[0] == 'outcome:copyOne']
            return [('commit-lock-held', z3.And(held(cc) == 1, lockflag(cc, w))),
                    ('end-of-file-test-made-at-the-frontier-of-the-copy',
                     (fr_ is not None) and (bool(last) and last[-1][1] == 'eof' or
                                           bool(getattr(cc, 'in_apply', 0)))),
                    ('frontier-is-the-real-end-of-the-data-file',
                     (fr_ is not None) and fr_ == dsize(cc, w))]

        def post_failed(cc, E, x):
            return [('LOCKFLAG', z3.And(z3.Or(held(cc) == 0, held(cc) == 1), lockflag(cc, w)))]
        return [Outcome('consumed', result=lambda cc, E: NONE, post=post_consumed),
                Outcome('failed', 'raise', 'builtins:Exception', post=post_failed)]


# ======================================================================================
class Pack(PackerSpec):
    """FileStoragePacker.pack: returns None (nothing freed, .pack removed, lock not held) or the end
    position of the packed file HOLDING the commit lock, having consumed the data file up to its
    real end (CONSUMED); every exception leaves the lock released"""
    func = PK + '.pack'
    cases = ('gc', 'no-gc')
    assumptions = PackerSpec.assumptions + G.BuildPackIndex.assumptions

    def setup(self, c, case=None):
        w = mk_packer(c, locked=False, gc_fresh=True)
        c.obj(w.gcw.self).f['gc'] = VBool(case == 'gc')
        # FileStoragePacker.__init__: file_end = storage.getSize(); GC(self._file, self.file_end, ...)
        c.obj(w.self).f['file_end'] = w.gcw.eof
        c.obj(w.self).f['_tfile'] = NONE
        c.ghost['env_lo'] = z3.IntVal(4)
        c.ghost['frontier'] = None
        c.ghost['copied_upto'] = None
        return {'self': w.self}

    def requires(self, c, E):
        w = self.w(c, E)
        return [('commit-lock-not-held-by-this-thread', c.obj(w.h.commit_lock).f['held'] == 0),
                ('LOCKFLAG', lockflag(c, w))] + G.find_reachable_requires(c, w.gcw)

    def definitions(self, c, E):
        return G.map_model(c, self.w(c, E).gcw)

    def modifies(self, c, E):
        w = self.w(c, E)
        g = w.gcw
        return CopyOne.modifies(self, c, E) | {
            (w.self.id, '_tfile'), (w.self.id, '_file'), (w.self.id, 'file_end'), (w.self.id, '_copier'),
            (w.pf.id, '*'), (w.h.lock.id, 'held'),
            (g.cur.id, 'dom'), (g.cur.id, 'val'), (g.cur.id, 'size'), (g.self.id, 'packpos'),
            (g.self.id, 'ltid'), (g.self.id, 'oid2curpos'), (g.self.id, 'reachable'),
            (g.reachable.id, 'dom'), (g.reachable.id, 'val'), (g.reach_ex.id, 'mem')}

    def havoc(self, c, E, outcome=None):
        w = self.w(c, E)
        if outcome is not None and outcome.label == 'packed':
            c.obj(w.h.commit_lock).f['held'] = z3.simplify(c.obj(w.h.commit_lock).f['held'] + 1)
            c.obj(w.self).f['locked'] = VBool(True)
        for m_ in (w.index,):
            o = c.obj(m_)
            o.f['dom'] = z3.Array(fresh_name('pidx_dom'), I, B)
            o.f['val'] = z3.Array(fresh_name('pidx_val'), I, I)

    def outcomes(self, c, E):
        w = self.w(c, E)
        held = lambda cc: cc.obj(w.h.commit_lock).f['held']

        def post_packed(cc, E, r):
            if getattr(cc, 'in_apply', 0):
                return [('commit-lock-held', z3.And(held(cc) == 1, lockflag(cc, w)))]
            ran = [e for e in cc.events if e[0] == 'outcome:copyRest']
            consumed = cc.ghost.get('frontier') if ran else cc.ghost.get('copied_upto')
            return [('commit-lock-held', z3.And(held(cc) == 1, lockflag(cc, w))),
                    ('storage-lock-released', cc.obj(w.h.lock).f['held'] == 0),
                    ('CONSUMED.data-file-consumed-up-to-its-real-end-under-the-lock',
                     (consumed is not None) and consumed == dsize(cc, w)),
                    ('returns-a-position', isinstance(r, VInt))]

        def post_none(cc, E, r):
            out = [('commit-lock-not-held', z3.And(held(cc) == 0, lockflag(cc, w))),
                   ('storage-lock-released', cc.obj(w.h.lock).f['held'] == 0)]
            if not getattr(cc, 'in_apply', 0):
                out.append(('pack-file-removed', any(e[0] == 'os' and e[1] == 'remove' and e[2] == PACK
                                                      for e in cc.events) or
                            any(e[0] == 'os-remove-attempt' for e in cc.events)))
            return out

        def post_raise(cc, E, x):
            # (the `locked` attribute is not reset by the exception handlers; the packer object is
            # discarded by its only caller, so only the lock itself is specified here)
            return [('commit-lock-not-held', held(cc) == 0),
                    ('storage-lock-released', cc.obj(w.h.lock).f['held'] == 0)]
        return [Outcome('packed', result=lambda cc, E: cc.fresh_int('opos'), post=post_packed),
                Outcome('nothing-freed', result=lambda cc, E: NONE, post=post_none),
                Outcome('failed', 'raise', 'builtins:Exception', post=post_raise)]


class PackerCtor(PackerSpec):
    """FileStoragePacker(storage, referencesf, stop, gc): ASSUMED to leave the state mk_packer describes
    (attribute initialisation; own read handle on the data file; file_end = storage.getSize())"""
    func = PK + '.__init__'
    props = ()
    verify = False


class Packer(Spec):
    """FileStorage.packer against the contract FileStorage.pack relies on (pack_swap.PackerResult)"""
    func = 'ZODB.FileStorage.FileStorage:FileStorage.packer'
    props = ('C08',)
    callable_contract = False
    label = 'body'
    assumptions = ASSUMPTIONS + ('FileStoragePacker.__init__ leaves the state the contract of pack() starts from '
                                 '(assumed: attribute initialisation)',)

    cases = ('gc', 'no-gc')

    def setup(self, c, case=None):
        w = mk_packer(c, locked=False, gc_fresh=True)
        c.obj(w.gcw.self).f['gc'] = VBool(case == 'gc')
        c.obj(w.self).f['file_end'] = w.gcw.eof
        c.obj(w.self).f['_tfile'] = NONE
        c.ghost['env_lo'] = z3.IntVal(4)
        c.ghost['frontier'] = None
        c.ghost['copied_upto'] = None
        for lbl, b in G.find_reachable_requires(c, w.gcw):
            c.assume(b)
        return {'storage': w.h.self, 'referencesf': c.fresh_opaque('referencesf'),
                'stop': c.fresh_bytes(8, 'stop'), 'gc': c.fresh_bool('gc')}

    def hooks(self, c):
        hk = {}
        install_env(c, hk, lambda cc: cc.ghost['packer'])
        hk['construct:' + PK] = lambda cc, interp, args, kwargs, node: cc.ghost['packer'].self
        return hk

    def modifies(self, c, E):
        w = c.ghost['packer']
        g = w.gcw
        # the packer and everything it owns is local to this call; of the STORAGE only the locks
        return {(w.h.commit_lock.id, 'held'), (w.h.lock.id, 'held')} | {
            (x.id, '*') for x in (w.self, w.pf, w.tfile, w.index, w.tindex, w.copier, g.self, g.cur,
                                  g.reachable, g.reach_ex)}

    def outcomes(self, c, E):
        w = c.ghost['packer']
        held = lambda cc: cc.obj(w.h.commit_lock).f['held']

        def closed(cc):
            f = cc.obj(w.self).f['_file']
            return isinstance(f, VRef) and cc.obj(f).f['closed'] is True

        def post_packed(cc, E, r):
            ok = isinstance(r, VTuple) and len(r.items) == 2 and isinstance(r.items[1], VRef) and \
                r.items[1].id == w.index.id
            return [('commit-lock-taken', held(cc) == 1), ('returns-end-position-and-index', ok),
                    ('packer-files-closed', closed(cc))]

        def post_unlocked(cc, E, r):
            return [('commit-lock-as-before', held(cc) == 0), ('packer-files-closed', closed(cc))]
        def post_none(cc, E, r):
            return [('returns-None', isinstance(r, VNone))] + post_unlocked(cc, E, r)
        return [Outcome('packed', post=post_packed),
                Outcome('nothing-to-do', post=post_none),
                Outcome('failed', 'raise', 'builtins:Exception', post=post_unlocked)]

    def at_exit(self, c, E, kind, val):
        return []


SPECS = [CopierCopy, ResolveBackpointer, WritePackedDataRecord, CopyDataRecords, FetchData, GetTxnFromData, CopyToPacktime, CopyOne, CopyRest, Pack]
VARIANTS = [Packer, CopierCopyBody]
INLINE = [FSP + ':PackCopier.setTxnPos', FSP + ':PackCopier.__init__', PK + '.close']
