"""C07 (garbage-collection side of FileStorage pack): fspack.GC - findrefs, isReachable,
findReachableAtPacktime (worklist closure), findReachableFromFuture, findReachable.

Specification vocabulary (taken from the module docstring of fspack.py and the property, not from
the code):

  vrec[p]          p is the position of a data record of the file (records never change: the packer
                   reads a file that is only appended to)
  eb(p)            effective back pointer of record p: back(p) if plen(p) == 0 else 0
  REFS(p)          references of revision p  :=  REFS(eb(p)) if eb(p) != 0
                                                  referencesf(payload of p) if plen(p) != 0
                                                  [] otherwise          (RL(p) length, RA(p) elements)
                   - i.e. the references of the state a reader of that revision gets (the packer
                   writes exactly this state when it resolves back pointers to data)
  kept(o, p)       the pack keeps revision p of object o :=  o in reachable and
                   (reachable[o] == p or p in reach_ex[o])       (this is GC.isReachable)

  KEEP-CLOSED      every kept revision's references are kept objects:
                   kept(o, p) => for all i < RL(p): RA(p)[i] in reachable
  KEEP-BACK        every record after the pack position whose back pointer crosses the pack position
                   points at a kept revision

The worklist is specified through the multiset view (ghost `bag`) of the list `todo`.
"""
import z3

from pyvc import contract, prims
from pyvc.contract import LoopSpec, Outcome, Spec
from pyvc.engine import ContractStale, RaiseSig, Unsupported, as_z3_bool, bytes_num
from pyvc.ground import All, Ex, FAnd, FNot, FOr
from pyvc.values import (B, I, NONE, VBool, VBytes, VExc, VFunc, VInt, VNone, VOpaque, VRef,
                         VStr, VTuple, fresh_name)

from . import fsmodel as M
from .common import KeyError_, inst

FSP = 'ZODB.FileStorage.fspack'
GC = FSP + ':GC'
AII = z3.ArraySort(I, I)

ASSUMPTIONS = (
    'A-REFERENCESF: referencesf is a function of the record payload (same bytes -> same list of 8-byte '
    'oids); its classification of reference spellings is proved in C14 (contracts.serialize_refs)',
    'A-DICT-OF-LISTS: GC.reach_ex (dict oid -> list of positions) is modelled as a map oid -> set of '
    'positions; only get(oid, []), setdefault(oid, []), `pos in L`, L.append(pos) are supported',
    'list model: a python list is (array, length) plus the ghost multiset of its elements',
)


# --------------------------------------------------------------------------------------
# reach_ex: dict oid -> list of positions, abstracted to oid -> set of positions
# --------------------------------------------------------------------------------------
def new_revsets(c, name='reach_ex', empty=False):
    inner = z3.K(I, z3.BoolVal(False))
    mem = z3.K(I, inner) if empty else z3.Array(fresh_name(name), I, M.AIB)
    return c.new_obj('revsets', None, {'mem': mem}, {'name': name})


def _revsets_key(c, k, node):
    if isinstance(k, VBytes) and k.conc_len() == 8:
        return bytes_num(c, k, node)
    raise Unsupported('reach_ex key %r' % (k,), node)


def revsets_method(c, interp, ref, o, name, args, kwargs, node):
    if name in ('get', 'setdefault') and len(args) == 2:
        d = args[1]
        if not (isinstance(d, VRef) and c.obj(d).kind == 'list' and c.obj(d).meta.get('items') == []):
            raise Unsupported('reach_ex.%s default must be []' % name, node)
        return c.new_obj('revview', None, {}, {'owner': ref, 'key': _revsets_key(c, args[0], node)})
    raise Unsupported('reach_ex method %s' % name, node)


def revview_contains(c, container, o, item, node):
    if not isinstance(item, VInt):
        return False
    owner = c.obj(o.meta['owner'])
    return z3.Select(z3.Select(owner.f['mem'], o.meta['key']), item.t)


def revview_method(c, interp, ref, o, name, args, kwargs, node):
    owner = c.obj(o.meta['owner'])
    k = o.meta['key']
    if name == 'append' and len(args) == 1 and isinstance(args[0], VInt):
        owner.f['mem'] = z3.Store(owner.f['mem'], k,
                                  z3.Store(z3.Select(owner.f['mem'], k), args[0].t, z3.BoolVal(True)))
        return NONE
    raise Unsupported('reach_ex list method %s' % name, node)


prims.KIND_METHOD['revsets'] = revsets_method
prims.KIND_METHOD['revview'] = revview_method
prims.KIND_CONTAINS['revview'] = revview_contains


# --------------------------------------------------------------------------------------
# the symbolic GC instance
# --------------------------------------------------------------------------------------
class GCWorld:
    """handles on the symbolic GC instance; pp / csz read the CURRENT value of self.packpos and
    len(self.oid2curpos) (buildPackIndex assigns them)"""

    @property
    def pp(self):
        v = self.c.obj(self.self).f['packpos']
        if not isinstance(v, VInt):
            raise Unsupported('GC.packpos is not a position here')
        return v.t

    @property
    def csz(self):
        return self.c.obj(self.cur).f['size']


def mk_gc(c, fresh_gc=False, file=None):
    """fresh_gc: the state GC.__init__ leaves (empty maps, no pack position)"""
    w = GCWorld()
    w.c = c
    w.file = file if file is not None else prims.new_file(c, 'packfile', mode='rb')
    fo = c.obj(w.file).f
    c.assume(z3.And(fo['size'] >= 4, fo['size'] < M.MAXPOS, z3.Not(fo['dirty'])))
    w.A, w.n = fo['arr'], fo['size']
    w.R = M.RecFuns(c, w.A)
    n = fresh_name('gc')
    w.vrec = z3.Array('vrec_' + n, I, B)
    w.RL = z3.Function('RL_' + n, I, I)
    w.RA = z3.Function('RA_' + n, I, AII)
    w.OWNL = z3.Function('OWNL_' + n, I, I)
    w.OWNA = z3.Function('OWNA_' + n, I, AII)
    mkmap = lambda nm: prims.new_map(c, 'bytes8', 'int', nm, sorted_=True, cls='ZODB.fsIndex:fsIndex',
                                     empty=fresh_gc)
    w.reachable, w.cur = mkmap('reachable'), mkmap('oid2curpos')
    w.cursize = VInt(z3.IntVal(0)) if fresh_gc else c.fresh_int('len_oid2curpos')
    c.obj(w.cur).f['size'] = w.cursize.t
    w.reach_ex = new_revsets(c, empty=fresh_gc)
    w.packpos = c.fresh_int('packpos')
    w.eof = c.fresh_int('eof')
    c.assume(z3.And(w.packpos.t >= 4, w.packpos.t <= w.eof.t, w.eof.t <= w.n))

    def referencesf(cc, args, kwargs, node):
        data = args[0] if args else None
        ok = isinstance(data, VBytes) and len(data.segs) == 1 and data.segs[0][0] == 'a' \
            and not kwargs and len(args) == 1
        if not ok:
            cc.oblige('referencesf.argument-is-the-payload-of-one-record', False, node,
                      assume_after=False)
            raise Unsupported('referencesf on %r' % (data,), node)
        _, arr, off, ln = data.segs[0]
        d = z3.simplify(off - 42)
        cc.oblige('referencesf.argument-is-the-payload-of-one-record',
                  z3.And(arr == w.A, z3.Select(w.vrec, d), ln == w.R.plen(d), ln > 0), node,
                  assume_after=False)
        r = prims.new_slist(cc, 'bytes8', 'refs', bag=True)
        o = cc.obj(r)
        o.f['arr'], o.f['len'] = w.OWNA(d), w.OWNL(d)
        list_facts(cc, o)
        return r
    w.referencesf = VFunc('spec', 'referencesf', None, referencesf)
    w.self = inst(c, GC, _file=w.file, _name=VStr('<Data.fs>'), eof=w.eof,
                  packtime=c.fresh_bytes(8, 'packtime'), gc=c.fresh_bool('gc'), packpos=w.packpos,
                  oid2curpos=w.cur, reachable=w.reachable, reach_ex=w.reach_ex,
                  ltid=c.fresh_bytes(8, 'ltid'), referencesf=w.referencesf)
    register_world(c, w)
    c.ghost[('gc', w.self.id)] = w
    return w


def register_world(c, w):
    r = c.roles
    r.array(w.vrec, 'pos')
    for f in (w.R.oid, w.R.tid, w.R.prev, w.R.tloc, w.R.vlen, w.R.plen, w.R.back, w.RL, w.RA,
              w.OWNL, w.OWNA):
        r.func(f, ['pos'])
    r.afunc(w.RA, 'idx')
    r.afunc(w.OWNA, 'idx')
    for m_ in (w.reachable, w.cur):
        register_map(c, m_)
    r.nested_array(c.obj(w.reach_ex).f['mem'], 'oid', 'pos')


def register_map(c, m_):
    o = c.obj(m_)
    o.meta['role'] = 'oid'
    c.roles.array(o.f['dom'], 'oid')
    c.roles.array(o.f['val'], 'oid')


def register_list(c, o, role='oid'):
    c.roles.array(o.f['arr'], 'idx')
    if 'bag' in o.f:
        c.roles.array(o.f['bag'], role)


def list_facts(c, o, role='oid'):
    """facts of the list model: every element occurs in the multiset view; no negative counts"""
    register_list(c, o, role)
    arr, ln, bag = o.f['arr'], o.f['len'], o.f['bag']
    c.assume(ln >= 0)
    c.assume(All(['idx'], lambda i: z3.Implies(z3.And(i >= 0, i < ln),
                                               z3.Select(bag, z3.Select(arr, i)) >= 1)))
    c.assume(All([role], lambda x: z3.Select(bag, x) >= 0))


def world(c, selfv):
    return c.ghost[('gc', selfv.id)]


def eb(w, p):
    return z3.If(w.R.plen(p) == 0, w.R.back(p), 0)


def gc_ri(c, w):
    R, vrec, n = w.R, w.vrec, w.n
    sel = z3.Select

    def record(p):
        e = eb(w, p)
        return z3.Implies(sel(vrec, p), z3.And(
            p >= 4, p + 42 + z3.If(R.plen(p) == 0, 8, R.plen(p)) <= n, R.vlen(p) == 0,
            R.plen(p) >= 0, R.oid(p) >= 0, R.oid(p) < 2 ** 64,
            z3.Implies(e != 0, z3.And(sel(vrec, e), e > 0, e < p)),
            # REFS (definition by recursion along the strictly decreasing back pointers)
            w.RL(p) >= 0,
            z3.Implies(e != 0, z3.And(w.RL(p) == w.RL(e), w.RA(p) == w.RA(e))),
            z3.Implies(z3.And(e == 0, R.plen(p) != 0),
                       z3.And(w.RL(p) == w.OWNL(p), w.RA(p) == w.OWNA(p))),
            z3.Implies(z3.And(e == 0, R.plen(p) == 0), w.RL(p) == 0)))
    cur = c.obj(w.cur).f
    return [
        ('records', All(['pos'], record)),
        ('references-are-oids', All(['pos', 'idx'], lambda p, i: z3.Implies(
            z3.And(sel(vrec, p), i >= 0, i < w.RL(p)),
            z3.And(sel(w.RA(p), i) >= 0, sel(w.RA(p), i) < 2 ** 64)))),
        ('current-positions-are-records', All(['oid'], lambda o: z3.Implies(
            sel(cur['dom'], o), z3.And(sel(vrec, sel(cur['val'], o)), o >= 0, o < 2 ** 64)))),
    ]


def map_model(c, w):
    """model axiom of len() of a finite map (the ghost cardinality is kept by every update)"""
    cur = c.obj(w.cur).f
    return [w.csz >= 0, All(['oid'], lambda o: z3.Implies(w.csz == 0,
                                                          z3.Not(z3.Select(cur['dom'], o))))]


def refs_list(c, w, p):
    """the list REFS(p) as a value (for call sites)"""
    r = prims.new_slist(c, 'bytes8', 'refs', bag=True)
    o = c.obj(r)
    o.f['arr'], o.f['len'] = w.RA(p), w.RL(p)
    list_facts(c, o)
    return r


class GCSpec(Spec):
    props = ('C07',)
    assumptions = ASSUMPTIONS

    def w(self, c, E):
        return world(c, E['self'])

    def requires(self, c, E):
        return gc_ri(c, self.w(c, E))

    def definitions(self, c, E):
        return map_model(c, self.w(c, E))


# ======================================================================================
class FindRefs(GCSpec):
    func = GC + '.findrefs'

    def setup(self, c, case=None):
        w = mk_gc(c)
        return {'self': w.self, 'pos': c.fresh_int('pos')}

    def requires(self, c, E):
        w = self.w(c, E)
        return gc_ri(c, w) + [('pos-is-a-record', z3.Select(w.vrec, E['pos'].t))]

    def modifies(self, c, E):
        return {(self.w(c, E).file.id, 'pos')}

    @property
    def loops(self):
        def kind(cc, fr):
            return inst(cc, M.DH, oid=cc.fresh_bytes(8, 'h_oid'), tid=cc.fresh_bytes(8, 'h_tid'),
                        prev=cc.fresh_int('h_prev'), tloc=cc.fresh_int('h_tloc'),
                        plen=cc.fresh_int('h_plen'), back=cc.fresh_int('h_back'))

        def havoc(cc, fr):
            w = self.w(cc, cc.E)
            cc.obj(w.file).f['pos'] = z3.Int(fresh_name('fpos'))

        def inv(cc, fr):
            w = self.w(cc, cc.E)
            pos0 = cc.E['pos'].t
            dh = fr.locals.get('dh')
            if not (isinstance(dh, VRef) and cc.obj(dh).cls == M.DH):
                raise ContractStale('the loop contract expects the local(s) it names (dh-is-a-header): the code has a different shape')
            hf = cc.obj(dh).f
            plen, back = hf['plen'].t, hf['back'].t
            P = z3.simplify(cc.obj(w.file).f['pos'] - 42 - z3.If(plen == 0, 8, 0))
            w.R.link(cc, P)
            return [('header-of-a-record', z3.And(z3.Select(w.vrec, P), plen == w.R.plen(P),
                                                  back == eb(w, P))),
                    ('same-references-as-the-start', z3.And(w.RL(P) == w.RL(pos0),
                                                            w.RA(P) == w.RA(pos0)))]
        return {0: LoopSpec(inv=inv, havoc=havoc, kinds={'dh': kind})}

    def outcomes(self, c, E):
        w = self.w(c, E)
        pos = E['pos'].t

        def post(cc, E, r):
            if isinstance(r, VRef) and cc.obj(r).kind == 'list' and cc.obj(r).meta.get('items') == []:
                return [('no-references', w.RL(pos) == 0)]
            if isinstance(r, VRef) and cc.obj(r).kind == 'slist':
                o = cc.obj(r)
                return [('references-of-the-resolved-state',
                         z3.And(o.f['len'] == w.RL(pos), o.f['arr'] == w.RA(pos)))]
            return [('returns-a-list', False)]
        return [Outcome('refs', result=lambda cc, E: refs_list(cc, w, pos), post=post)]


# ======================================================================================
def kept(c, w, o, p, reach=None, mem=None):
    rf = reach or c.obj(w.reachable).f
    mem = mem if mem is not None else c.obj(w.reach_ex).f['mem']
    sel = z3.Select
    return z3.And(sel(rf['dom'], o), z3.Or(sel(rf['val'], o) == p, sel(sel(mem, o), p)))


class IsReachable(GCSpec):
    func = GC + '.isReachable'

    def setup(self, c, case=None):
        w = mk_gc(c)
        return {'self': w.self, 'oid': c.fresh_bytes(8, 'oid'), 'pos': c.fresh_int('pos')}

    def requires(self, c, E):
        return []

    def modifies(self, c, E):
        return set()

    def outcomes(self, c, E):
        w = self.w(c, E)
        o, p = bytes_num(c, E['oid']), E['pos'].t
        k = kept(c, w, o, p)

        def post(cc, E, r):
            from pyvc.engine import truthy
            return [('true-iff-the-revision-is-kept', as_z3_bool(truthy(cc, r, None)) == k)]
        return [Outcome('answer', result=lambda cc, E: VBool(k), post=post)]


# ======================================================================================
def closed(w, p, dom, bag=None):
    """lambda i: the i-th reference of revision p is a kept object (or still on the worklist)"""
    sel = z3.Select

    def f(i):
        x = sel(w.RA(p), i)
        # (a reference to the root when nothing at all existed at the pack time is the code's
        # documented special case "pack to before creation time")
        there = z3.Or(sel(dom, x), z3.And(x == 0, w.csz == 0))
        if bag is not None:
            there = z3.Or(there, sel(bag, x) >= 1)
        return z3.Implies(z3.And(i >= 0, i < w.RL(p)), there)
    return f


def as_slist(c, v, node=None):
    """a list value as (arr, len) terms; python-side lists of 8-byte strings are converted"""
    if isinstance(v, VRef):
        o = c.obj(v)
        if o.kind == 'slist':
            return o.f['arr'], o.f['len']
        if o.kind == 'list' and 'items' in o.meta:
            arr = z3.K(I, z3.IntVal(0))
            for k, it in enumerate(o.meta['items']):
                if not (isinstance(it, VBytes) and it.conc_len() == 8):
                    raise Unsupported('list of oids expected', node)
                arr = z3.Store(arr, k, bytes_num(c, it))
            return arr, z3.IntVal(len(o.meta['items']))
    raise Unsupported('list of oids expected, got %r' % (v,), node)


def roots_bag(c, v, node=None):
    """multiset view of a list of oids (symbolic list: its ghost; python-side list: built here)"""
    if isinstance(v, VRef):
        o = c.obj(v)
        if o.kind == 'slist' and 'bag' in o.f:
            return o.f['bag']
        if o.kind == 'list' and 'items' in o.meta:
            bag = z3.K(I, z3.IntVal(0))
            for it in o.meta['items']:
                k = bytes_num(c, it)
                bag = z3.Store(bag, k, z3.Select(bag, k) + 1)
            return bag
    raise Unsupported('list of oids expected, got %r' % (v,), node)


class FindReachableAtPacktime(GCSpec):
    """worklist closure: afterwards every root is kept, every newly kept object is kept at its
    revision current at the pack time and all references of that revision are kept objects;
    earlier entries are untouched"""
    func = GC + '.findReachableAtPacktime'

    def setup(self, c, case=None):
        w = mk_gc(c)
        roots = prims.new_slist(c, 'bytes8', 'roots', bag=True)
        list_facts(c, c.obj(roots))
        return {'self': w.self, 'roots': roots}

    def modifies(self, c, E):
        w = self.w(c, E)
        return {(w.file.id, 'pos'), (w.reachable.id, 'dom'), (w.reachable.id, 'val')}

    def havoc(self, c, E, outcome=None):
        w = self.w(c, E)
        o = c.obj(w.reachable)
        o.f['dom'] = z3.Array(fresh_name('reachable_dom'), I, B)
        o.f['val'] = z3.Array(fresh_name('reachable_val'), I, I)
        register_map(c, w.reachable)
        c.obj(w.file).f['pos'] = z3.Int(fresh_name('fpos'))

    # ---- the clauses shared by the loop invariants and the postcondition
    def clauses(self, c, E, old_reach, bag=None, pending_pos=None):
        w = self.w(c, E)
        sel = z3.Select
        R0 = old_reach
        R = c.obj(w.reachable).f
        cur = c.obj(w.cur).f
        rarr, rlen = as_slist(c, E['roots'])
        rbag = roots_bag(c, E['roots'])
        c.roles.array(rarr, 'idx')
        c.roles.array(rbag, 'oid') if z3.is_const(rbag) else None
        dom, val = R['dom'], R['val']

        def newly(o):
            return z3.And(sel(dom, o), z3.Not(sel(R0['dom'], o)))

        def root_ok(k):
            x = sel(rarr, k)
            there = sel(dom, x)
            if bag is not None:
                there = z3.Or(there, sel(bag, x) >= 1)
            return z3.Implies(z3.And(k >= 0, k < rlen),
                              z3.Or(there, z3.And(x == 0, w.csz == 0)))

        def closure(o, i):
            p = sel(val, o)
            body = closed(w, p, dom, bag)(i)
            if pending_pos is not None:
                body = z3.Or(p == pending_pos, body)
            return z3.Implies(newly(o), body)
        return [
            ('earlier-entries-untouched', All(['oid'], lambda o: z3.Implies(
                sel(R0['dom'], o), z3.And(sel(dom, o), sel(val, o) == sel(R0['val'], o))))),
            ('new-entries-are-the-revisions-current-at-pack-time', All(['oid'], lambda o: z3.Implies(
                newly(o), z3.And(sel(cur['dom'], o), sel(val, o) == sel(cur['val'], o))))),
            ('references-of-new-entries-are-kept', All(['oid', 'idx'], closure)),
            ('roots-are-kept', All(['idx'], root_ok)),
            ('roots-are-kept.by-membership', All(['oid'], lambda o: z3.Implies(
                sel(rbag, o) >= 1, z3.Or(sel(dom, o), z3.And(o == 0, w.csz == 0),
                                         (sel(bag, o) >= 1) if bag is not None else False)))),
        ]

    @property
    def loops(self):
        def todo_of(cc, fr):
            t = fr.locals.get('todo')
            if isinstance(t, VRef) and cc.obj(t).kind == 'slist' and 'bag' in cc.obj(t).f:
                return cc.obj(t)
            return None

        def havoc_todo(cc, fr):
            t = todo_of(cc, fr)
            if t is None:
                raise Unsupported('todo is not a symbolic list')
            t.f['arr'] = z3.Array(fresh_name('todo_arr'), I, I)
            t.f['len'] = z3.Int(fresh_name('todo_len'))
            t.f['bag'] = z3.Array(fresh_name('todo_bag'), I, I)
            list_facts(cc, t)

        def havoc0(cc, fr):
            self.havoc(cc, cc.E)
            havoc_todo(cc, fr)

        def inv0(cc, fr):
            t = todo_of(cc, fr)
            if t is None:
                raise ContractStale('the loop contract expects the local(s) it names (todo-is-a-list): the code has a different shape')
            return self.clauses(cc, cc.E, cc.E.old[self.w(cc, cc.E).reachable.id], bag=t.f['bag'])

        def exit0(cc, fr):
            # list model: an empty list has an empty multiset view
            t = todo_of(cc, fr)
            bag = t.f['bag']
            cc.assume(All(['oid'], lambda x: z3.Implies(t.f['len'] == 0, z3.Select(bag, x) == 0)))

        def inv1(cc, fr):
            t = todo_of(cc, fr)
            w = self.w(cc, cc.E)
            if t is None:
                raise ContractStale('the loop contract expects the local(s) it names (todo-is-a-list): the code has a different shape')
            pos = fr.locals.get('pos')
            cur = fr.locals.get('$iter1')
            if not isinstance(pos, VInt) or cur is None:
                raise ContractStale('the loop contract expects the local(s) it names (pos-is-a-position): the code has a different shape')
            dom = cc.obj(w.reachable).f['dom']
            bag = t.f['bag']
            sel = z3.Select
            seen = All(['idx'], lambda i: z3.Implies(
                z3.And(i >= 0, i < cur.idx),
                z3.Or(sel(dom, sel(w.RA(pos.t), i)), sel(bag, sel(w.RA(pos.t), i)) >= 1)))
            return self.clauses(cc, cc.E, cc.E.old[w.reachable.id], bag=bag, pending_pos=pos.t) + [
                ('iterating-the-references-of-pos', z3.And(cur.len0 == w.RL(pos.t),
                                                           cur.arr0 == w.RA(pos.t),
                                                           z3.Select(w.vrec, pos.t))),
                ('references-seen-so-far-are-kept-or-queued', seen)]
        return {0: LoopSpec(inv=inv0, havoc=havoc0, on_exit=exit0, kinds={'oid': lambda c, fr: NONE,
                                                                          'pos': lambda c, fr: NONE}),
                1: LoopSpec(inv=inv1, havoc=lambda cc, fr: havoc_todo(cc, fr), frozen=('pos',))}

    def outcomes(self, c, E):
        def post(cc, E, r):
            return self.clauses(cc, E, E.old[self.w(cc, E).reachable.id])
        return [Outcome('closed', result=lambda cc, E: NONE, post=post),
                Outcome('dangling-reference', 'raise', KeyError_)]


# ======================================================================================
class OidRepr(Spec):
    func = 'ZODB.utils:oid_repr'
    props = ()
    verify = False
    assumptions = ('ZODB.utils.oid_repr is a total, pure formatting helper (assumed; it only feeds error '
                   'messages)',)

    def outcomes(self, c, E):
        return [Outcome('text', result=lambda cc, E: cc.fresh_opaque('str'))]


class Fail(Spec):
    func = 'ZODB.FileStorage.format:FileStorageFormatter.fail'
    props = ()
    verify = False
    assumptions = ('FileStorageFormatter.fail(pos, msg, *args) formats a message, logs it and raises '
                   'CorruptedError (3 lines, assumed: string formatting is outside the VC generator)',)

    def outcomes(self, c, E):
        return [Outcome('raises', 'raise', M.CorruptedError)]


# ======================================================================================
class Later:
    """ghost tiling of the region [packpos, eof): transaction boundaries and data records"""

    def __init__(self, c, w):
        n = fresh_name('later')
        self.isB = z3.Array('isB_' + n, I, B)
        self.rec = z3.Array('recL_' + n, I, B)
        self.txnOf = z3.Array('txnOf_' + n, I, I)
        self.T = M.TxnFuns(c, w.A)
        c.roles.array(self.isB, 'bpos')
        c.roles.array(self.rec, 'pos')
        c.roles.array(self.txnOf, 'pos')
        for fn in (self.T.tid, self.T.tl, self.T.status, self.T.ul, self.T.dl, self.T.el, self.T.trl):
            c.roles.func(fn, ['bpos'])
        c.roles.seed('bpos', w.eof.t)


def rlen(w, p):
    return 42 + z3.If(w.R.plen(p) == 0, 8, w.R.plen(p))


def later_clauses(w, lt, lo=None, eof=None):
    """tiling of [lo, eof) by transactions and their data records (lo defaults to the pack position,
    eof to the end of the region the GC was given)"""
    sel = z3.Select
    T, isB, rec, txnOf = lt.T, lt.isB, lt.rec, lt.txnOf
    lo = w.pp if lo is None else lo
    eof = w.eof.t if eof is None else eof

    def boundary(b):
        nb = b + T.tl(b) + 8
        first = b + T.hdrlen(b)
        return z3.Implies(z3.And(sel(isB, b), b >= lo, b < eof), z3.And(
            eof - b >= 23, T.status(b) >= 0, T.status(b) < 128,
            T.ul(b) >= 0, T.dl(b) >= 0, T.el(b) >= 0, T.tl(b) >= T.hdrlen(b), T.trl(b) == T.tl(b),
            T.tid(b) >= 0, nb <= eof, sel(isB, nb),
            z3.Implies(T.hdrlen(b) < T.tl(b), z3.And(sel(rec, first), sel(txnOf, first) == b))))

    def record(p):
        b = sel(txnOf, p)
        nxt = p + rlen(w, p)
        return z3.Implies(z3.And(sel(rec, p), p >= lo, p < eof), z3.And(
            sel(w.vrec, p), sel(isB, b), b >= lo, b < eof, p >= b + T.hdrlen(b), nxt <= b + T.tl(b),
            z3.Or(nxt == b + T.tl(b), z3.And(sel(rec, nxt), sel(txnOf, nxt) == b))))
    return [
        ('tiling.start', z3.And(sel(isB, lo), lo <= eof, lo >= 4)),
        ('tiling.transactions', All(['bpos'], boundary)),
        ('tiling.records', All(['pos'], record)),
        ('tiling.records-do-not-overlap', All(['pos', 'pos'], lambda p, q: z3.Implies(
            z3.And(sel(rec, p), sel(rec, q), p >= lo, p < q, q < eof), p + rlen(w, p) <= q))),
        ('tiling.records-lie-inside-transactions', All(['pos', 'bpos'], lambda p, b: z3.Implies(
            z3.And(sel(rec, p), p >= lo, p < eof, sel(isB, b), b >= lo, b <= eof),
            z3.And(z3.Implies(p < b, p + rlen(w, p) + 8 <= b),
                   z3.Implies(z3.And(b <= p, b < eof), b + T.hdrlen(b) <= p))))),
        ('tiling.transactions-do-not-overlap', All(['bpos', 'bpos'], lambda b, b2: z3.Implies(
            z3.And(sel(isB, b), sel(isB, b2), b >= lo, b < b2, b2 <= eof), b + T.tl(b) + 8 <= b2))),
    ]


class FindReachableFromFuture(GCSpec):
    """KEEP-BACK + KEEP-CLOSED: afterwards every back pointer that crosses the pack position points
    at a kept revision, and the references of EVERY kept revision are kept objects"""
    func = GC + '.findReachableFromFuture'
    assumptions = ASSUMPTIONS + (
        'RI-TILING: the region after the pack position is tiled by transactions and their data records '
        '(format description); assumed here, its preservation by commits is the subject of C01/C04',)

    def setup(self, c, case=None):
        w = mk_gc(c)
        w.later = Later(c, w)
        w.mem0 = c.obj(w.reach_ex).f['mem']
        return {'self': w.self}

    def requires(self, c, E):
        w = self.w(c, E)
        sel = z3.Select
        R0 = c.obj(w.reachable).f
        dom, val = R0['dom'], R0['val']
        mem = c.obj(w.reach_ex).f['mem']
        return gc_ri(c, w) + later_clauses(w, w.later) + [
            ('kept-revisions-are-records', All(['oid'], lambda o: z3.Implies(
                sel(dom, o), z3.And(sel(w.vrec, sel(val, o)), o >= 0, o < 2 ** 64)))),
            ('keep-closed.on-entry', All(['oid', 'idx'], lambda o, i: z3.Implies(
                sel(dom, o), closed(w, sel(val, o), dom)(i)))),
            ('keep-closed.extra.on-entry', All(['oid', 'pos', 'idx'], lambda o, p, i: z3.Implies(
                sel(sel(mem, o), p), z3.And(sel(dom, o), sel(w.vrec, p), closed(w, p, dom)(i))))),
        ]

    def modifies(self, c, E):
        w = self.w(c, E)
        return {(w.file.id, 'pos'), (w.reachable.id, 'dom'), (w.reachable.id, 'val'),
                (w.reach_ex.id, 'mem'), (w.self.id, 'ltid')}

    def havoc(self, c, E, outcome=None, ex=True):
        w = self.w(c, E)
        o = c.obj(w.reachable)
        o.f['dom'] = z3.Array(fresh_name('reachable_dom'), I, B)
        o.f['val'] = z3.Array(fresh_name('reachable_val'), I, I)
        register_map(c, w.reachable)
        if ex:
            x = c.obj(w.reach_ex)
            x.f['mem'] = z3.Array(fresh_name('reach_ex'), I, M.AIB)
            c.roles.nested_array(x.f['mem'], 'oid', 'pos')
            c.obj(w.self).f['ltid'] = c.fresh_bytes(8, 'ltid')
        c.obj(w.file).f['pos'] = z3.Int(fresh_name('fpos'))

    # ---- views
    def xr(self, cc, fr):
        """extra_roots as (arr, len, where)"""
        v = fr.locals.get('extra_roots')
        if isinstance(v, VRef):
            o = cc.obj(v)
            if o.kind == 'slist' and 'where' in o.f:
                return o.f['arr'], o.f['len'], o.f['where']
            if o.kind == 'list' and o.meta.get('items') == []:
                return z3.K(I, z3.IntVal(0)), z3.IntVal(0), z3.K(I, z3.IntVal(-1))
        return None

    def fresh_xr(self, cc, fr):
        r = prims.new_slist(cc, 'int', 'extra_roots')
        o = cc.obj(r)
        o.f['where'] = z3.Array(fresh_name('where'), I, I)
        cc.roles.array(o.f['arr'], 'xidx')
        cc.roles.array(o.f['where'], 'pos')
        return r

    def fut(self, cc, fr):
        """multiset view of the local list future_refs"""
        v = fr.locals.get('future_refs')
        if isinstance(v, VRef):
            o = cc.obj(v)
            if o.kind == 'slist' and 'bag' in o.f:
                return o.f['bag']
            if o.kind == 'list' and o.meta.get('items') == []:
                return z3.K(I, z3.IntVal(0))
        return None

    def fresh_fut(self, cc, fr):
        r = prims.new_slist(cc, 'bytes8', 'future_refs', bag=True)
        bag = cc.obj(r).f['bag']
        cc.roles.array(bag, 'oid')
        cc.assume(All(['oid'], lambda x: z3.Select(bag, x) >= 0))     # list model: counts
        return r

    def own_refs_queued(self, cc, w, bagF, upto):
        """every reference of a record with its own data in [packpos, upto) is in future_refs"""
        lt = w.later
        sel = z3.Select
        return All(['pos', 'idx'], lambda p, i: z3.Implies(
            z3.And(sel(lt.rec, p), p >= w.pp, p < upto, w.R.plen(p) != 0, i >= 0, i < w.OWNL(p)),
            sel(bagF, sel(w.OWNA(p), i)) >= 1))

    def handled(self, cc, w, p):
        e = eb(w, p)
        return z3.Implies(z3.And(e != 0, e < w.pp), kept(cc, w, w.R.oid(p), e))

    def scan_clauses(self, cc, fr, upto):
        """clauses shared by the two scanning loops; upto: records below it have been seen"""
        w = self.w(cc, cc.E)
        lt = w.later
        sel = z3.Select
        R0 = cc.E.old[w.reachable.id]
        R = cc.obj(w.reachable).f
        dom, val = R['dom'], R['val']
        mem0 = cc.E.old[w.reach_ex.id]['mem']
        mem = cc.obj(w.reach_ex).f['mem']
        fo = cc.obj(w.file).f
        xr = self.xr(cc, fr)
        if xr is None:
            raise ContractStale('the loop contract expects the local(s) it names (extra_roots-is-a-list): the code has a different shape')
        arr, ln, where = xr
        bagF = self.fut(cc, fr)
        if bagF is None:
            raise ContractStale('the loop contract expects the local(s) it names (future_refs-is-a-list): the code has a different shape')
        queued = lambda p: z3.And(sel(where, p) >= 0, sel(where, p) < ln, sel(arr, sel(where, p)) == p)
        return [
            ('references-of-later-records-are-queued', self.own_refs_queued(cc, w, bagF, upto)),
            ('file-untouched', z3.And(fo['arr'] == w.A, fo['size'] == w.n)),
            ('seen-records-handled', All(['pos'], lambda p: z3.Implies(
                z3.And(sel(lt.rec, p), p >= w.pp, p < upto), self.handled(cc, w, p)))),
            ('earlier-entries-untouched', All(['oid'], lambda o: z3.Implies(
                sel(R0['dom'], o), z3.And(sel(dom, o), sel(val, o) == sel(R0['val'], o))))),
            ('new-entries-are-queued', All(['oid'], lambda o: z3.Implies(
                z3.And(sel(dom, o), z3.Not(sel(R0['dom'], o))),
                z3.And(sel(w.vrec, sel(val, o)), queued(sel(val, o)), o >= 0, o < 2 ** 64)))),
            ('earlier-extra-revisions-kept', All(['oid', 'pos'], lambda o, p: z3.Implies(
                sel(sel(mem0, o), p), sel(sel(mem, o), p)))),
            ('new-extra-revisions-are-queued', All(['oid', 'pos'], lambda o, p: z3.Implies(
                z3.And(sel(sel(mem, o), p), z3.Not(sel(sel(mem0, o), p))),
                z3.And(sel(dom, o), sel(w.vrec, p), queued(p))))),
            ('queued-positions-are-records', All(['xidx'], lambda j: z3.Implies(
                z3.And(j >= 0, j < ln), sel(w.vrec, sel(arr, j))))),
            ('queue-length', ln >= 0),
        ]

    @property
    def loops(self):
        sel = z3.Select
        none = lambda cc, fr: NONE

        def havoc_scan(cc, fr):
            self.havoc(cc, cc.E)
            fr.locals['extra_roots'] = self.fresh_xr(cc, fr)
            fr.locals['future_refs'] = self.fresh_fut(cc, fr)

        def inv0(cc, fr):
            w = self.w(cc, cc.E)
            lt = w.later
            pos = fr.locals['pos'].t
            lt.T.link(cc, pos)
            return [('at-boundary', z3.And(sel(lt.isB, pos), pos >= w.pp, pos <= w.eof.t))] + \
                self.scan_clauses(cc, fr, pos)

        def inv1(cc, fr):
            w = self.w(cc, cc.E)
            lt = w.later
            T = lt.T
            pos, tpos, end = fr.locals['pos'].t, fr.locals['tpos'].t, fr.locals['end'].t
            th = fr.locals.get('th')
            if not (isinstance(th, VRef) and cc.obj(th).cls == M.TH):
                raise ContractStale('the loop contract expects the local(s) it names (th-is-a-header): the code has a different shape')
            T.link(cc, tpos)
            w.R.link(cc, pos)
            tlen = cc.obj(th).f['tlen'].t
            return [
                ('in-transaction', z3.And(sel(lt.isB, tpos), tpos < w.eof.t, tpos >= w.pp,
                                          end == tpos + T.tl(tpos), tlen == T.tl(tpos))),
                ('at-record-or-end', z3.And(pos >= tpos + T.hdrlen(tpos), pos <= end, z3.Or(
                    pos == end, z3.And(sel(lt.rec, pos), sel(lt.txnOf, pos) == tpos)))),
            ] + self.scan_clauses(cc, fr, pos)

        def inv2(cc, fr):
            w = self.w(cc, cc.E)
            lt = w.later
            cur = fr.locals.get('$iter2')
            xr = self.xr(cc, fr)
            if cur is None or xr is None:
                raise ContractStale('the loop contract expects the local(s) it names (iterating-extra-roots): the code has a different shape')
            arr, ln, where = xr
            R0 = cc.E.old[w.reachable.id]
            R = cc.obj(w.reachable).f
            dom, val = R['dom'], R['val']
            mem = cc.obj(w.reach_ex).f['mem']
            fo = cc.obj(w.file).f
            pending = lambda p: z3.And(sel(where, p) >= cur.idx, sel(where, p) < ln,
                                       sel(arr, sel(where, p)) == p)
            return [
                ('file-untouched', z3.And(fo['arr'] == w.A, fo['size'] == w.n)),
                ('iterating-the-queue', z3.And(cur.arr0 == arr, cur.len0 == ln)),
                ('queued-positions-are-records', All(['xidx'], lambda j: z3.Implies(
                    z3.And(j >= 0, j < ln), sel(w.vrec, sel(arr, j))))),
                ('earlier-entries-untouched', All(['oid'], lambda o: z3.Implies(
                    sel(R0['dom'], o), z3.And(sel(dom, o), sel(val, o) == sel(R0['val'], o))))),
                ('kept-revisions-are-records', All(['oid'], lambda o: z3.Implies(
                    sel(dom, o), z3.And(sel(w.vrec, sel(val, o)), o >= 0, o < 2 ** 64)))),
                ('keep-back', All(['pos'], lambda p: z3.Implies(
                    z3.And(sel(lt.rec, p), p >= w.pp, p < w.eof.t), self.handled(cc, w, p)))),
                ('keep-closed.or-pending', All(['oid', 'idx'], lambda o, i: z3.Implies(
                    sel(dom, o), z3.Or(pending(sel(val, o)), closed(w, sel(val, o), dom)(i))))),
                ('keep-closed.extra.or-pending', All(['oid', 'pos', 'idx'], lambda o, p, i: z3.Implies(
                    sel(sel(mem, o), p),
                    z3.And(sel(dom, o), sel(w.vrec, p), z3.Or(pending(p), closed(w, p, dom)(i)))))),
            ]

        def havoc2(cc, fr):
            self.havoc(cc, cc.E, ex=False)
        return {0: LoopSpec(inv=inv0, havoc=havoc_scan,
                            kinds={'th': none, 'dh': none, 'L': none, 'tlen': none, 'tpos': none,
                                   'end': none}),
                1: LoopSpec(inv=inv1, havoc=havoc_scan, kinds={'dh': none, 'L': none}),
                2: LoopSpec(inv=inv2, havoc=havoc2, kinds={'refs': none})}

    def outcomes(self, c, E):
        w = self.w(c, E)
        sel = z3.Select

        def post(cc, E, r):
            lt = w.later
            R0 = E.old[w.reachable.id]
            R = cc.obj(w.reachable).f
            dom, val = R['dom'], R['val']
            mem0 = E.old[w.reach_ex.id]['mem']
            mem = cc.obj(w.reach_ex).f['mem']
            return [
                ('earlier-entries-untouched', All(['oid'], lambda o: z3.Implies(
                    sel(R0['dom'], o), z3.And(sel(dom, o), sel(val, o) == sel(R0['val'], o))))),
                ('earlier-extra-revisions-kept', All(['oid', 'pos'], lambda o, p: z3.Implies(
                    sel(sel(mem0, o), p), sel(sel(mem, o), p)))),
                ('kept-revisions-are-records', All(['oid'], lambda o: z3.Implies(
                    sel(dom, o), z3.And(sel(w.vrec, sel(val, o)), o >= 0, o < 2 ** 64)))),
                ('keep-back', All(['pos'], lambda p: z3.Implies(
                    z3.And(sel(lt.rec, p), p >= w.pp, p < w.eof.t), self.handled(cc, w, p)))),
                ('keep-closed', All(['oid', 'idx'], lambda o, i: z3.Implies(
                    sel(dom, o), closed(w, sel(val, o), dom)(i)))),
                ('keep-closed.extra', All(['oid', 'pos', 'idx'], lambda o, p, i: z3.Implies(
                    sel(sel(mem, o), p),
                    z3.And(sel(dom, o), sel(w.vrec, p), closed(w, p, dom)(i))))),
                # KEEP-FUTURE: an object that existed at the pack time and is referenced by a record
                # written after it is kept (garbage as of the pack time can be referenced again)
                ('keep-future', All(['pos', 'idx'], lambda p, i: z3.Implies(
                    z3.And(sel(lt.rec, p), p >= w.pp, p < w.eof.t, w.R.plen(p) != 0, i >= 0,
                           i < w.OWNL(p), sel(cc.obj(w.cur).f['dom'], sel(w.OWNA(p), i))),
                    sel(dom, sel(w.OWNA(p), i))))),
            ]
        return [Outcome('done', result=lambda cc, E: NONE, post=post),
                Outcome('dangling-reference', 'raise', KeyError_),
                Outcome('corrupt', 'raise', M.CorruptedError)]


# ======================================================================================
REDUNDANT = 'ZODB.FileStorage.FileStorage:RedundantPackWarning'


def fresh_U(c, w):
    w.U = z3.Array(fresh_name('lastuncreation'), I, I)
    c.roles.array(w.U, 'oid')


def cur_clauses(w, lt, dom, val, upto):
    """oid2curpos against the tiling: entries are the LAST record of their object below `upto`,
    and that record is not an un-creation"""
    sel = z3.Select
    R = w.R
    return [
        ('current.entries-are-records', All(['oid'], lambda o: z3.Implies(sel(dom, o), z3.And(
            sel(lt.rec, sel(val, o)), sel(val, o) >= 4, sel(val, o) < upto, R.oid(sel(val, o)) == o,
            z3.Or(R.plen(sel(val, o)) != 0, R.back(sel(val, o)) != 0))))),
        ('current.entries-are-the-last-record', All(['pos'], lambda p: z3.Implies(
            z3.And(sel(lt.rec, p), p >= 4, p < upto, sel(dom, R.oid(p))), sel(val, R.oid(p)) >= p))),
        # ghost U: oid -> its last un-creation record (witness of "a missing object was un-created")
        ('current.missing-object-was-uncreated', All(['pos'], lambda p: z3.Implies(
            z3.And(sel(lt.rec, p), p >= 4, p < upto, z3.Not(sel(dom, R.oid(p)))),
            z3.And(sel(lt.rec, sel(w.U, R.oid(p))), R.oid(sel(w.U, R.oid(p))) == R.oid(p),
                   sel(w.U, R.oid(p)) >= p, sel(w.U, R.oid(p)) < upto,
                   R.plen(sel(w.U, R.oid(p))) == 0, R.back(sel(w.U, R.oid(p))) == 0)))),
    ]


def bpi_requires(c, w):
    T = w.later.T
    T.link(c, w.eof.t)
    return gc_ri(c, w)[:2] + later_clauses(w, w.later, lo=z3.IntVal(4)) + [
        ('not-empty', w.eof.t > 4),
        ('tail-status-ascii', z3.Implies(w.n - w.eof.t >= 23, z3.And(T.status(w.eof.t) >= 0,
                                                                     T.status(w.eof.t) < 128)))]


def find_reachable_requires(c, w):
    return bpi_requires(c, w) + gc_ri(c, w)[2:]


class BuildPackIndex(GCSpec):
    """packpos := the first transaction boundary whose tid is later than the pack time (or eof);
    oid2curpos := for every object its last record below packpos unless that is an un-creation"""
    func = GC + '.buildPackIndex'
    assumptions = ASSUMPTIONS + (
        'RI-TILING (whole file)',
        'A-TAIL-ASCII: the status byte of a transaction header being written beyond the committed end is ASCII',
        'the storage is not empty (FileStorage.pack returns early otherwise): eof > 4')

    def setup(self, c, case=None):
        w = mk_gc(c, fresh_gc=True)
        w.later = Later(c, w)
        c.obj(w.self).f['packpos'] = NONE
        fresh_U(c, w)
        return {'self': w.self}

    def requires(self, c, E):
        return bpi_requires(c, self.w(c, E))

    def modifies(self, c, E):
        w = self.w(c, E)
        return {(w.file.id, 'pos'), (w.cur.id, 'dom'), (w.cur.id, 'val'), (w.cur.id, 'size'),
                (w.self.id, 'packpos'), (w.self.id, 'ltid')}

    def havoc(self, c, E, outcome=None, loop=False):
        w = self.w(c, E)
        o = c.obj(w.cur)
        o.f['dom'] = z3.Array(fresh_name('oid2curpos_dom'), I, B)
        o.f['val'] = z3.Array(fresh_name('oid2curpos_val'), I, I)
        o.f['size'] = z3.Int(fresh_name('len_oid2curpos'))
        register_map(c, w.cur)
        c.obj(w.self).f['ltid'] = c.fresh_bytes(8, 'ltid')
        c.obj(w.file).f['pos'] = z3.Int(fresh_name('fpos'))
        fresh_U(c, w)
        if not loop:
            pp = c.fresh_int('packpos')
            c.obj(w.self).f['packpos'] = pp
            c.roles.seed('bpos', pp.t)

    def common(self, cc, fr, upto):
        w = self.w(cc, cc.E)
        lt = w.later
        sel = z3.Select
        cur = cc.obj(w.cur).f
        fo = cc.obj(w.file).f
        pt = bytes_num(cc, cc.obj(w.self).f['packtime'])
        return [('file-untouched', z3.And(fo['arr'] == w.A, fo['size'] == w.n)),
                ('earlier-transactions-not-after-pack-time', All(['bpos'], lambda b: z3.Implies(
                    z3.And(sel(lt.isB, b), b >= 4, b < upto[0]), lt.T.tid(b) <= pt)))] + \
            cur_clauses(w, lt, cur['dom'], cur['val'], upto[1])

    @property
    def loops(self):
        sel = z3.Select
        none = lambda cc, fr: NONE

        def hv(cc, fr):
            self.havoc(cc, cc.E, loop=True)

        def inv0(cc, fr):
            w = self.w(cc, cc.E)
            lt = w.later
            pos = fr.locals['pos'].t
            lt.T.link(cc, pos)
            return [('at-boundary', z3.And(sel(lt.isB, pos), pos >= 4, pos <= w.eof.t))] + \
                self.common(cc, fr, (pos, pos))

        def inv1(cc, fr):
            w = self.w(cc, cc.E)
            lt = w.later
            T = lt.T
            pos, tpos, end = fr.locals['pos'].t, fr.locals['tpos'].t, fr.locals['end'].t
            th = fr.locals.get('th')
            if not (isinstance(th, VRef) and cc.obj(th).cls == M.TH):
                raise ContractStale('the loop contract expects the local(s) it names (th-is-a-header): the code has a different shape')
            T.link(cc, tpos)
            w.R.link(cc, pos)
            tlen = cc.obj(th).f['tlen'].t
            pt = bytes_num(cc, cc.obj(w.self).f['packtime'])
            return [
                ('in-transaction', z3.And(sel(lt.isB, tpos), tpos < w.eof.t, tpos >= 4,
                                          end == tpos + T.tl(tpos), tlen == T.tl(tpos),
                                          T.tid(tpos) <= pt)),
                ('at-record-or-end', z3.And(pos >= tpos + T.hdrlen(tpos), pos <= end, z3.Or(
                    pos == end, z3.And(sel(lt.rec, pos), sel(lt.txnOf, pos) == tpos)))),
            ] + self.common(cc, fr, (tpos, pos))
        def ghost1(cc, fr):
            # ghost: remember the record just scanned as the last un-creation of its object
            w = self.w(cc, cc.E)
            dh = fr.locals.get('dh')
            if not (isinstance(dh, VRef) and cc.obj(dh).cls == M.DH):
                return
            hf = cc.obj(dh).f
            plen, back = hf['plen'].t, hf['back'].t
            here = z3.simplify(fr.locals['pos'].t - 42 - z3.If(plen == 0, 8, plen))
            w.U = z3.If(z3.And(plen == 0, back == 0),
                        z3.Store(w.U, bytes_num(cc, hf['oid']), here), w.U)

        def some_header(cc, fr):
            # after at least one iteration (eof > 4) `th` is the header read last
            return inst(cc, M.TH, tid=cc.fresh_bytes(8, 'th_tid'), tlen=cc.fresh_int('th_tlen'),
                        status=VStr(codes=[z3.Int(fresh_name('th_status'))]),
                        ulen=cc.fresh_int('th_ulen'), dlen=cc.fresh_int('th_dlen'),
                        elen=cc.fresh_int('th_elen'))
        return {0: LoopSpec(inv=inv0, havoc=hv, kinds={'th': some_header, 'dh': none, 'tlen': none,
                                                       'tpos': none, 'end': none}),
                1: LoopSpec(inv=inv1, havoc=hv, kinds={'dh': none}, ghost_step=ghost1)}

    def post(self, cc, E, r=None):
        w = self.w(cc, E)
        lt = w.later
        sel = z3.Select
        cur = cc.obj(w.cur).f
        pp = w.pp
        pt = bytes_num(cc, cc.obj(w.self).f['packtime'])
        lt.T.link(cc, pp)
        return [
            ('pack-position-is-a-boundary', z3.And(sel(lt.isB, pp), pp >= 4, pp <= w.eof.t)),
            ('transactions-below-are-not-after-the-pack-time', All(['bpos'], lambda b: z3.Implies(
                z3.And(sel(lt.isB, b), b >= 4, b < pp), lt.T.tid(b) <= pt))),
            ('transaction-at-the-pack-position-is-after-the-pack-time',
             z3.Implies(pp < w.eof.t, lt.T.tid(pp) > pt)),
        ] + cur_clauses(w, lt, cur['dom'], cur['val'], pp)

    def outcomes(self, c, E):
        return [Outcome('indexed', result=lambda cc, E: NONE, post=self.post),
                Outcome('redundant', 'raise', REDUNDANT),
                Outcome('corrupt', 'raise', M.CorruptedError)]


# ======================================================================================
class FindReachable(GCSpec):
    """the whole reachability pass, from the state GC.__init__ leaves: with gc, the kept set
    contains the root at its revision current at the pack time, is closed under references
    (KEEP-CLOSED) and contains every revision a later back pointer names (KEEP-BACK); without gc,
    the kept set is exactly the set of revisions current at the pack time"""
    func = GC + '.findReachable'
    cases = ('gc', 'no-gc')
    assumptions = BuildPackIndex.assumptions

    def setup(self, c, case=None):
        w = mk_gc(c, fresh_gc=True)
        w.later = Later(c, w)
        c.obj(w.self).f['packpos'] = NONE
        c.obj(w.self).f['gc'] = VBool(case == 'gc')
        fresh_U(c, w)
        return {'self': w.self}

    def requires(self, c, E):
        return find_reachable_requires(c, self.w(c, E))

    def modifies(self, c, E):
        w = self.w(c, E)
        return {(w.file.id, 'pos'), (w.cur.id, 'dom'), (w.cur.id, 'val'), (w.cur.id, 'size'),
                (w.self.id, 'packpos'), (w.self.id, 'ltid'), (w.self.id, 'oid2curpos'),
                (w.self.id, 'reachable'), (w.reachable.id, 'dom'), (w.reachable.id, 'val'),
                (w.reach_ex.id, 'mem')}

    def havoc(self, c, E, outcome=None):
        w = self.w(c, E)
        BuildPackIndex.havoc(self, c, E)
        FindReachableFromFuture.havoc(self, c, E)
        me = c.obj(w.self).f
        g = me['gc']
        on = g.conc() if hasattr(g, 'conc') else None
        if on is None:
            raise Unsupported('findReachable with a symbolic gc flag at a call site')
        if outcome is not None and outcome.label == 'done':
            if on:
                me['reachable'] = w.reachable
                me.pop('oid2curpos', None)
            else:
                me['reachable'] = w.cur

    def outcomes(self, c, E):
        w = self.w(c, E)
        sel = z3.Select
        gc_on = c.obj(w.self).f['gc']
        gc_on = gc_on.t if isinstance(gc_on, VBool) and not isinstance(gc_on.t, bool) else \
            z3.BoolVal(bool(getattr(gc_on, 't', gc_on)))

        def post(cc, E, r):
            lt = w.later
            me = cc.obj(w.self).f
            cur = cc.obj(w.cur).f
            out = BuildPackIndex.post(self, cc, E)
            if z3.is_false(z3.simplify(gc_on)):
                return out + [('kept-set-is-the-map-of-current-revisions',
                               isinstance(me.get('reachable'), VRef) and
                               me['reachable'].id == w.cur.id)]
            R = cc.obj(w.reachable).f
            dom, val = R['dom'], R['val']
            mem = cc.obj(w.reach_ex).f['mem']
            h = FindReachableFromFuture.handled
            return out + [
                ('kept-set-is-the-reachable-map', isinstance(me.get('reachable'), VRef) and
                 me['reachable'].id == w.reachable.id),
                ('root-kept-at-its-current-revision', z3.Implies(
                    sel(cur['dom'], 0), z3.And(sel(dom, 0), sel(val, 0) == sel(cur['val'], 0)))),
                ('kept-revisions-are-records', All(['oid'], lambda o: z3.Implies(
                    sel(dom, o), sel(w.vrec, sel(val, o))))),
                ('keep-back', All(['pos'], lambda p: z3.Implies(
                    z3.And(sel(lt.rec, p), p >= w.pp, p < w.eof.t), h(self, cc, w, p)))),
                ('keep-closed', All(['oid', 'idx'], lambda o, i: z3.Implies(
                    sel(dom, o), closed(w, sel(val, o), dom)(i)))),
                ('keep-closed.extra', All(['oid', 'pos', 'idx'], lambda o, p, i: z3.Implies(
                    sel(sel(mem, o), p),
                    z3.And(sel(dom, o), sel(w.vrec, p), closed(w, p, dom)(i))))),
                ('keep-future', All(['pos', 'idx'], lambda p, i: z3.Implies(
                    z3.And(sel(lt.rec, p), p >= w.pp, p < w.eof.t, w.R.plen(p) != 0, i >= 0,
                           i < w.OWNL(p), sel(cur['dom'], sel(w.OWNA(p), i))),
                    sel(dom, sel(w.OWNA(p), i))))),
            ]
        return [Outcome('done', result=lambda cc, E: NONE, post=post),
                Outcome('redundant', 'raise', REDUNDANT),
                Outcome('dangling-reference', 'raise', KeyError_),
                Outcome('corrupt', 'raise', M.CorruptedError)]


SPECS = [OidRepr, Fail, FindRefs, IsReachable, FindReachableAtPacktime, FindReachableFromFuture,
         BuildPackIndex, FindReachable]
INLINE = ['ZODB.FileStorage.format:FileStorageFormatter.checkTxn',
          'ZODB.FileStorage.format:FileStorageFormatter.checkData',
          'ZODB.FileStorage.format:FileStorageFormatter._read_num']
