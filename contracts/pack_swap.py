"""C08 (and the tail of C07): FileStorage.pack - the swap of the packed file into place - and
FileStorage.packer, over

  * ghost lock hold counts (commit lock, storage lock, reader pool's writer lock),
  * a ghost DIRECTORY  name -> {ABSENT, UNPACKED, PACKED, STALE}  for Data.fs / .pack / .old,
    updated by every os.rename / os.remove / open the code performs, and
  * the recorded event trace (ordering obligations).

Crash obligation (crash-Hoare, per directory operation): after EVERY rename/remove of the swap the
directory must reopen to the unpacked or to the packed database: Data.fs is UNPACKED or PACKED.
"""
import z3

from pyvc import contract, prims, timestamp
from pyvc.contract import LoopSpec, Outcome, Spec
from pyvc.engine import RaiseSig, Unsupported, as_z3_bool, bytes_num
from pyvc.ground import All
from pyvc.values import (B, I, NONE, Obj, VBool, VBytes, VExc, VFunc, VInt, VNone, VOpaque, VRef,
                         VStr, VTuple, fresh_name)

from . import blobmodel
from . import fsmodel as M
from .common import OSError_, ReadOnlyError, inst
from .fs_load import ghost_of

FSQ = 'ZODB.FileStorage.FileStorage'
REDUNDANT = FSQ + ':RedundantPackWarning'
DATA, PACK, OLD = '<Data.fs>', '<Data.fs>.pack', '<Data.fs>.old'

ASSUMPTIONS = (
    'A-DIRECTORY: os.rename(a, b) atomically makes b name what a named and removes a; os.remove(a) removes a; '
    'either may fail with OSError leaving the directory unchanged; os.path.exists reads the ghost directory',
    'blob.remove_committed_dir touches only the directory it is given; may fail with OSError (assumed)',
    'A-PACKER-RESULT: the .pack file the packer returns with holds the packed database up to the end of the data '
    'file as of the moment the packer last took the commit lock (contract of FileStoragePacker.pack, pack_copy)',
    M.POOL_ASSUMPTION,
)


def directory(c):
    return c.ghost['dir']


def is_open(c, f):
    """the file object is open (python-side or symbolic flag)"""
    if not isinstance(f, VRef):
        return False
    cl = c.obj(f).f.get('closed')
    if isinstance(cl, bool):
        return not cl
    return z3.Not(cl)


def install_dir_hooks(c, hk, fault=True):
    """os.* on the three names of the swap, against the ghost directory; records ('dirop', ...)"""
    def name_of(v, node):
        if isinstance(v, VStr) and v.s in (DATA, PACK, OLD):
            return v.s
        raise Unsupported('directory operation on %r' % (v,), node)

    def exists(cc, interp, args, kwargs, node):
        if isinstance(args[0], VStr) and args[0].s is not None and args[0].s.startswith('<blobs>'):
            return VBool(z3.Bool(fresh_name('blob_dir_old_exists')))
        n = name_of(args[0], node)
        d = directory(cc)
        if d[n] is None:
            # unknown at entry: both cases
            d[n] = ['ABSENT', 'STALE'][cc.choose([True, True], 'exists:' + n)]
        return VBool(d[n] != 'ABSENT')

    def fail_maybe(cc, what):
        if fault and cc.choose([True, True], 'os-fault:' + what) == 1:
            cc.event('dirop-failed', what)
            raise RaiseSig(VExc(OSError_))

    def remove(cc, interp, args, kwargs, node):
        n = name_of(args[0], node)
        d = directory(cc)
        fail_maybe(cc, 'remove ' + n)
        if d[n] in (None, 'ABSENT'):
            raise RaiseSig(VExc('builtins:FileNotFoundError'))
        d[n] = 'ABSENT'
        cc.event('dirop', 'remove', n, dict(d))
        return NONE

    def rename(cc, interp, args, kwargs, node):
        a, b = name_of(args[0], node), name_of(args[1], node)
        d = directory(cc)
        fail_maybe(cc, 'rename %s %s' % (a, b))
        if d[a] in (None, 'ABSENT'):
            raise RaiseSig(VExc('builtins:FileNotFoundError'))
        d[b], d[a] = d[a], 'ABSENT'
        cc.event('dirop', 'rename', (a, b), dict(d))
        return NONE

    def open_(cc, args, kwargs, node):
        n = name_of(args[0], node)
        mode = args[1].s if len(args) > 1 and isinstance(args[1], VStr) else 'r'
        d = directory(cc)
        f = prims.new_file(cc, 'reopened', pos=z3.IntVal(0), mode=mode)
        cc.obj(f).meta['names'] = d[n]
        cc.event('open', f, n, mode, d[n])
        return f
    hk['prim:os.path.exists'] = exists
    hk['prim:os.remove'] = remove
    hk['prim:os.rename'] = rename
    hk['open'] = open_


class PackerResult(Spec):
    """FileStorage.packer as FileStorage.pack sees it (A-PACKER-RESULT); verified below against
    the contract of FileStoragePacker.pack"""
    func = FSQ + ':FileStorage.packer'
    props = ('C08',)
    verify = False
    assumptions = ASSUMPTIONS

    def modifies(self, c, E):
        h = ghost_of(c, E['storage'])
        return {(h.commit_lock.id, 'held'), (h.file.id, 'size')}

    def outcomes(self, c, E):
        h = ghost_of(c, E['storage'])
        held0 = c.obj(h.commit_lock).f['held']

        def mk_packed(cc, E):
            directory(cc)[PACK] = 'PACKED'
            idx = prims.new_map(cc, 'bytes8', 'int', 'packed_index', sorted_=True,
                                cls='ZODB.fsIndex:fsIndex')
            cc.obj(idx).f['size'] = z3.Int(fresh_name('len_packed_index'))
            cc.assume(cc.obj(idx).f['size'] >= 0)
            cc.ghost['packed'] = (cc.fresh_int('opos'), idx)
            cc.event('packer-returned-holding-the-commit-lock')
            return VTuple([cc.ghost['packed'][0], idx])

        def post_packed(cc, E, r):
            return [('commit-lock-taken', cc.obj(h.commit_lock).f['held'] == held0 + 1)]

        def post_unlocked(cc, E, r):
            return [('commit-lock-as-before', cc.obj(h.commit_lock).f['held'] == held0)]
        return [Outcome('packed', result=mk_packed, post=post_packed),
                Outcome('nothing-to-do', result=lambda cc, E: NONE, post=post_unlocked),
                Outcome('redundant', 'raise', REDUNDANT, post=post_unlocked),
                Outcome('failed', 'raise', 'builtins:Exception', post=post_unlocked)]


class RemoveBlobFiles(Spec):
    func = FSQ + ':FileStorage._remove_blob_files_tagged_for_removal_during_pack'
    props = ()
    verify = False
    assumptions = ('FileStorage._remove_blob_files_tagged_for_removal_during_pack touches only the blob '
                   'directory (assumed; blob files after pack are covered by the bounded harness of C13)',)

    def outcomes(self, c, E):
        return [Outcome('ok'), Outcome('io-error', 'raise', OSError_)]


def remove_committed_dir(c, interp, args, kwargs, node):
    """blob.remove_committed_dir(path): touches only the directory it is given (assumed); may fail"""
    c.event('remove-blob-dir', args[0].s if isinstance(args[0], VStr) else args[0])
    if c.choose([True, True], 'remove_committed_dir-fault') == 1:
        raise RaiseSig(VExc(OSError_))
    return NONE


class SaveIndexCall(Spec):
    """_save_index as pack sees it (its own contract is proved in C09)"""
    func = FSQ + ':FileStorage._save_index'
    props = ()
    verify = False
    callable_contract = True

    def modifies(self, c, E):
        return {(E['self'].id, '_saved')}

    def outcomes(self, c, E):
        def ok(cc, E):
            cc.event('save-index')
            return NONE
        return [Outcome('ok', result=ok), Outcome('io-error', 'raise', OSError_)]


class FSPack(Spec):
    func = FSQ + ':FileStorage.pack'
    props = ('C08',)      # (its crash obligations are C08's; C07 relies on the same contract)
    cases = ('read-only', 'empty', 'already-packing', 'run', 'run-keep-old', 'run-blobs')
    assumptions = ASSUMPTIONS + tuple(timestamp.ASSUMPTIONS)
    max_paths = 20000

    def setup(self, c, case=None):
        h = M.mk_fs(c, in_txn=False, read_only=(case == 'read-only'))
        c.ghost[('fs', h.self.id)] = h
        timestamp.install(c.hooks)
        S = c.obj(h.self).f
        c.assume(c.obj(h.lock).f['held'] == 0)
        c.assume(c.obj(h.commit_lock).f['held'] == 0)   # the packing thread is not committing
        S['_pack_is_in_progress'] = VBool(case == 'already-packing')
        S['_pack_gc'] = c.fresh_bool('_pack_gc')
        S['pack_keep_old'] = VBool(case == 'run-keep-old')
        S['blob_dir'] = VStr('<blobs>') if case == 'run-blobs' else NONE
        if case == 'empty':
            c.obj(h.index).f['dom'] = z3.K(I, z3.BoolVal(False))
        elif case != 'read-only':
            w = c.fresh_bytes(8, 'some_oid')
            c.assume(z3.Select(c.obj(h.index).f['dom'], bytes_num(c, w)))
        c.ghost['dir'] = {DATA: 'UNPACKED', PACK: None, OLD: None}
        c.ghost['case'] = case
        return {'self': h.self, 't': VOpaque(z3.Const(fresh_name('t'), Obj), 'float'),
                'referencesf': c.fresh_opaque('referencesf'), 'gc': NONE}

    def requires(self, c, E):
        h = ghost_of(c, E['self'])
        return [('the-packing-thread-holds-neither-lock', z3.And(c.obj(h.lock).f['held'] == 0,
                                                                 c.obj(h.commit_lock).f['held'] == 0))]

    def hooks(self, c):
        hk = {}
        timestamp.install(hk)
        install_dir_hooks(c, hk)

        def on_set(cc, recv, name, v, node):
            cc.event('setattr', recv.id, name, v)
        hk['setattr'] = on_set

        hk['prim:ZODB.blob.remove_committed_dir'] = remove_committed_dir
        return hk

    def modifies(self, c, E):
        h = ghost_of(c, E['self'])
        s = h.self.id
        return {(s, '_pack_is_in_progress'), (s, '_file'), (s, '_index'), (s, '_index_get'),
                (s, '_tindex'), (s, '_pos'), (s, '_saved'), (h.file.id, '*'), (h.pool.id, '*'),
                (h.lock.id, 'held'), (h.commit_lock.id, 'held')}

    def outcomes(self, c, E):
        h = ghost_of(c, E['self'])
        case = c.ghost['case']
        S0 = dict(c.obj(h.self).f)

        def untouched(cc, E, r):
            S = cc.obj(h.self).f
            return [('nothing-touched', not [e for e in cc.events if e[0] in ('dirop', 'open', 'setattr')]),
                    ('flag-as-before', contract.same_value(cc, S0['_pack_is_in_progress'],
                                                           S['_pack_is_in_progress']))]

        def done(cc, E, r):
            """normal return: either nothing was swapped, or the packed file is in place"""
            S = cc.obj(h.self).f
            d = directory(cc)
            swapped = any(e[0] == 'dirop' and e[1] == 'rename' and e[2] == (PACK, DATA)
                          for e in cc.events)
            out = [('data-file-is-the-unpacked-or-the-packed-database', d[DATA] in ('UNPACKED', 'PACKED'))]
            if swapped:
                opos, idx = cc.ghost['packed']
                f = S['_file']
                out += [
                    ('packed-file-in-place', d[DATA] == 'PACKED'),
                    ('file-handle-reopened-on-the-packed-file', isinstance(f, VRef) and
                     cc.obj(f).meta.get('names') == 'PACKED' and is_open(cc, f)),
                    ('index-of-the-packed-file-installed', isinstance(S['_index'], VRef) and
                     S['_index'].id == idx.id),
                    ('end-position-of-the-packed-file-installed',
                     isinstance(S['_pos'], VInt) and S['_pos'].t.eq(opos.t)),
                    ('old-file-kept-iff-asked', (d[OLD] == 'UNPACKED') == (case == 'run-keep-old')),
                ]
            else:
                out.append(('unpacked-file-still-in-place', d[DATA] == 'UNPACKED'))
            return out
        if case == 'read-only':
            return [Outcome('read-only', 'raise', ReadOnlyError, post=untouched)]
        if case == 'empty':
            return [Outcome('empty', post=untouched),
                    Outcome('invalid-pack-time', 'raise', M.FileStorageError, post=untouched)]
        if case == 'already-packing':
            return [Outcome('refused', 'raise', M.FileStorageError, post=untouched)]
        def failed(cc, E, r):
            """a pack that cannot complete leaves the database usable and unchanged (or packed)"""
            S = cc.obj(h.self).f
            d = directory(cc)
            f = S['_file']
            return [('data-file-is-the-unpacked-or-the-packed-database', d[DATA] in ('UNPACKED', 'PACKED')),
                    ('file-handle-open', is_open(cc, f))]
        return [Outcome('done', post=done),
                Outcome('failed', 'raise', 'builtins:Exception', post=failed)]

    def at_exit(self, c, E, kind, val):
        h = ghost_of(c, E['self'])
        S = c.obj(h.self).f
        case = c.ghost['case']
        ev = c.events
        out = [
            ('storage-lock-balanced', c.obj(h.lock).f['held'] == 0),
            ('commit-lock-released', c.obj(h.commit_lock).f['held'] == 0),
        ]
        if case != 'already-packing':
            flag = S['_pack_is_in_progress']
            out.append(('pack-in-progress-flag-cleared-on-every-exit',
                        isinstance(flag, VBool) and z3.is_false(z3.simplify(as_z3_bool(flag.t)))))
        # ---- ordering over the event trace
        idx = lambda pred: [k for k, e in enumerate(ev) if pred(e)]
        wl = idx(lambda e: e[0] == 'pool-write-lock')
        wu = idx(lambda e: e[0] == 'pool-write-unlock')
        empties = idx(lambda e: e[0] == 'pool-empty')
        swaps = idx(lambda e: e[0] == 'dirop' and e[1] == 'rename')
        publishes = idx(lambda e: e[0] == 'setattr' and e[1] == h.self.id and
                        e[2] in ('_file', '_index', '_pos', '_index_get'))
        got_packed = idx(lambda e: e[0] == 'packer-returned-holding-the-commit-lock')
        acq = idx(lambda e: e[0] == 'acquire' and e[1].id == h.lock.id)
        rel = idx(lambda e: e[0] == 'release' and e[1].id == h.lock.id)
        crel = idx(lambda e: e[0] == 'release' and e[1].id == h.commit_lock.id)

        def inside(k, opens, closes):
            o = [x for x in opens if x < k]
            return bool(o) and not [x for x in closes if o[-1] < x < k]
        section = swaps + publishes
        out += [
            ('swap.readers-closed-inside-the-pool-writer-lock-and-the-storage-lock',
             (not swaps) or (bool(empties) and all(inside(k, wl, wu) and inside(k, acq, rel)
                                                   for k in empties) and empties[0] < swaps[0])),
            ('swap.renames-and-publication-inside-the-pool-writer-lock-and-the-storage-lock',
             all(inside(k, wl, wu) and inside(k, acq, rel) for k in section)),
            ('swap.commit-lock-held-until-the-new-file-is-published',
             all(not [x for x in crel if x < k] for k in section) and
             ((not swaps) or bool(got_packed))),
        ]
        # ---- crash obligations: after every directory operation Data.fs is a complete database
        for k, e in enumerate(ev):
            if e[0] == 'dirop':
                d = e[3]
                what = e[1] + ' ' + (e[2] if isinstance(e[2], str) else '->'.join(e[2]))
                out.append(('crash.after[%s].data-file-is-the-unpacked-or-the-packed-database' % what,
                            d[DATA] in ('UNPACKED', 'PACKED')))
        return out


class FSPackOidCounter(FSPack):
    """C20 side of FileStorage.pack: the swap installs the packer's index and end position but must
    not touch the oid counter (_oid stays >= every id ever issued; the packed index may have LOST the
    largest ids to garbage collection, so re-deriving the counter from it would re-issue ids).
    Only the frame obligations of this exploration count (posts and crash obligations are C08's)."""
    props = ('C20',)
    callable_contract = False
    label = 'oid-counter'
    cases = ('run', 'run-blobs')

    def outcomes(self, c, E):
        return [Outcome('any-return'), Outcome('any-raise', 'raise', 'builtins:Exception')]

    def at_exit(self, c, E, kind, val):
        h = ghost_of(c, E['self'])
        return [('oid-counter-untouched', contract.same_value(c, h.oid, c.obj(h.self).f['_oid']))]


SPECS = [PackerResult, RemoveBlobFiles, SaveIndexCall, FSPack]
VARIANTS = [FSPackOidCounter]
INLINE = [FSQ + ':FileStorage._initIndex']
