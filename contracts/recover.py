"""C17 - fsrecover.scan / read_txn_header and FileStorage._data_find (used by restore())."""
import z3

from pyvc import contract, prims
from pyvc.contract import LoopSpec, Outcome, Spec
from pyvc.engine import RaiseSig, Unsupported, bytes_num
from pyvc.ground import All, Ex, FAnd, FNot, FOr
from pyvc.values import (B, I, NONE, Obj, VBool, VBytes, VExc, VFunc, VInt, VNone, VOpaque,
                         VRef, VStr, VTuple, fresh_name)

from . import fsmodel as M
from .common import inst
from .fs_format import b8_eq_num, field_eq
from .fsmodel import be, rec, txn

ErrorFound = 'ZODB.fsrecover:ErrorFound'
EOFError_ = 'builtins:EOFError'


class Scan(Spec):
    """scan(f, pos): TERMINATES on every input (strictly decreasing variant on both loops) and returns
    0 or a position behind pos"""
    func = 'ZODB.fsrecover:scan'
    props = ('C17',)

    def setup(self, c, case=None):
        f = prims.new_file(c, 'f', mode='rb')
        pos = c.fresh_int('pos', 0)
        c.assume(c.obj(f).f['size'] < M.MAXPOS)
        c.ghost['scan'] = {'f': f}
        return {'f': f, 'pos': pos}

    def modifies(self, c, E):
        return {(E['f'].id, 'pos')}

    def outcomes(self, c, E):
        p0 = E['pos'].t
        return [Outcome('ok', post=lambda c, E, r: [
            ('returns-0-or-a-position-behind-pos', isinstance(r, VInt) and z3.Or(r.t == 0, r.t > p0))])]

    @property
    def loops(self):
        def hv(c, fr):
            c.obj(c.ghost['scan']['f']).f['pos'] = z3.Int(fresh_name('fpos'))
        size = lambda c: c.obj(c.ghost['scan']['f']).f['size']
        outer = LoopSpec(
            inv=lambda c, fr: [('position-never-moves-back', fr.locals['pos'].t >= c.E['pos'].t)],
            decreases=lambda c, fr: size(c) - fr.locals['pos'].t, havoc=hv,
            kinds={'data': lambda c, fr: NONE, 's': lambda c, fr: NONE, 'l_': lambda c, fr: NONE,
                   'tl': lambda c, fr: NONE})

        def inner_inv(c, fr):
            d = fr.locals['data']
            return [('cursor-within-block', z3.And(fr.locals['s'].t >= 0,
                                                   fr.locals['s'].t <= d.length()))]
        # `pos` is only assigned on paths that leave the inner loop (break / return)
        inner = LoopSpec(inv=inner_inv,
                         decreases=lambda c, fr: fr.locals['data'].length() - fr.locals['s'].t,
                         kinds={'l_': lambda c, fr: NONE, 'tl': lambda c, fr: NONE},
                         frozen=('pos',))
        return {0: outer, 1: inner}


class ReadTxnHeader(Spec):
    """accepts exactly the header conditions of the format; 'c' -> tail saved + EOF"""
    func = 'ZODB.fsrecover:read_txn_header'
    props = ('C17',)
    cases = ('ltid', 'no-ltid')

    def setup(self, c, case=None):
        f = prims.new_file(c, 'f', mode='r+b')
        fo = c.obj(f).f
        pos = c.fresh_int('pos', 4)
        c.assume(z3.And(fo['size'] < M.MAXPOS))
        c.hooks['path_exists'] = lambda cc, p, node: VBool(z3.Bool(fresh_name('exists')))
        return {'f': f, 'pos': pos, 'file_size': VInt(fo['size']), 'outp': VStr('<out>'),
                'ltid': c.fresh_bytes(8, 'ltid') if case == 'ltid' else NONE}

    def modifies(self, c, E):
        return {(E['f'].id, 'pos')}

    def outcomes(self, c, E):
        fo = c.obj(E['f']).f
        A, n = fo['arr'], fo['size']
        pos = E['pos'].t
        t = txn(A, pos)
        M.byte_range_facts(c, A, pos, 23)
        hdr = 23 + t['ul'] + t['dl'] + t['el']
        lt = E['ltid']
        ltok = z3.BoolVal(True) if isinstance(lt, VNone) else \
            z3.Or(bytes_num(c, lt) == 0, t['tid'] >= bytes_num(c, lt))
        full = n - pos >= 23
        ascii_ok = t['status'] < 128
        fits = pos + t['tl'] + 8 <= n
        sane = t['tl'] >= hdr
        st = t['status']
        good_status = z3.Or(st == ord(' '), st == ord('u'), st == ord('p'))
        trailer = be(A, pos + t['tl'], 8) == t['tl']
        structurally_ok = z3.And(full, ascii_ok, fits, sane, ltok)
        accept = z3.And(structurally_ok, good_status, trailer)

        def post(c, E, r):
            if not isinstance(r, VTuple) or len(r.items) != 3:
                return [('triple', False)]
            return [('next-position-is-the-following-boundary',
                     field_eq(c, r.items[0], pos + t['tl'] + 8)),
                    ('tid-of-this-transaction', b8_eq_num(c, r.items[2], t['tid'])),
                    ('undone-transactions-are-skipped', z3.Implies(
                        st == ord('u'), z3.BoolVal(isinstance(r.items[1], VNone))))]
        return [
            Outcome('accepted', guard=accept, post=post),
            Outcome('short-header', 'raise', EOFError_, guard=z3.Not(full)),
            Outcome('checkpoint-tail', 'raise', EOFError_,
                    guard=z3.And(structurally_ok, st == ord('c'))),
            Outcome('rejected', 'raise', ErrorFound,
                    guard=z3.And(full, ascii_ok, z3.Or(z3.Not(fits), z3.Not(sane), z3.Not(ltok),
                                                       z3.And(st != ord('c'),
                                                              z3.Or(z3.Not(good_status),
                                                                    z3.Not(trailer)))))),
            Outcome('undecodable-status', 'raise', 'builtins:UnicodeDecodeError',
                    guard=z3.And(full, z3.Not(ascii_ok))),
        ]


class RecoverTruncate(Spec):
    """fsrecover.truncate as seen by read_txn_header: saves the tail to <outp>.trN and leaves f
    positioned at pos (ASSUMED here; its two loops are plain file copies)"""
    func = 'ZODB.fsrecover:truncate'
    props = ()
    verify = False
    assumptions = ('fsrecover.truncate: copies f[pos:file_size] to a new <outp>.trN file and seeks f back to pos '
                   '(assumed contract, not verified)',)

    def modifies(self, c, E):
        return {(E['f'].id, 'pos')}

    def outcomes(self, c, E):
        return [Outcome('ok', post=lambda c, E, r: [('positioned', c.obj(E['f']).f['pos'] == E['pos'].t)])]


def register(reg):
    def txnrec(c, args, kwargs, node):
        return c.new_obj('inst', 'ZODB.fsrecover:<TransactionRecord>',
                         {'tid': args[0], 'status': args[1], 'pos': args[5], 'tend': args[6]},
                         {'name': 'TransactionRecord'})
    reg.overrides[('ZODB.fsrecover', 'TransactionRecord')] = VFunc('spec', 'TransactionRecord',
                                                                  None, txnrec)


SPECS = [Scan, ReadTxnHeader, RecoverTruncate]
INLINE = ['ZODB.utils:u64', 'ZODB.utils:p64', 'ZODB.utils:as_text', 'ZODB.fsrecover:error']


class DataFind(Spec):
    """FileStorage._data_find(tpos, oid, data): the LAST record of oid in the transaction at tpos
    (or 0); used by restore() to re-derive back-pointers"""
    func = 'ZODB.FileStorage.FileStorage:FileStorage._data_find'
    props = ('C17',)

    def setup(self, c, case=None):
        h = M.mk_fs(c, in_txn=True, with_ghost=False)
        fo = c.obj(h.file).f
        A = fo['arr']
        R = M.RecFuns(c, A)
        T = M.TxnFuns(c, A)
        tpos = c.fresh_int('tpos', 4)
        T.link(c, tpos.t)
        recs = z3.Array(fresh_name('recs'), I, B)
        c.roles.array(recs, 'rpos')
        for fn in (R.oid, R.tid, R.prev, R.tloc, R.vlen, R.plen, R.back):
            c.roles.func(fn, ['rpos'])
        c.ghost['df'] = {'h': h, 'R': R, 'T': T, 'recs': recs, 'tpos': tpos.t, 'A': A}
        return {'self': h.self, 'tpos': tpos, 'oid': c.fresh_bytes(8, 'oid'),
                'data': c.fresh_barr('data')}

    def requires(self, c, E):
        g = c.ghost['df']
        R, T, recs, tpos = g['R'], g['T'], g['recs'], g['tpos']
        fo = c.obj(g['h'].file).f
        n = fo['size']
        first = tpos + T.hdrlen(tpos)
        tend = tpos + T.tl(tpos)
        rlen = lambda p: 42 + z3.If(R.plen(p) == 0, 8, R.plen(p))
        sel = z3.Select
        return [
            ('transaction-well-formed', z3.And(n - tpos >= 23, T.status(tpos) < 128, T.status(tpos) >= 0,
                                               T.ul(tpos) >= 0, T.dl(tpos) >= 0, T.el(tpos) >= 0,
                                               first <= tend, tend + 8 <= n, tend < M.MAXPOS,
                                               z3.Or(first == tend, sel(recs, first)))),
            ('records-tile-the-transaction', All(['rpos'], lambda p: z3.Implies(
                sel(recs, p), z3.And(p >= first, p + rlen(p) <= tend, R.vlen(p) == 0,
                                     R.plen(p) >= 0,
                                     z3.Or(p + rlen(p) == tend, sel(recs, p + rlen(p))))))),
            ('records-do-not-overlap', All(['rpos', 'rpos'], lambda p1, p2: z3.Implies(
                z3.And(sel(recs, p1), sel(recs, p2), p1 < p2), p1 + rlen(p1) <= p2))),
        ]

    def modifies(self, c, E):
        g = c.ghost['df']
        return {(g['h'].file.id, 'pos')}

    def outcomes(self, c, E):
        g = c.ghost['df']
        R, recs = g['R'], g['recs']
        o = bytes_num(c, E['oid'])
        sel = z3.Select

        def post(c, E, r):
            if not isinstance(r, VInt):
                return [('int', False)]
            dp = r.t
            c.roles.seed('rpos', dp)
            return [('zero-or-a-record-of-that-oid', z3.Or(dp == 0, z3.And(sel(recs, dp),
                                                                          R.oid(dp) == o))),
                    ('it-is-the-LAST-record-of-that-oid-in-the-transaction', FOr(
                        dp == 0, All(['rpos'], lambda p: z3.Implies(
                            z3.And(sel(recs, p), p > dp), R.oid(p) != o))))]
        return [Outcome('ok', post=post)]

    def _inv(self, c, fr):
        g = c.ghost['df']
        R, T, recs, tpos = g['R'], g['T'], g['recs'], g['tpos']
        o = bytes_num(c, c.E['oid'])
        sel = z3.Select
        pos = fr.locals['pos'].t
        tend = fr.locals['tend'].t
        dp = fr.locals['data_pos'].t
        dh = fr.locals['data_hdr']
        c.roles.seed('rpos', pos)
        c.roles.seed('rpos', dp)
        out = [('tend', tend == tpos + T.tl(tpos)),
               ('at-a-record-boundary', z3.Or(pos == tend, z3.And(sel(recs, pos), pos < tend))),
               ('candidate-is-a-record-of-the-oid', z3.Or(dp == 0, z3.And(
                   sel(recs, dp), R.oid(dp) == o, dp < pos))),
               ('no-later-record-of-the-oid-so-far', All(['rpos'], lambda p: z3.Implies(
                   z3.And(sel(recs, p), p > dp, p < pos), R.oid(p) != o)))]
        if isinstance(dh, VNone):
            out.append(('no-candidate-yet', dp == 0))
        elif isinstance(dh, VRef):
            out.append(('candidate-header', z3.And(dp != 0, c.obj(dh).f['plen'].t == R.plen(dp))))
        return out

    @property
    def loops(self):
        def dh_kind(c, fr):
            i = c.choose([True, True], 'data_hdr-kind')
            if i == 0:
                return NONE
            return inst(c, M.DH, oid=c.fresh_bytes(8, 'hoid'), tid=c.fresh_bytes(8, 'htid'),
                        prev=c.fresh_int('hprev'), tloc=c.fresh_int('htloc'),
                        plen=c.fresh_int('hplen'), back=c.fresh_int('hback'))

        def hv(c, fr):
            c.obj(c.ghost['df']['h'].file).f['pos'] = z3.Int(fresh_name('fpos'))
        return {0: LoopSpec(inv=self._inv, havoc=hv,
                            decreases=lambda c, fr: fr.locals['tend'].t - fr.locals['pos'].t,
                            kinds={'h': lambda c, fr: NONE, 'data_hdr': dh_kind})}


SPECS.append(DataFind)
