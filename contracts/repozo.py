"""C18 - ZODB.scripts.repozo: dofile (the chunked reader every other function is built on),
copyfile (temp file, fsync, rename), do_full_backup / do_incremental_backup (what is copied, under
which names, what the .dat line records)."""
import z3

from pyvc import contract, prims
from pyvc.contract import LoopSpec, Outcome, Spec
from pyvc.engine import RaiseSig, Unsupported, bytes_num
from pyvc.ground import All, Ex, FAnd, FNot, FOr
from pyvc.values import (B, I, NONE, Obj, V, VBool, VBytes, VExc, VFunc, VInt, VNone, VOpaque,
                         VRef, VStr, VTuple, fresh_name)

from . import fsmodel as M
from .common import inst

MOD = 'ZODB.scripts.repozo'
ASSUMPTIONS = [
    'A-MD5: hashlib.md5 is a streaming hash: update(a); update(b) == update(a+b); collision free',
    'A-GZIP: gzip.open(...,"wb") then "rb" round-trips bytes',
    'A-FILENAMES: gen_filename is injective in (time tuple, extension) and sorts chronologically',
]


class VName(V):
    """symbolic file name: kind + parts (python-side structure, compared structurally)"""

    def __init__(self, parts):
        self.parts = tuple(parts)

    def __eq__(self, other):
        return isinstance(other, VName) and self.parts == other.parts

    def __hash__(self):
        return hash(self.parts)

    def __repr__(self):
        return 'VName%r' % (self.parts,)


class DoFile(Spec):
    """dofile(func, fp, n): the chunks handed to func, concatenated, are exactly the next
    min(n, available) bytes of fp (all remaining bytes for n=None); returns that count; TERMINATES"""
    func = MOD + ':dofile'
    props = ('C18',)
    cases = ('n', 'none')
    assumptions = tuple(ASSUMPTIONS)

    def setup(self, c, case=None):
        fp = prims.new_file(c, 'fp', mode='rb')
        fo = c.obj(fp).f
        c.assume(z3.And(fo['size'] < M.MAXPOS, fo['pos'] <= M.MAXPOS))
        fed = c.new_obj('fed', None, {'arr': z3.Array(fresh_name('fed'), I, I),
                                      'len': z3.IntVal(0)}, {'name': 'fed'})
        c.roles.array(c.obj(fed).f['arr'], 'byte')

        def func(cc, args, kwargs, node):
            d = args[0]
            if not isinstance(d, VBytes) or len(d.segs) != 1 or d.segs[0][0] != 'a':
                raise Unsupported('chunk shape', node)
            _, arr, off, ln = d.segs[0]
            fo_ = cc.obj(fed).f
            k = z3.Int(fresh_name('k'))
            base = fo_['len']
            fo_['arr'] = z3.Lambda([k], z3.If(z3.And(k >= base, k < base + ln),
                                              z3.Select(arr, off + (k - base)),
                                              z3.Select(fo_['arr'], k)))
            fo_['len'] = z3.simplify(base + ln)
            cc.event('fed', ln)
            return NONE
        c.ghost['dofile'] = {'fp': fp, 'fed': fed, 'p0': fo['pos'], 'A': fo['arr']}
        return {'func': VFunc('spec', 'func', None, func), 'fp': fp,
                'n': c.fresh_int('n', 0) if case == 'n' else NONE}

    def modifies(self, c, E):
        g = c.ghost['dofile']
        return {(g['fp'].id, 'pos'), (g['fed'].id, 'arr'), (g['fed'].id, 'len')}

    def total(self, c, E):
        g = c.ghost['dofile']
        fo = E.old[g['fp'].id] if E.old else c.obj(g['fp']).f
        avail = z3.If(fo['size'] - fo['pos'] > 0, fo['size'] - fo['pos'], 0)
        if isinstance(E['n'], VNone):
            return avail
        return z3.If(E['n'].t < avail, E['n'].t, avail)

    def outcomes(self, c, E):
        g = c.ghost['dofile']
        tot = self.total(c, E)

        def post(c, E, r):
            fed = c.obj(g['fed']).f
            fo = c.obj(g['fp']).f
            return [('returns-the-number-of-bytes-fed', isinstance(r, VInt) and r.t == tot),
                    ('fed-length', fed['len'] == tot),
                    ('fed-bytes-are-the-next-bytes-of-the-file-in-order', All(
                        ['byte'], lambda k: z3.Implies(z3.And(k >= 0, k < tot), z3.Select(
                            fed['arr'], k) == z3.Select(g['A'], g['p0'] + k)))),
                    ('file-position-just-after-the-last-byte-read', fo['pos'] == g['p0'] + tot)]
        return [Outcome('ok', post=post)]

    def _inv(self, c, fr):
        g = c.ghost['dofile']
        E = c.E
        fed = c.obj(g['fed']).f
        fo = c.obj(g['fp']).f
        br = fr.locals['bytesread'].t
        tot = self.total(c, E)
        out = [('progress', z3.And(br >= 0, br <= tot)),
               ('fed-length', fed['len'] == br),
               ('file-position', fo['pos'] == g['p0'] + br),
               ('fed-so-far', All(['byte'], lambda k: z3.Implies(z3.And(k >= 0, k < br), z3.Select(
                   fed['arr'], k) == z3.Select(g['A'], g['p0'] + k))))]
        n = fr.locals['n']
        if isinstance(n, VInt):
            out.append(('remaining-count', z3.And(n.t == E['n'].t - br, n.t >= 0)))
        return out

    def _havoc(self, c, fr):
        g = c.ghost['dofile']
        fed = c.obj(g['fed']).f
        fed['arr'] = z3.Array(fresh_name('fed'), I, I)
        fed['len'] = z3.Int(fresh_name('fedlen'))
        c.roles.array(fed['arr'], 'byte')
        c.obj(g['fp']).f['pos'] = z3.Int(fresh_name('fpos'))

    @property
    def loops(self):
        def var(c, fr):
            g = c.ghost['dofile']
            return self.total(c, c.E) - fr.locals['bytesread'].t
        return {0: LoopSpec(inv=self._inv, decreases=var, havoc=self._havoc,
                            kinds={'todo': lambda c, fr: NONE, 'data': lambda c, fr: NONE,
                                   'nread': lambda c, fr: NONE})}


# --------------------------------------------------------------------------------------
# backup functions over symbolic names
# --------------------------------------------------------------------------------------
def name_hooks(c):
    def join(cc, interp, args, kwargs, node):
        return VName(('join',) + tuple(a.parts if isinstance(a, VName) else (repr(a),) for a in args))

    def splitext(cc, interp, args, kwargs, node):
        return VTuple([VName(('root', args[0])), VName(('ext', args[0]))])

    def dirname(cc, interp, args, kwargs, node):
        return VName(('dirname', args[0]))

    def exists(cc, interp, args, kwargs, node):
        cc.event('exists', args[0])
        return VBool(z3.Bool(fresh_name('exists')))

    def rename(cc, interp, args, kwargs, node):
        cc.event('rename', args[0], args[1])
        return NONE

    def binop(cc, op, a, b, node):
        import ast
        if isinstance(op, ast.Add) and (isinstance(a, VName) or isinstance(b, VName)):
            return VName(('cat', a if isinstance(a, VName) else getattr(a, 's', repr(a)),
                          b if isinstance(b, VName) else getattr(b, 's', repr(b))))
        if isinstance(op, ast.Add) and isinstance(a, VOpaque) and isinstance(b, VTuple):
            return VName(('timetuple+', a))
        return None
    return {'prim:os.path.join': join, 'prim:os.path.splitext': splitext,
            'prim:os.path.dirname': dirname, 'prim:os.path.exists': exists,
            'prim:os.rename': rename, 'binop': binop}


class BackupSpec(Spec):
    props = ('C18',)
    assumptions = tuple(ASSUMPTIONS)

    def mk_options(self, c):
        return inst(c, MOD + ':Options', file=VName(('options.file',)),
                    repository=VName(('options.repository',)), gzip=c.fresh_bool('gzip'),
                    killold=VBool(False), full=c.fresh_bool('full'), quick=c.fresh_bool('quick'))

    def hooks(self, c):
        hk = name_hooks(c)

        def gen_filedate(cc, args, kwargs, node):
            t = VOpaque(z3.Const(fresh_name('clock_reading'), Obj), 'timetuple')
            cc.event('clock-read', t)
            return t

        def gen_filename(cc, args, kwargs, node):
            ext = args[1] if len(args) > 1 else kwargs.get('ext', NONE)
            now = args[2] if len(args) > 2 else kwargs.get('now', NONE)
            if isinstance(now, VNone):
                now = gen_filedate(cc, [], {}, node)
            e = ext.s if isinstance(ext, VStr) else 'default-ext'
            return VName(('backup-name', now, e))

        def fs_ctor(cc, interp, args, kwargs, node):
            ro = kwargs.get('read_only')
            cc.event('open-storage', args[0], ro.conc() if isinstance(ro, VBool) else None)
            pos = cc.fresh_int('committed_end', 4)
            cc.ghost['pos'] = pos
            idx = cc.new_obj('saveable-index', None, {}, {})
            return cc.new_obj('rostorage', None, {'_index': idx}, {'pos': pos})

        def copyfile(cc, args, kwargs, node):
            cc.event('copyfile', args[1], args[2], args[3])
            s = VOpaque(z3.Const(fresh_name('md5sum'), Obj), 'md5')
            cc.ghost['sum'] = s
            return s

        def delete_old(cc, args, kwargs, node):
            cc.event('delete-old-backups')
            return NONE

        def print_(cc, interp, args, kwargs, node):
            cc.event('print', tuple(args), kwargs.get('file'))
            return NONE

        def open_(cc, args, kwargs, node):
            f = cc.new_obj('textfile', None, {}, {'name': args[0], 'mode': args[1].s})
            cc.event('open', args[0], args[1].s)
            return f
        q = lambda n: 'call:%s:%s' % (MOD, n)
        hk.update({q('gen_filedate'): gen_filedate, q('gen_filename'): gen_filename,
                   q('copyfile'): copyfile, q('delete_old_backups'): delete_old,
                   q('log'): lambda cc, a, k, n: NONE,
                   'construct:ZODB.FileStorage.FileStorage:FileStorage': fs_ctor,
                   'prim:builtins.print': print_, 'open': open_})
        return hk


def rostorage_method(c, interp, ref, o, name, args, kwargs, node):
    if name == 'getSize':
        return o.meta['pos']
    if name == 'close':
        c.event('storage-closed')
        return NONE
    raise Unsupported('storage method %s in repozo' % name, node)


def index_method(c, interp, ref, o, name, args, kwargs, node):
    if name == 'save':
        c.event('index-save', args[0], args[1])
        return NONE
    raise Unsupported('index method %s' % name, node)


def textfile_method(c, interp, ref, o, name, args, kwargs, node):
    c.event('textfile', name, o.meta['name'])
    if name == 'fileno':
        return prims.VFd(ref)
    return NONE


prims.KIND_METHOD['rostorage'] = rostorage_method
prims.KIND_METHOD['saveable-index'] = index_method
prims.KIND_METHOD['textfile'] = textfile_method
_orig_fsync = prims.PRIMS['os.fsync']


def p_fsync(c, interp, args, kwargs, node):
    fd = args[0]
    if isinstance(fd, prims.VFd) and c.obj(fd.ref).kind == 'textfile':
        c.event('fsync-text', c.obj(fd.ref).meta['name'])
        return NONE
    return _orig_fsync(c, interp, args, kwargs, node)


prims.PRIMS['os.fsync'] = p_fsync


class Incremental(BackupSpec):
    func = MOD + ':do_incremental_backup'

    def setup(self, c, case=None):
        opts = self.mk_options(c)
        full0 = VName(('existing-full-backup',))
        files = c.new_obj('list', meta={'items': [full0, VName(('existing-incremental',))]})
        c.ghost['b'] = {'opts': opts, 'full0': full0}
        return {'options': opts, 'reposz': c.fresh_int('reposz', 0), 'repofiles': files}

    def modifies(self, c, E):
        return {(c.ghost['b']['opts'].id, 'full')}

    def outcomes(self, c, E):
        reposz = E['reposz'].t

        def post(c, E, r):
            ev = c.events
            clocks = [e for e in ev if e[0] == 'clock-read']
            cp = [e for e in ev if e[0] == 'copyfile']
            sv = [e for e in ev if e[0] == 'index-save']
            pr = [e for e in ev if e[0] == 'print']
            op = [e for e in ev if e[0] == 'open-storage']
            pos = c.ghost.get('pos')
            if not (cp and sv and pr and op and pos is not None and clocks):
                return [('copies-saves-and-records', False)]
            dest = cp[0][1]
            stamp = clocks[0][1]
            return [
                ('source-opened-read-only', op[0][2] is True),
                ('clock-read-once-for-all-names', len(clocks) == 1),
                ('chunk-name-carries-the-backup-time-stamp', isinstance(dest, VName)
                 and ('backup-name', stamp, 'default-ext') == dest.parts[-1]),
                ('index-snapshot-carries-the-SAME-time-stamp-as-its-chunk', isinstance(
                    sv[0][2], VName) and sv[0][2].parts[-1] == ('backup-name', stamp, '.index')),
                ('index-saved-at-the-committed-end', isinstance(sv[0][1], VInt)
                 and sv[0][1].t.eq(pos.t)),
                ('copies-exactly-the-bytes-after-the-backed-up-prefix', isinstance(cp[0][2], VInt)
                 and cp[0][2].t.eq(reposz) and isinstance(cp[0][3], VInt)
                 and z3.simplify(cp[0][3].t == pos.t - reposz)),
                ('dat-line-records-chunk-start-end-checksum', len(pr) == 1 and len(pr[0][1]) == 4
                 and pr[0][1][0] == dest and pr[0][1][1].t.eq(reposz) and pr[0][1][2].t.eq(pos.t)
                 and pr[0][1][3] is c.ghost.get('sum')),
                ('dat-file-belongs-to-the-full-backup', any(
                    e[0] == 'open' and e[2] == 'a' and e[1] == VName(
                        ('cat', VName(('root', c.ghost['b']['full0'])), '.dat')) for e in ev)),
                ('dat-file-forced-to-disk', any(e[0] == 'fsync-text' for e in ev)),
            ]
        return [Outcome('ok', post=post),
                Outcome('would-overwrite', 'raise', MOD + ':WouldOverwriteFiles')]


class Full(BackupSpec):
    func = MOD + ':do_full_backup'

    def setup(self, c, case=None):
        opts = self.mk_options(c)
        c.ghost['b'] = {'opts': opts}
        return {'options': opts}

    def modifies(self, c, E):
        return {(c.ghost['b']['opts'].id, 'full')}

    def outcomes(self, c, E):
        def post(c, E, r):
            ev = c.events
            clocks = [e for e in ev if e[0] == 'clock-read']
            cp = [e for e in ev if e[0] == 'copyfile']
            sv = [e for e in ev if e[0] == 'index-save']
            pr = [e for e in ev if e[0] == 'print']
            op = [e for e in ev if e[0] == 'open-storage']
            pos = c.ghost.get('pos')
            if not (cp and sv and pr and op and pos is not None and clocks):
                return [('copies-saves-and-records', False)]
            dest = cp[0][1]
            stamp = clocks[0][1]
            return [
                ('source-opened-read-only', op[0][2] is True),
                ('clock-read-once-for-all-names', len(clocks) == 1),
                ('index-snapshot-carries-the-SAME-time-stamp-as-the-backup', isinstance(
                    sv[0][2], VName) and sv[0][2].parts[-1] == ('backup-name', stamp, '.index')),
                ('index-saved-at-the-committed-end', sv[0][1].t.eq(pos.t)),
                ('copies-the-committed-prefix-only', cp[0][2].conc() == 0 and cp[0][3].t.eq(pos.t)),
                ('dat-line-records-file-0-end-checksum', len(pr) == 1 and len(pr[0][1]) == 4
                 and pr[0][1][0] == dest and pr[0][1][1].conc() == 0 and pr[0][1][2].t.eq(pos.t)
                 and pr[0][1][3] is c.ghost.get('sum')),
                ('dat-file-forced-to-disk', any(e[0] == 'fsync-text' for e in ev)),
            ]
        return [Outcome('ok', post=post),
                Outcome('would-overwrite', 'raise', MOD + ':WouldOverwriteFiles')]


SPECS = [DoFile, Incremental, Full]
INLINE = []


def register(reg):
    # in repozo the storage is used through getSize()/_index.save()/close() only: a model object
    reg.prim_classes.add('ZODB.FileStorage.FileStorage:FileStorage')
