"""C14 (reference extraction side): serialize.referencesf / get_refs - the post-noload loop
classifies every reference format of serialize.py: an oid is extracted for exactly the ordinary
(strong, same-database) forms `oid` and `(oid, class)` - str oids (all bytes < 0x80) encoded back to
bytes - and for none of the list forms (weak, multi-database)."""
import z3

from pyvc import contract, prims
from pyvc.contract import LoopSpec, Outcome, Spec
from pyvc.engine import RaiseSig, Unsupported, bytes_num
from pyvc.values import (B, I, NONE, Obj, V, VBool, VBytes, VClass, VExc, VFunc, VInt, VNone,
                         VOpaque, VRef, VStr, VTuple, fresh_name)

from .common import inst

MOD = 'ZODB.serialize'
ASSUMPTIONS = [
    'A-NOLOAD: PersistentUnpickler(None, callback, file).noload() x2 calls the callback once per persistent '
    'reference of the record, in pickle order, with the reference data as written by persistent_id',
]


class RefsSpec(Spec):
    props = ('C14', 'C07')
    assumptions = tuple(ASSUMPTIONS)

    def mk_refs(self, c):
        L = lambda *items: c.new_obj('list', meta={'items': list(items)})
        oids = [c.fresh_bytes(8, 'oid%d' % k) for k in range(9)]
        cls, db = c.fresh_opaque('klass'), c.fresh_opaque('dbname')
        stro = VStr(codes=[z3.Int(fresh_name('ch')) for _ in range(8)])
        for t in stro.code_terms():
            c.assume(z3.And(t >= 0, t < 128))
        refs = [
            ('strong', oids[0]), ('weak', L(VStr('w'), VTuple([oids[1]]))),
            ('strong', VTuple([oids[2], cls])), ('weak', L(VStr('w'), VTuple([oids[3], db]))),
            ('foreign', L(VStr('n'), VTuple([db, oids[4]]))),
            ('foreign', L(VStr('m'), VTuple([db, oids[5], cls]))), ('weak', L(oids[6])),
            ('strong-str', stro), ('strong', VTuple([oids[7], VTuple([VStr('mod'), VStr('Cls')])])),
        ]
        c.ghost['refs'] = refs
        return refs

    def hooks(self, c):
        def unpickler(cc, args, kwargs, node):
            return cc.new_obj('noloader', None, {}, {'callback': args[1], 'n': 0})

        def bytesio(cc, interp, args, kwargs, node):
            return cc.new_obj('bytesio', None, {}, {'value': args[0] if args else None,
                                                    'dumped': []})
        return {'call:ZODB._compat:PersistentUnpickler': unpickler,
                'construct:ext:io.BytesIO': bytesio,
                'opaque_isinstance': lambda cc, v, n: False}


def noloader_method(c, interp, ref, o, name, args, kwargs, node):
    if name == 'noload':
        o.meta['n'] += 1
        if o.meta['n'] == 2:
            # the second pickle (the state) carries the references
            for kind, r in c.ghost['refs']:
                interp.call_value(c, o.meta['callback'], [r], {}, node)
        return NONE
    raise Unsupported('unpickler method %s' % name, node)


prims.KIND_METHOD['noloader'] = noloader_method
prims.EXT_CLASSES.add('io.BytesIO')


class Referencesf(RefsSpec):
    func = MOD + ':referencesf'
    cases = ('new-list', 'given-list')

    def setup(self, c, case=None):
        self.mk_refs(c)
        given = c.new_obj('list', meta={'items': [c.fresh_bytes(8, 'earlier')]}) \
            if case == 'given-list' else NONE
        c.ghost['given'] = given
        return {'p': c.fresh_opaque('record'), 'oids': given}

    def modifies(self, c, E):
        g = c.ghost['given']
        return {(g.id, '*')} if isinstance(g, VRef) else set()

    def outcomes(self, c, E):
        refs = c.ghost['refs']
        given = c.ghost['given']
        pre = list(c.obj(given).meta['items']) if isinstance(given, VRef) else []

        def post(c, E, r):
            if not isinstance(r, VRef) or c.obj(r).kind != 'list':
                return [('returns-a-list', False)]
            items = c.obj(r).meta['items'][len(pre):]
            want = [x for k, x in refs if k.startswith('strong')]
            out = [('one-oid-per-ordinary-reference-none-for-weak-or-foreign', len(items) == len(want)),
                   ('appends-to-the-list-passed-in', (not isinstance(given, VRef)) or r.id == given.id)]
            for k, (it, w) in enumerate(zip(items, want)):
                if isinstance(w, VTuple):
                    w = w.items[0]
                if isinstance(w, VStr):
                    ok = isinstance(it, VBytes) and it.conc_len() == 8 and z3.And(
                        [a == b for a, b in zip(it.segs[0][1], w.code_terms())])
                    out.append(('str-oid-encoded-back-to-bytes#%d' % k, ok))
                else:
                    out.append(('oid-in-pickle-order#%d' % k, isinstance(it, VBytes)
                                and bytes_num(c, it) == bytes_num(c, w)))
            return out
        return [Outcome('ok', post=post)]


class GetRefs(RefsSpec):
    func = MOD + ':get_refs'

    def setup(self, c, case=None):
        self.mk_refs(c)
        return {'a_pickle': c.fresh_opaque('record')}

    def outcomes(self, c, E):
        refs = c.ghost['refs']

        def post(c, E, r):
            if not isinstance(r, VRef) or c.obj(r).kind != 'list':
                return [('returns-a-list', False)]
            items = c.obj(r).meta['items']
            want = [x for k, x in refs if k.startswith('strong')]
            out = [('one-entry-per-ordinary-reference', len(items) == len(want))]
            for k, (it, w) in enumerate(zip(items, want)):
                ok = isinstance(it, VTuple) and len(it.items) == 2
                if ok and isinstance(w, VTuple):
                    ok = it.items[1] is w.items[1] or (isinstance(it.items[1], VOpaque) and isinstance(
                        w.items[1], VOpaque) and it.items[1].t.eq(w.items[1].t))
                elif ok:
                    ok = isinstance(it.items[1], VNone)
                out.append(('class-info-kept-or-None#%d' % k, ok))
            return out
        return [Outcome('ok', post=post)]


SPECS = [Referencesf, GetRefs]
INLINE = []


# ======================================================================================
prims.EXT_CLASSES.add('persistent.wref.WeakRef')


class LoadPersistentWeakref(Spec):
    """ObjectReader.load_persistent_weakref: the loaded weak reference names the stored oid and resolves in the
    connection of the database the reference names - the reader's own connection only when the reference names no
    database; when the named database is not configured the reference is left WITHOUT a data manager (a dead
    reference), never bound to some other database (C14: every reference leads to the object with the same id)."""
    func = MOD + ':ObjectReader.load_persistent_weakref'
    props = ('C14',)
    cases = ('same-database', 'other-database')

    def setup(self, c, case=None):
        conn = c.fresh_opaque('conn')
        me = inst(c, MOD + ':ObjectReader', _conn=conn, _cache=c.fresh_opaque('cache'),
                  _factory=c.fresh_opaque('factory'))
        c.ghost['lw'] = {'conn': conn, 'made': []}
        a = {'self': me, 'oid': c.fresh_bytes(8, 'oid')}
        a['database_name'] = NONE if case == 'same-database' else c.fresh_opaque('database_name')
        return a

    def hooks(self, c):
        g = lambda cc: cc.ghost['lw']

        def new(cc, interp, args, kwargs, node):
            r = cc.new_obj('inst', None, {}, {'name': 'weakref'})
            g(cc)['made'].append(r)
            return r

        def ometh(cc, v, name, args, kwargs, node):
            if v.tag == 'conn' and name == 'get_connection':
                if cc.choose([True, True], 'database-configured') == 1:
                    cc.event('database-missing')
                    raise RaiseSig(VExc('builtins:KeyError'))
                oc = cc.fresh_opaque('other_conn')
                cc.assume(oc.t != g(cc)['conn'].t)
                cc.event('other-connection', args[0], oc)
                return oc
            return None
        return {'prim:persistent.wref.WeakRef.__new__': new, 'opaque_method': ometh,
                'opaque_is_none': lambda cc, v: False}

    def modifies(self, c, E):
        return set()

    def outcomes(self, c, E):
        g = c.ghost['lw']

        def post(c, E, r):
            ok = isinstance(r, VRef) and len(g['made']) == 1 and r.id == g['made'][0].id
            out = [('returns-the-new-weak-reference', ok)]
            if not ok:
                return out
            f = c.obj(r).f
            oid = f.get('oid')
            out.append(('names-the-stored-oid', bytes_num(c, oid) == bytes_num(c, E['oid'])
                        if isinstance(oid, VBytes) and oid.conc_len() == 8 else False))
            dm = f.get('dm')
            if isinstance(E['database_name'], VNone):
                out.append(('same-database.resolves-in-the-readers-connection',
                            isinstance(dm, VOpaque) and dm.tag == 'conn'))
                out.append(('same-database.names-no-database', 'database_name' not in f))
            else:
                dn = f.get('database_name')
                out.append(('other-database.name-kept', isinstance(dn, VOpaque) and dn is E['database_name']))
                found = [e for e in c.events if e[0] == 'other-connection']
                if found:
                    out.append(('other-database.resolves-in-that-databases-connection',
                                isinstance(dm, VOpaque) and dm is found[0][2] and
                                found[0][1] is E['database_name']))
                else:
                    out.append(('missing-database.dead-reference-never-bound-to-another-database', dm is None))
            return out
        return [Outcome('ok', post=post, result=lambda cc, E: cc.fresh_opaque('weakref'))]


SPECS.append(LoadPersistentWeakref)
