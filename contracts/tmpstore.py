"""C12 - Connection.TmpStore (the savepoint store): store / load / reset.

Entry layout at position p of the temporary file:  p64(len oid) . oid . serial . p64(len data) . data
TMPINV: every index entry points at such an entry for that oid inside the file."""
import z3

from pyvc import contract, prims
from pyvc.contract import LoopSpec, Outcome, Spec
from pyvc.engine import as_z3_bool, be_num, bytes_elems, bytes_eq, bytes_num
from pyvc.ground import All, Ex, FAnd, FNot, FOr
from pyvc.values import (B, I, NONE, Obj, VBool, VBytes, VExc, VInt, VNone, VOpaque, VRef, VStr,
                         VTuple, fresh_name)

from .common import inst
from .fs_format import b8_eq_num, field_eq, sel_bytes, slice_is
from .fsmodel import be, MAXPOS

TMP = 'ZODB.Connection:TmpStore'
StorageSystemError = 'ZODB.POSException:StorageSystemError'


def mk_tmp(c):
    f = prims.new_file(c, '_file', mode='w+b')
    index = prims.new_map(c, 'bytes8', 'int', 'index')
    creating = prims.new_map(c, 'bytes8', 'opaque', 'creating')
    c.roles.array(c.obj(index).f['dom'], 'oid')
    c.roles.array(c.obj(index).f['val'], 'oid')
    pos = c.fresh_int('position')
    st = c.fresh_opaque('storage')
    me = inst(c, TMP, _file=f, position=pos, index=index, creating=creating, _storage=st,
              _blob_dir=NONE)
    fo = c.obj(f).f
    c.assume(z3.And(pos.t >= 0, pos.t <= fo['size'], fo['size'] < MAXPOS))
    c.ghost['tmp'] = {'self': me, 'file': f, 'index': index, 'creating': creating, 'pos': pos}
    return me


def entry_ok(A, n, p, o):
    """a well formed entry for oid number o at p in image (A, n)"""
    return z3.And(p >= 0, be(A, p, 8) == 8, be(A, p + 8, 8) == o, be(A, p + 24, 8) >= 0,
                  p + 32 + be(A, p + 24, 8) <= n)


def tmpinv(c, me):
    S = c.obj(me).f
    fo = c.obj(S['_file']).f
    ix = c.obj(S['index']).f
    A, n = fo['arr'], fo['size']
    return [('TMPINV', All(['oid'], lambda o: z3.Implies(
        z3.Select(ix['dom'], o),
        z3.And(entry_ok(A, n, z3.Select(ix['val'], o), o), o >= 0, o < 2 ** 64,
               z3.Select(ix['val'], o) + 32 + be(A, z3.Select(ix['val'], o) + 24, 8)
               <= S['position'].t)))),
        ('position-in-file', z3.And(S['position'].t >= 0, S['position'].t <= n))]


class TmpStoreStore(Spec):
    func = 'ZODB.Connection:TmpStore.store'
    props = ('C12',)
    cases = ('serial', 'serial-none')

    def setup(self, c, case=None):
        me = mk_tmp(c)
        return {'self': me, 'oid': c.fresh_bytes(8, 'oid'),
                'serial': c.fresh_bytes(8, 'serial') if case == 'serial' else NONE,
                'data': c.fresh_barr('data'), 'version': VStr(''),
                'transaction': c.fresh_opaque('transaction')}

    def requires(self, c, E):
        return tmpinv(c, E['self']) + [('data-length', z3.And(E['data'].length() >= 0,
                                                              E['data'].length() < MAXPOS))]

    def modifies(self, c, E):
        g = c.ghost['tmp']
        f = g['file'].id
        return {(f, 'arr'), (f, 'size'), (f, 'pos'), (f, 'dirty'), (f, 'unsynced'),
                (g['index'].id, 'dom'), (g['index'].id, 'val'), (g['self'].id, 'position')}

    def outcomes(self, c, E):
        g = c.ghost['tmp']
        me = E['self']
        S0 = c.obj(me).f
        p0 = S0['position'].t
        A0 = c.obj(g['file']).f['arr']
        o = bytes_num(c, E['oid'])
        ser = E['serial']
        sernum = z3.IntVal(0) if isinstance(ser, VNone) else bytes_num(c, ser)
        darr, doff, dlen = E['data'].segs[0][1], E['data'].segs[0][2], E['data'].segs[0][3]
        ix0 = c.obj(g['index']).f

        def post(c, E, r):
            fo = c.obj(g['file']).f
            ix = c.obj(g['index']).f
            A = fo['arr']
            S = c.obj(me).f
            return [
                ('entry.oid-length', be(A, p0, 8) == 8), ('entry.oid', be(A, p0 + 8, 8) == o),
                ('entry.serial', be(A, p0 + 16, 8) == sernum),
                ('entry.data-length', be(A, p0 + 24, 8) == dlen),
                ('entry.data', All(['byte'], lambda k: z3.Implies(
                    z3.And(k >= 0, k < dlen),
                    z3.Select(A, p0 + 32 + k) == z3.Select(darr, doff + k)))),
                ('earlier-entries-unchanged', All(['byte'], lambda k: z3.Implies(
                    z3.And(k >= 0, k < p0), z3.Select(A, k) == z3.Select(A0, k)))),
                ('index.entry', z3.And(z3.Select(ix['dom'], o), z3.Select(ix['val'], o) == p0)),
                ('index.others-unchanged', All(['oid'], lambda q: z3.Implies(
                    q != o, z3.And(z3.Select(ix['dom'], q) == z3.Select(ix0['dom'], q),
                                   z3.Select(ix['val'], q) == z3.Select(ix0['val'], q))))),
                ('position-advanced', field_eq(c, S['position'], p0 + 32 + dlen)),
                ('file-covers-entry', fo['size'] >= p0 + 32 + dlen),
                ('returns-serial', b8_eq_num(c, r, sernum)),
            ]
        return [Outcome('ok', post=post, result=lambda c, E: c.fresh_bytes(8, 'serial'))]


class TmpStoreLoad(Spec):
    func = 'ZODB.Connection:TmpStore.load'
    props = ('C12',)

    def setup(self, c, case=None):
        me = mk_tmp(c)
        return {'self': me, 'oid': c.fresh_bytes(8, 'oid'), 'version': VStr('')}

    def hooks(self, c):
        def ometh(cc, v, name, args, kwargs, node):
            if v.tag == 'storage' and name == 'load':
                cc.event('delegated-load', args[0])
                return VTuple([cc.fresh_barr('basedata'), cc.fresh_bytes(8, 'baseserial')])
            return None
        return {'opaque_method': ometh}

    def requires(self, c, E):
        return tmpinv(c, E['self'])

    def modifies(self, c, E):
        return {(c.ghost['tmp']['file'].id, 'pos')}

    def outcomes(self, c, E):
        g = c.ghost['tmp']
        fo = c.obj(g['file']).f
        ix = c.obj(g['index']).f
        A = fo['arr']
        o = bytes_num(c, E['oid'])
        has = z3.Select(ix['dom'], o)
        p = z3.Select(ix['val'], o)
        from .fsmodel import byte_range_facts
        byte_range_facts(c, A, p, 32)      # the bytes of an image are bytes (ground instance)

        def post(c, E, r):
            if not isinstance(r, VTuple) or len(r.items) != 2:
                return [('pair', False)]
            return [('data-as-stored', slice_is(c, r.items[0], A, p + 32, be(A, p + 24, 8))),
                    ('serial-as-stored', b8_eq_num(c, r.items[1], be(A, p + 16, 8)))]

        def delegated(c, E, r):
            return [('delegates-to-the-real-storage',
                     any(e[0] == 'delegated-load' for e in c.events))]
        return [Outcome('saved', guard=has, post=post,
                        result=lambda c, E: VTuple([VBytes([('a', A, p + 32, be(A, p + 24, 8))]),
                                                    sel_bytes(A, p + 16, 8)])),
                Outcome('not-saved', guard=z3.Not(has), post=delegated,
                        result=lambda c, E: VTuple([c.fresh_barr('d'), c.fresh_bytes(8, 's')]))]


class TmpStoreReset(Spec):
    func = 'ZODB.Connection:TmpStore.reset'
    props = ('C12',)

    def setup(self, c, case=None):
        me = mk_tmp(c)
        index = prims.new_map(c, 'bytes8', 'int', 'saved_index')
        creating = prims.new_map(c, 'bytes8', 'opaque', 'saved_creating')
        pos = c.fresh_int('saved_position')
        c.assume(z3.And(pos.t >= 0, pos.t <= c.obj(c.ghost['tmp']['file']).f['size']))
        return {'self': me, 'position': pos, 'index': index, 'creating': creating}

    def requires(self, c, E):
        size = c.obj(c.ghost['tmp']['file']).f['size']
        return [('saved-position-within-the-file', z3.And(E['position'].t >= 0, E['position'].t <= size))]

    def modifies(self, c, E):
        g = c.ghost['tmp']
        f = g['file'].id
        s = g['self'].id
        return {(f, 'arr'), (f, 'size'), (f, 'unsynced'), (s, 'position'), (s, 'index'),
                (s, 'creating')}

    def outcomes(self, c, E):
        g = c.ghost['tmp']
        me = E['self']
        A0 = c.obj(g['file']).f['arr']

        def same_map(c, a, b):
            ao, bo = c.obj(a).f, c.obj(b).f
            return z3.And(ao['dom'] == bo['dom'], ao['val'] == bo['val'])

        def post(c, E, r):
            S = c.obj(me).f
            fo = c.obj(g['file']).f
            idx, cre = S['index'], S['creating']
            pos = E['position'].t
            return [
                ('file-cut-at-savepoint-position', fo['size'] == pos),
                ('kept-bytes-unchanged', All(['byte'], lambda k: z3.Implies(
                    z3.And(k >= 0, k < pos), z3.Select(fo['arr'], k) == z3.Select(A0, k)))),
                ('position-restored', field_eq(c, S['position'], pos)),
                ('index-equal-to-saved', isinstance(idx, VRef) and same_map(c, idx, E['index'])),
                ('index-not-aliased-with-saved', isinstance(idx, VRef) and idx.id != E['index'].id),
                ('creating-equal-to-saved', isinstance(cre, VRef)
                 and same_map(c, cre, E['creating'])),
                # a Savepoint's state tuple must stay immutable: later savepoints update
                # self.creating in place
                ('creating-not-aliased-with-saved', isinstance(cre, VRef)
                 and cre.id != E['creating'].id),
            ]
        return [Outcome('ok', post=post)]


def lemma_roundtrip():
    """store/post (entry image + index entry) establishes TMPINV for the stored oid and is what
    load/post reads back: load(oid) after store(oid, serial, data) = (data, serial)"""
    A = z3.Array('A', I, I)
    p0, o, ser, dlen, n = z3.Ints('p0 o ser dlen n')
    hyps = [be(A, p0, 8) == 8, be(A, p0 + 8, 8) == o, be(A, p0 + 16, 8) == ser,
            be(A, p0 + 24, 8) == dlen, n >= p0 + 32 + dlen, p0 >= 0, dlen >= 0]
    return [('stored-entry-is-well-formed', (hyps, entry_ok(A, n, p0, o))),
            ('load-reads-serial-and-length-back', (hyps, z3.And(be(A, p0 + 16, 8) == ser,
                                                                be(A, p0 + 24, 8) == dlen)))]


SPECS = [TmpStoreStore, TmpStoreLoad, TmpStoreReset]
INLINE = ['ZODB.utils:p64', 'ZODB.utils:u64']
