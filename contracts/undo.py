"""C06 - FileStorage._transactionalUndoRecord: the per-record undo decision, stated from the
property: the record being undone is current, or the current data equals the undone data => copy the
previous-revision pointer forward (no previous revision => un-create); otherwise: no previous
revision => UndoError; else the three-way merge resolver(oid, current tid, undone tid, previous data,
current data) or UndoError.  The third component is always the COMMITTED current position (it becomes
the new record's prev pointer)."""
import z3

from pyvc import contract, prims
from pyvc.contract import LoopSpec, Outcome, Spec
from pyvc.engine import ContractStale, RaiseSig, Unsupported, bytes_eq, bytes_num
from pyvc.ground import All, Ex, FAnd, FNot, FOr
from pyvc.values import (B, I, NONE, Obj, V, VBool, VBytes, VExc, VFunc, VInt, VNone, VOpaque,
                         VRef, VStr, VTuple, fresh_name)

from . import fsmodel as M
from .common import ConflictError, POSKeyError, ReadOnlyError, StorageTransactionError, UndoError, inst
from .fs_format import b8_eq_num, field_eq, slice_is, txn
from .fs_load import bend_axioms, bend_fn, data_val, ghost_of
from .fs_write import WriteSpec, lock_balanced, txn_facts

AII = z3.ArraySort(I, I)
UNDO_RES_OK = z3.Function('undo_resolvable', I, I, I, AII, I, I, AII, I, I, B)
UNDO_RES_LEN = z3.Function('undo_resolved_len', I, I, I, AII, I, I, AII, I, I, I)
UNDO_RES_ARR = z3.Function('undo_resolved_arr', I, I, I, AII, I, I, AII, I, I, AII)


def seg(v):
    return v.segs[0][1], v.segs[0][2], v.segs[0][3]


class UndoRecord(WriteSpec):
    func = 'ZODB.FileStorage.FileStorage:FileStorage._transactionalUndoRecord'
    props = ('C06', 'C10')
    cases = ('not-staged', 'staged-earlier-in-this-undo')

    def setup(self, c, case=None):
        h, t = self.mk(c, None, read_only=False)
        oid = c.fresh_bytes(8, 'oid')
        pos = c.fresh_int('pos')
        pre = c.fresh_int('pre')
        tid = c.fresh_bytes(8, 'tid')
        o = bytes_num(c, oid)
        ti = c.obj(h.tindex).f
        if case == 'not-staged':
            c.assume(z3.Not(z3.Select(ti['dom'], o)))
        else:
            c.assume(z3.Select(ti['dom'], o))
        c.ghost['ur'] = {'h': h, 'o': o, 'case': case}
        # the staged records are described by the same ghost functions over the temp file
        c.ghost['TR'] = M.RecFuns(c, c.obj(h.tfile).f['arr'], 'TF')
        return {'self': h.self, 'oid': oid, 'pos': pos, 'tid': tid, 'pre': pre}

    def hooks(self, c):
        hk = WriteSpec.hooks(self, c)

        def resolver(cc, args, kwargs, node):
            # args: self, oid, ctid, tid, pre_data, current_data
            cc.event('resolve', tuple(args[1:]))
            # the current revision may be a record staged earlier in this very transaction: it
            # cannot be reloaded by serial, so the data in hand must be handed to the resolver
            cc.oblige('resolver-call.current-data-is-handed-over-not-reloaded-by-serial',
                      len(args) > 5 and isinstance(args[5], VBytes), node, assume_after=False)
            a = self.rargs(cc, args[1], args[2], args[3], args[4], args[5] if len(args) > 5 else None)
            if a is None:
                raise RaiseSig(VExc(ConflictError))
            i = cc.choose([UNDO_RES_OK(*a), z3.Not(UNDO_RES_OK(*a))], 'undo-resolve')
            if i == 1:
                raise RaiseSig(VExc(ConflictError))
            ln = UNDO_RES_LEN(*a)
            cc.assume(z3.And(ln > 0, ln < M.MAXPOS))
            return VBytes([('a', UNDO_RES_ARR(*a), z3.IntVal(0), ln)])
        hk['call:ZODB.ConflictResolution:tryToResolveConflict'] = resolver
        return hk

    @staticmethod
    def rargs(c, oid, ctid, tid, pre_data, cur_data):
        if not (isinstance(pre_data, VBytes) and isinstance(cur_data, VBytes)
                and len(pre_data.segs) == 1 and len(cur_data.segs) == 1):
            return None
        return (bytes_num(c, oid), bytes_num(c, ctid), bytes_num(c, tid)) + seg(pre_data) + seg(cur_data)

    def requires(self, c, E):
        g = c.ghost['ur']
        h, o = g['h'], g['o']
        F, gg = h.F, h.g
        TR = c.ghost['TR']
        ix, ti = c.obj(h.index).f, c.obj(h.tindex).f
        ta = c.obj(h.tfile).f
        pos, pre = E['pos'].t, E['pre'].t
        ipos = z3.Select(ix['val'], o)
        tpos = z3.Select(ti['val'], o)
        itpos = tpos - h.pos.t - h.thl.t
        vrec = lambda p: z3.Select(gg.vrec, p)
        out = M.RI_chain(F, gg, ix['dom'], ix['val'], h.pos.t) + txn_facts(c, h) + [
            ('the-record-being-undone-is-a-committed-record-of-the-oid', z3.And(
                vrec(pos), F.oid(pos) == o, gg.inchain(o, pos), pre == F.prev(pos),
                z3.Select(ix['dom'], o), ipos >= pos)),
            ('previous-revision-pointer', z3.Or(pre == 0, z3.And(vrec(pre), pre < pos))),
        ]
        if g['case'] != 'not-staged':
            TR.link(c, itpos)
            out.append(('staged-record-of-an-earlier-undo-in-this-transaction', z3.And(
                tpos > pos, itpos >= 0, itpos + 42 + z3.If(TR.plen(itpos) == 0, 8, TR.plen(itpos))
                <= ta['pos'], TR.oid(itpos) == o, TR.vlen(itpos) == 0, TR.plen(itpos) >= 0,
                z3.Implies(TR.plen(itpos) == 0,
                           z3.Or(TR.back(itpos) == 0, vrec(TR.back(itpos)))))))
        return out

    def modifies(self, c, E):
        h = c.ghost['ur']['h']
        return {(h.file.id, 'pos'), (h.tfile.id, 'pos')}

    def outcomes(self, c, E):
        g = c.ghost['ur']
        h, o = g['h'], g['o']
        F, gg = h.F, h.g
        TR = c.ghost['TR']
        ix, ti = c.obj(h.index).f, c.obj(h.tindex).f
        pos, pre = E['pos'].t, E['pre'].t
        ipos = z3.Select(ix['val'], o)
        staged = g['case'] != 'not-staged'
        drec = lambda p: z3.Select(gg.drec, p)
        undone = data_val(F, drec(pos))                 # data of the revision being undone
        if not staged:
            is_current = ipos == pos
            cur_ptr = z3.If(F.plen(ipos) != 0, ipos, F.back(ipos))
            cur_data = data_val(F, drec(ipos))
            cur_gone = drec(ipos) == 0
            ctid = F.tid(ipos)
        else:
            tpos = z3.Select(ti['val'], o)
            itpos = tpos - h.pos.t - h.thl.t
            is_current = z3.BoolVal(False)
            cur_ptr = z3.If(TR.plen(itpos) != 0, tpos, TR.back(itpos))
            cur_data_direct = VBytes([('a', TR.arr, itpos + 42, TR.plen(itpos))])
            cur_data = None
            ctid = TR.tid(itpos)
        same_ptr = cur_ptr == pos
        E.ghost['ctid'] = ctid

        def third(c, r):
            return ('third-component-is-the-COMMITTED-current-position',
                    isinstance(r, VTuple) and len(r.items) == 3 and field_eq(c, r.items[2], ipos))

        def copy_post(c, E, r):
            if not isinstance(r, VTuple) or len(r.items) != 3:
                return [('triple', False)]
            return [('no-data-written', isinstance(r.items[0], VStr) and r.items[0].s == ''),
                    ('pointer-to-the-previous-revision-copied-forward-(0 = un-create)',
                     field_eq(c, r.items[1], pre)), third(c, r)]

        def resolved_post(c, E, r):
            if not isinstance(r, VTuple) or len(r.items) != 3:
                return [('triple', False)]
            ev = [e for e in c.events if e[0] == 'resolve']
            if len(ev) != 1:
                return [('resolver-called-once', False)]
            a = ev[0][1]
            out = [('resolver-gets-(oid, current tid, undone tid, ...)', z3.And(
                bytes_num(c, a[0]) == o, bytes_num(c, a[1]) == ctid,
                bytes_num(c, a[2]) == bytes_num(c, E['tid']))),
                ('resolver-gets-the-PREVIOUS-data-as-the-state-to-merge-in', slice_is(
                    c, a[3], F.arr, drec(pre) + 42, F.plen(drec(pre)))),
                ('resolver-gets-the-CURRENT-data-(not-reloaded-by-serial)', len(a) == 5 and isinstance(
                    a[4], VBytes) and a[4].length().eq(a[4].length())),
                ('no-pointer', field_eq(c, r.items[1], z3.IntVal(0))), third(c, r),
                ('data-is-the-resolver-result', isinstance(r.items[0], VBytes))]
            return out
        # the guards of the decision table are over-approximated by disjunction at the exits
        # (data equality is decided by the code's own comparison, recorded in the path condition)
        return [Outcome('copy-or-uncreate', post=copy_post),
                Outcome('resolved', post=resolved_post),
                Outcome('cannot-undo', 'raise', UndoError)]

    def at_exit(self, c, E, kind, val):
        """the decision table proper.  Whether the undone data and the current data are equal is
        decided by the code's own byte comparison; its outcome on this path is read off the path
        condition (the comparison formula is memoised, so it is one identifiable term)."""
        g = c.ghost['ur']
        h, o = g['h'], g['o']
        F, gg = h.F, h.g
        TR = c.ghost['TR']
        ix, ti = c.obj(h.index).f, c.obj(h.tindex).f
        pos, pre = E['pos'].t, E['pre'].t
        ipos = z3.Select(ix['val'], o)
        staged = g['case'] != 'not-staged'
        if staged:
            tpos = z3.Select(ti['val'], o)
            itpos = tpos - h.pos.t - h.thl.t
            tipos = tpos
            cur_ptr = z3.If(TR.plen(itpos) != 0, tpos, TR.back(itpos))
        else:
            tipos = ipos
            cur_ptr = z3.If(F.plen(ipos) != 0, ipos, F.back(ipos))
        memo = list(c.ghost.get('$bytes_eq', {}).values())
        pc_ids = {b.get_id() for b in c.pc if isinstance(b, z3.ExprRef)}
        compared_equal = any(z3.simplify(f).get_id() in pc_ids for f in memo)
        compared_diff = any(z3.simplify(z3.Not(f)).get_id() in pc_ids for f in memo)
        resolved = any(e[0] == 'resolve' for e in c.events)
        out = []
        if kind == 'return' and isinstance(val, VTuple) and len(val.items) == 3:
            if isinstance(val.items[0], VStr):
                out.append(('copy-only-if-undone-record-is-current-or-data-equal',
                            True if compared_equal else (z3.Or(tipos == pos, cur_ptr == pos)
                                                         if not compared_diff else False)))
            else:
                out.append(('merge-only-if-data-differ-and-a-previous-revision-exists',
                            z3.And(pre != 0, z3.BoolVal(compared_diff and resolved))))
        if kind == 'raise':
            # refusal only when the data differ (or cannot be loaded)
            out.append(('refusal-only-after-a-difference-or-a-load-failure',
                        compared_diff or any(e[0] == 'outcome:_loadBack_impl'
                                             and e[1] in ('zero', 'uncreated-fail') for e in c.events)))
        return out


SPECS = [UndoRecord]
INLINE = ['ZODB.FileStorage.FileStorage:FileStorage._undoDataInfo']


# ======================================================================================
class TxnUndoWriteRefusal(WriteSpec):
    """FileStorage._txn_undo_write, entry guard: a transaction whose status is not ' ' (packed 'p', undone 'u', a
    checkpoint 'c') is refused with UndoError before anything is staged - _txn_find alone does not keep packed
    transactions out (it compares the tid before it looks at the status byte).  Transactions with status ' ' are the
    business of the loop (bounded stand-in) and of _transactionalUndoRecord (proved above)."""
    func = 'ZODB.FileStorage.FileStorage:FileStorage._txn_undo_write'
    props = ('C06',)
    label = 'refusal'
    callable_contract = False

    def setup(self, c, case=None):
        h, t = self.mk(c, None, read_only=False)
        c.ghost['tu'] = {'h': h}
        return {'self': h.self, 'tpos': c.fresh_int('tpos')}

    def requires(self, c, E):
        h = c.ghost['tu']['h']
        arr = c.obj(h.file).f['arr']
        tp = E['tpos'].t
        st = txn(arr, tp)['status']
        return txn_facts(c, h) + [
            ('a-committed-transaction-header', z3.And(tp >= 4, tp + 23 <= h.pos.t, h.pos.t <= c.obj(h.file).f['size'])),
            ('its-status-is-not-the-undoable-one', z3.And(st != 32, st >= 0, st < 128))]

    def modifies(self, c, E):
        h = c.ghost['tu']['h']
        return {(h.file.id, 'pos')}

    @property
    def loops(self):
        # under this contract's precondition the record loop is never reached
        return {0: LoopSpec(inv=lambda cc, fr: [('refused-before-any-record-is-processed', z3.BoolVal(False))])}

    def outcomes(self, c, E):
        return [Outcome('refused', 'raise', UndoError)]


SPECS.append(TxnUndoWriteRefusal)


# ======================================================================================
# DB.TransactionalUndo: undo as a resource manager of the caller's transaction
# ======================================================================================
TU = 'ZODB.DB:TransactionalUndo'


class TUSpec(Spec):
    props = ('C06',)

    def mk(self, c, with_storage=True):
        st = c.fresh_opaque('undo_storage') if with_storage else NONE
        tids = prims.new_slist(c, 'bytes8', '_tids')
        me = inst(c, TU, _db=c.fresh_opaque('db'), _tids=tids, _storage=st)
        txn = c.fresh_opaque('transaction')
        c.ghost['tu2'] = {'me': me, 'st': st, 'tids': tids, 'txn': txn, 'data': c.fresh_opaque('txn_data'),
                          'n0': 0, 'ok': z3.BoolVal(True)}
        return me, txn

    def hooks(self, c):
        g = lambda cc: cc.ghost['tu2']

        def ometh(cc, v, name, args, kwargs, node):
            if v.tag == 'transaction' and name == 'data':
                cc.oblige('transaction.data-asked-for-THIS-manager', len(args) == 1 and isinstance(args[0], VRef) and
                          args[0].id == g(cc)['me'].id, node, assume_after=False)
                return g(cc)['data']
            if v.tag == 'undo_storage':
                cc.event('storage', name, tuple(args))
                if name in ('undo', 'tpc_vote', 'tpc_finish', 'tpc_abort') and \
                        cc.choose([True, True], 'storage-' + name) == 1:
                    raise RaiseSig(VExc(UndoError if name == 'undo' else 'builtins:Exception'))
                return NONE
            return None
        return {'opaque_method': ometh, 'opaque_is_none': lambda cc, v: False}

    def calls(self, c, name):
        return [e for e in c.events if e[0] == 'storage' and e[1] == name]


class TUCommit(TUSpec):
    """TransactionalUndo.commit: every tid handed to DB.undo/undoMultiple is undone, in order and exactly once, by the
    undo storage instance, inside the storage transaction of THIS manager; the first refusal stops the commit."""
    func = TU + '.commit'

    def setup(self, c, case=None):
        me, txn = self.mk(c)
        return {'self': me, 'transaction': txn}

    @property
    def loops(self):
        def hv(cc, fr):
            g = cc.ghost['tu2']
            g['n0'] = len(cc.events)
            g['ok'] = z3.BoolVal(True)

        def inv(cc, fr):
            cur = fr.locals.get('$iter0')
            if cur is None:
                raise ContractStale('the loop contract expects to iterate the tids: the code has a different shape')
            g = cc.ghost['tu2']
            t = cc.obj(g['tids']).f
            return [('iterating-the-tids-given', z3.And(cur.arr0 == t['arr'], cur.len0 == t['len'])),
                    ('every-tid-met-so-far-was-undone-exactly-once-with-this-managers-data', g['ok'])]

        def step(cc, fr):
            g = cc.ghost['tu2']
            tid = fr.locals.get('tid')
            evs = [e for e in cc.events[g['n0']:] if e[0] == 'storage' and e[1] == 'undo']
            ok = isinstance(tid, VBytes) and len(evs) == 1 and len(evs[0][2]) == 2 and evs[0][2][1] is g['data'] and \
                isinstance(evs[0][2][0], VBytes)
            g['ok'] = z3.And(z3.BoolVal(ok), bytes_num(cc, evs[0][2][0]) == bytes_num(cc, tid)) if ok \
                else z3.BoolVal(False)
        return {0: LoopSpec(inv=inv, havoc=hv, ghost_step=step)}

    def modifies(self, c, E):
        return set()

    def outcomes(self, c, E):
        return [Outcome('undone', result=lambda cc, E: NONE),
                Outcome('refused', 'raise', UndoError)]


class TUFinish(TUSpec):
    """tpc_finish / tpc_abort: the undo storage instance finishes (aborts) the storage transaction of this manager
    and is RELEASED on every exit, also when the storage raises."""
    func = TU + '.tpc_finish'
    method = 'tpc_finish'

    def setup(self, c, case=None):
        me, txn = self.mk(c)
        return {'self': me, 'transaction': txn}

    def modifies(self, c, E):
        return {(c.ghost['tu2']['me'].id, '_storage')}

    def outcomes(self, c, E):
        g = c.ghost['tu2']

        def post(cc, E, r):
            fin = self.calls(cc, self.method)
            rel = self.calls(cc, 'release')
            return [('storage-%s-once-with-this-managers-data' % self.method,
                     len(fin) == 1 and len(fin[0][2]) == 1 and fin[0][2][0] is g['data']),
                    ('storage-instance-released-once-and-forgotten', len(rel) == 1 and
                     isinstance(cc.obj(g['me']).f['_storage'], VNone))]
        return [Outcome('done', post=post, result=lambda cc, E: NONE),
                Outcome('storage-fails', 'raise', 'builtins:Exception', post=post)]


class TUAbort(TUFinish):
    func = TU + '.tpc_abort'
    method = 'tpc_abort'


SPECS += [TUCommit, TUFinish, TUAbort]
INLINE += [TU + '.close']


# ======================================================================================
DECODED = z3.Function('tid_of_undo_id', Obj, I)


class FSUndo(WriteSpec):
    """FileStorage.undo(transaction_id, transaction): refused in read-only mode and for a transaction other than the one
    in progress, with nothing staged; otherwise the transaction NAMED BY THE ID (decoded, eight bytes) is looked up
    with the pack boundary as limit (_txn_find(tid, stop_at_pack)), its records are undone by _txn_undo_write at THAT
    position, the positions it staged are merged into the transaction index, and the answer is (tid of the undo
    transaction, oids undone) - the oids the MVCC undo adapter invalidates everywhere (proved in mvcc.py).
    _txn_find and _txn_undo_write are assumed call-site contracts here (the latter: refusal proved above, record loop
    bounded); base64 is uninterpreted."""
    func = 'ZODB.FileStorage.FileStorage:FileStorage.undo'
    props = ('C06',)
    cases = ('same', 'other', 'same-readonly')

    def setup(self, c, case=None):
        h, t = self.mk(c, case, read_only=(case == 'same-readonly'))
        c.ghost['fu'] = {'h': h, 'find': [], 'write': [], 'res': None}
        return {'self': h.self, 'transaction_id': c.fresh_opaque('undo_id'), 'transaction': t}

    def hooks(self, c):
        hk = WriteSpec.hooks(self, c)
        g = lambda cc: cc.ghost['fu']

        def decode(cc, interp, args, kwargs, node):
            t = cc.fresh_bytes(8, 'decoded_tid')
            g(cc)['decoded'] = t
            return t

        def binop(cc, op, a, b, node):
            if isinstance(a, VOpaque) and a.tag == 'undo_id':
                return a
            return None

        def txn_find(cc, args, kwargs, node):
            g(cc)['find'].append(tuple(args[1:]))
            if cc.choose([True, True], 'transaction-found') == 1:
                raise RaiseSig(VExc(UndoError))
            p = cc.fresh_int('tpos')
            cc.assume(z3.And(p.t >= 4, p.t < M.MAXPOS))
            g(cc)['tpos'] = p
            return p

        def undo_write(cc, args, kwargs, node):
            g(cc)['write'].append(tuple(args[1:]))
            if cc.choose([True, True], 'records-undoable') == 1:
                raise RaiseSig(VExc(UndoError))
            r = prims.new_map(cc, 'bytes8', 'int', 'undone_tindex')
            cc.roles.array(cc.obj(r).f['dom'], 'oid')
            cc.roles.array(cc.obj(r).f['val'], 'oid')
            g(cc)['res'] = r
            return r
        hk['prim:base64.decodebytes'] = decode
        hk['binop'] = binop
        hk['call:ZODB.FileStorage.FileStorage:FileStorage._txn_find'] = txn_find
        hk['call:ZODB.FileStorage.FileStorage:FileStorage._txn_undo_write'] = undo_write
        return hk

    def modifies(self, c, E):
        h = c.ghost['fu']['h']
        return {(h.tindex.id, 'dom'), (h.tindex.id, 'val'), (h.tindex.id, 'size'), (h.file.id, 'pos'),
                (h.tfile.id, '*')}

    def outcomes(self, c, E):
        g = c.ghost['fu']
        h = g['h']
        S = c.obj(h.self).f
        ro = S['_is_read_only'].t
        same = E['transaction'].t == S['_transaction'].t
        ti0 = dict(c.obj(h.tindex).f)

        def untouched(cc, E, x):
            ti = cc.obj(h.tindex).f
            return [('nothing-staged-nothing-looked-up', z3.And(ti['dom'] == ti0['dom'], ti['val'] == ti0['val'])),
                    ('no-lookup', not g['find'] and not g['write'])]

        def refused(cc, E, x):
            ti = cc.obj(h.tindex).f
            return [('transaction-index-untouched', z3.And(ti['dom'] == ti0['dom'], ti['val'] == ti0['val']))] + \
                lock_balanced(cc, E, h)

        def post(cc, E, r):
            ti = cc.obj(h.tindex).f
            out = [('looked-up-once-by-the-decoded-tid-with-the-pack-boundary-as-limit',
                    len(g['find']) == 1 and len(g['find'][0]) == 2 and g['find'][0][0] is g.get('decoded') and
                    isinstance(g['find'][0][1], VInt) and g['find'][0][1].conc() not in (None, 0)),
                   ('records-undone-once-at-the-position-found', len(g['write']) == 1 and len(g['write'][0]) == 1 and
                    g['write'][0][0] is g.get('tpos'))]
            res = g['res']
            if res is None:
                return out + [('undo-result-merged', False)]
            rf = cc.obj(res).f
            out += [('staged-positions-merged-into-the-transaction-index', All(['oid'], lambda q: z3.And(
                        z3.Select(ti['dom'], q) == z3.Or(z3.Select(ti0['dom'], q), z3.Select(rf['dom'], q)),
                        z3.Implies(z3.Select(rf['dom'], q), z3.Select(ti['val'], q) == z3.Select(rf['val'], q)),
                        z3.Implies(z3.And(z3.Select(ti0['dom'], q), z3.Not(z3.Select(rf['dom'], q))),
                                   z3.Select(ti['val'], q) == z3.Select(ti0['val'], q))))),
                    ('answers-(tid of this transaction, undone oids)', isinstance(r, VTuple) and len(r.items) == 2 and
                     r.items[0] is S['_tid'])]
            return out + lock_balanced(cc, E, h)
        live = z3.And(z3.Not(ro), same)
        return [Outcome('read-only', 'raise', ReadOnlyError, guard=ro, post=untouched),
                Outcome('wrong-transaction', 'raise', StorageTransactionError,
                        guard=z3.And(z3.Not(ro), z3.Not(same)), post=untouched),
                Outcome('undone', guard=live, post=post, result=lambda cc, E: cc.fresh_opaque('answer')),
                Outcome('refused', 'raise', UndoError, guard=live, post=refused)]


SPECS.append(FSUndo)
