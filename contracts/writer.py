"""C14 - ObjectWriter.persistent_id for persistent objects (the weak-reference branch and non-persistent values are
outside: bounded harness): HOW a reference is spelled decides where it leads when it is loaded, and what
referencesf extracts from the record (contracts/serialize_refs.py):

    target in this database,  class without __getnewargs__   ->  (oid, class)
    target in this database,  class with    __getnewargs__   ->  oid
    target in another database of the multi-database         ->  ['m', (database name, oid, class)]  /
                                                                 ['n', (database name, oid)]          (with newargs)

and: a NEW object (no oid yet) gets an oid from THIS connection, becomes this connection's and is queued for storing
("new objects are stored iff reachable"); an object of a foreign connection is refused unless it belongs to the
connection this one's multi-database hands out for that database name, and is not being created there.

Model: persistent objects as in contracts/connmodel.py (jar 0 = none, 1 = this connection, >= 2 another one); the
other connection / database are opaque with the attributes the code reads; type(obj) and hasattr(class,
'__getnewargs__') are uninterpreted (A-CLASS)."""
import z3

from pyvc import prims
from pyvc.contract import Outcome, Spec
from pyvc.engine import RaiseSig, Unsupported, bytes_num
from pyvc.values import (B, I, NONE, Obj, VBool, VBytes, VExc, VFunc, VNone, VOpaque, VRef, VStr, VTuple,
                         fresh_name)

from . import connmodel as CM
from .common import inst
from .connmodel import U, conninv, world

MOD = 'ZODB.serialize'
IOR = 'ZODB.POSException:InvalidObjectReference'
sel = z3.Select
prims.EXT_CLASSES.add('persistent.Persistent')
prims.EXT_CLASSES.add('persistent.wref.WeakRef')


class PersistentId(Spec):
    func = MOD + ':ObjectWriter.persistent_id'
    props = ('C14',)
    assumptions = CM.ASSUMPTIONS + ('A-CLASS: type(obj) and hasattr(type(obj), "__getnewargs__") are arbitrary but fixed '
                                    'per object; zodbpickle.binary(oid) is the oid',)

    def setup(self, c, case=None):
        w = CM.mk_conn(c)
        S = c.obj(w.self).f
        db = c.fresh_opaque('db')
        S['_db'] = db
        stack = c.new_obj('list', meta={'items': []})
        me = inst(c, MOD + ':ObjectWriter', _jar=w.self, _stack=stack)
        x = CM.fresh_pobj(c)
        c.ghost['pi'] = {'x': x, 'stack': stack, 'db': db, 'klass': c.fresh_opaque('klass'),
                         'newargs': z3.Bool(fresh_name('class_has_getnewargs')),
                         'otherjar': None, 'otherdb': c.fresh_opaque('otherdb'),
                         'dbname': c.fresh_opaque('other_database_name'),
                         'xrefs': z3.Bool(fresh_name('xrefs_allowed')),
                         'registered_db': z3.Bool(fresh_name('database_registered_under_that_name')),
                         'its_connection': z3.Bool(fresh_name('object_belongs_to_the_connection_for_that_name')),
                         'being_created_there': z3.Bool(fresh_name('being_created_in_the_other_connection'))}
        return {'self': me, 'obj': x}

    def requires(self, c, E):
        return list(conninv(c, world(c)))

    def hooks(self, c):
        hk = {}
        CM.install_hooks(c, hk)
        g = lambda cc: cc.ghost['pi']
        base_attr, base_meth = hk.get('opaque_attr'), hk.get('opaque_method')

        def isinst(cc, v, clsname):
            if v.tag == 'pobj':
                return clsname.endswith('Persistent')
            if v.tag in ('klass',):
                return False
            return None

        def oattr(cc, v, name, node):
            if v.tag == 'pobj' and name == '_p_jar':
                r = base_attr(cc, v, name, node)
                if isinstance(r, VOpaque) and r.tag == 'otherjar':
                    if g(cc)['otherjar'] is None:
                        g(cc)['otherjar'] = r
                    return g(cc)['otherjar']
                return r
            if v.tag == 'db':
                if name == 'xrefs':
                    return VBool(g(cc)['xrefs'])
                if name == 'databases':
                    return cc.ghost.setdefault('pi_dbs', cc.fresh_opaque('databases'))
                if name == 'database_name':
                    return cc.ghost.setdefault('pi_myname', cc.fresh_opaque('my_database_name'))
            if v.tag == 'otherdb' and name == 'database_name':
                return g(cc)['dbname']
            return base_attr(cc, v, name, node) if base_attr else None

        def ometh(cc, v, name, args, kwargs, node):
            if v.tag == 'otherjar' and name == 'db':
                return g(cc)['otherdb']
            if v.tag == 'otherjar' and name == '_implicitlyAdding':
                return VBool(g(cc)['being_created_there'])
            if v.tag == 'databases' and name == 'get':
                # identity test against otherdb follows: hand out otherdb iff it is registered under that name
                if cc.choose([g(cc)['registered_db'], z3.Not(g(cc)['registered_db'])], 'registered') == 0:
                    return g(cc)['otherdb']
                o2 = cc.fresh_opaque('some_other_db')
                cc.assume(o2.t != g(cc)['otherdb'].t)
                return o2
            return base_meth(cc, v, name, args, kwargs, node) if base_meth else None

        def get_connection(cc, args, kwargs, node):
            if cc.choose([g(cc)['its_connection'], z3.Not(g(cc)['its_connection'])], 'its-connection') == 0:
                return g(cc)['otherjar']
            c2 = cc.fresh_opaque('another_connection')
            if g(cc)['otherjar'] is not None:
                cc.assume(c2.t != g(cc)['otherjar'].t)
            return c2

        def new_oid(cc, args, kwargs, node):
            w = world(cc)
            u = U(cc, w)
            o = cc.fresh_bytes(8, 'new_oid')
            n = bytes_num(cc, o)
            # a fresh id: no object of this connection has it (C20)
            from pyvc.ground import All
            cc.assume(All(['obj'], lambda y: z3.Implies(sel(u['jar'], y) == 1, sel(u['oid'], y) != n)))
            cc.ghost['pi']['new_oid'] = n
            return o

        def type_(cc, interp, args, kwargs, node):
            return g(cc)['klass']

        def hasattr_(cc, interp, args, kwargs, node):
            if isinstance(args[0], VOpaque) and args[0].tag == 'klass':
                return VBool(g(cc)['newargs'])
            if isinstance(args[0], VBytes):
                return VBool(False)
            return None
        hk.update({'opaque_isinstance': isinst, 'opaque_attr': oattr, 'opaque_method': ometh,
                   'call:ZODB.Connection:Connection.get_connection': get_connection,
                   'call:ZODB.Connection:Connection.new_oid': new_oid,
                   'construct:builtins:type': type_, 'prim:builtins.hasattr': hasattr_,
                   'prim:zodbpickle.binary': lambda cc, interp, a, k, n: a[0],
                   'opaque_is_none': lambda cc, v: False})
        return hk

    def modifies(self, c, E):
        w = world(c)
        return {(w.objects.id, k) for k in ('oid', 'jar', 'serial', 'changed')} | {(c.ghost['pi']['stack'].id, '*')} | \
            {(w.storage.id, 'calls')}

    def outcomes(self, c, E):
        w = world(c)
        g = c.ghost['pi']
        u0 = dict(U(c, w))
        x = g['x'].t
        jar0, oid0 = sel(u0['jar'], x), sel(u0['oid'], x)
        is_new = oid0 < 0
        mine = z3.Or(is_new, jar0 == 1)
        foreign = z3.And(z3.Not(is_new), jar0 != 1)
        acceptable = z3.And(jar0 >= 2, g['xrefs'], g['registered_db'], g['its_connection'],
                            z3.Not(g['being_created_there']))

        def spelled(cc, E, r):
            u1 = U(cc, w)
            oid_now = sel(u1['oid'], x)
            items = cc.obj(g['stack']).meta.get('items', [])
            queued = len(items) == 1 and isinstance(items[0], VOpaque) and items[0].t.eq(x)
            out = [('new-object.gets-an-oid-of-this-connection-and-is-queued-for-storing', z3.Implies(is_new, z3.And(
                        z3.BoolVal(queued), sel(u1['jar'], x) == 1, oid_now >= 0,
                        oid_now == (g['new_oid'] if 'new_oid' in g else -2)))),
                   ('known-object.untouched-and-nothing-queued', z3.Implies(z3.Not(is_new), z3.And(
                       z3.BoolVal(not items), oid_now == oid0, sel(u1['jar'], x) == jar0)))]
            from pyvc.ground import All
            out.append(('every-other-object-untouched', All(['obj'], lambda y: z3.Implies(y != x, z3.And(
                *[sel(u1[k], y) == sel(u0[k], y) for k in ('oid', 'jar', 'serial', 'changed')])))))

            def is_oid(v):
                return bytes_num(cc, v) == oid_now if isinstance(v, VBytes) and v.conc_len() == 8 else False
            # classify the value returned
            if isinstance(r, VBytes):
                form = ('oid', is_oid(r))
            elif isinstance(r, VTuple) and len(r.items) == 2:
                form = ('oid-class', z3.And(is_oid(r.items[0]), z3.BoolVal(r.items[1] is g['klass'])))
            elif isinstance(r, VRef) and cc.obj(r).kind == 'list' and len(cc.obj(r).meta.get('items', [])) == 2:
                tag, body = cc.obj(r).meta['items']
                t = tag.s if isinstance(tag, VStr) else None
                b = body.items if isinstance(body, VTuple) else []
                if t == 'm' and len(b) == 3:
                    form = ('m', z3.And(z3.BoolVal(b[0] is g['dbname'] and b[2] is g['klass']), is_oid(b[1])))
                elif t == 'n' and len(b) == 2:
                    form = ('n', z3.And(z3.BoolVal(b[0] is g['dbname']), is_oid(b[1])))
                else:
                    form = ('?', z3.BoolVal(False))
            else:
                form = ('?', z3.BoolVal(False))
            want = {'oid-class': z3.And(mine, z3.Not(g['newargs'])), 'oid': z3.And(mine, g['newargs']),
                    'm': z3.And(foreign, z3.Not(g['newargs'])), 'n': z3.And(foreign, g['newargs'])}
            out.append(('reference-well-formed (names the object, its class, its database)', form[1]))
            out.append(('spelling-%s-exactly-for-its-case (same/other database, class with/without __getnewargs__)'
                        % form[0], want.get(form[0], z3.BoolVal(False))))
            out.append(('foreign-object-accepted-only-through-the-multi-database', z3.Implies(foreign, acceptable)))
            return out
        return [Outcome('reference', post=spelled, result=lambda cc, E: cc.fresh_opaque('reference')),
                Outcome('refused', 'raise', IOR, guard=z3.And(foreign, z3.Not(acceptable)),
                        post=lambda cc, E, x_: [('nothing-queued', not cc.obj(g['stack']).meta.get('items'))])]


SPECS = [PersistentId]
INLINE = ['ZODB.Connection:Connection.db']


# ======================================================================================
MARKER = VOpaque(z3.Const('WeakRefMarker', Obj), 'wrefmarker')
prims.EXT_CONSTS['persistent.wref.WeakRefMarker'] = MARKER


class PersistentIdWeak(PersistentId):
    """ObjectWriter.persistent_id for a persistent weak reference: the reference written names the oid of the TARGET -
    taken from the target when the weak reference has none yet - and is spelled ['w', (oid,)] when the target lives in
    this connection's database, ['w', (oid, database name)] otherwise; a target that is still NEW gets an oid of this
    connection, becomes this connection's object AND is queued for storing: the stored weak reference must lead to an
    object that exists (C14: "every reference ... leads to the object with the same id"; the code says so itself)."""
    func = MOD + ':ObjectWriter.persistent_id'
    label = 'weakref'
    callable_contract = False

    def setup(self, c, case=None):
        a = PersistentId.setup(self, c, case)
        g = c.ghost['pi']
        g['wref'] = c.fresh_opaque('wref')
        g['target'] = g['x']
        g['w_attrs'] = {}
        return {'self': a['self'], 'obj': g['wref']}

    def hooks(self, c):
        hk = PersistentId.hooks(self, c)
        g = lambda cc: cc.ghost['pi']
        base_attr, base_isinst, base_set = hk['opaque_attr'], hk['opaque_isinstance'], hk.get('opaque_setattr')
        base_hasattr = hk['prim:builtins.hasattr']

        def isinst(cc, v, clsname):
            if v.tag == 'wref':
                return clsname.endswith('WeakRef')
            if v.tag == 'wrefmarker':
                return False
            return base_isinst(cc, v, clsname)

        def oattr(cc, v, name, node):
            if v.tag == 'wref':
                if name == '_p_oid':
                    return MARKER
                a = g(cc)['w_attrs']
                if name in a:
                    return a[name]
                if name == 'oid':
                    # a weak reference made in this process has no oid until it is pickled for the first time
                    if cc.choose([True, True], 'weakref-has-an-oid') == 0:
                        a['oid'] = NONE
                    else:
                        a['oid'] = cc.fresh_bytes(8, 'wref_oid')
                        a['dm'] = [world(cc).self, cc.fresh_opaque('otherjar')][cc.choose([True, True], 'wref-dm')]
                        a['database_name'] = cc.fresh_opaque('wref_database_name')
                        g(cc)['loaded_wref'] = True
                    return a['oid']
                raise Unsupported('weakref attribute %s before it is set' % name, node)
            return base_attr(cc, v, name, node)

        def osetattr(cc, v, name, val, node):
            if v.tag == 'wref':
                g(cc)['w_attrs'][name] = val
                return True
            return base_set(cc, v, name, val, node) if base_set else None

        def ocall(cc, v, args, kwargs, node):
            if v.tag == 'wref':
                return g(cc)['target']
            return None

        def hasattr_(cc, interp, args, kwargs, node):
            if isinstance(args[0], VOpaque) and args[0].tag == 'wrefmarker':
                return VBool(False)
            return base_hasattr(cc, interp, args, kwargs, node)
        hk.update({'opaque_isinstance': isinst, 'opaque_attr': oattr, 'opaque_setattr': osetattr,
                   'opaque_call': ocall, 'prim:builtins.hasattr': hasattr_})
        return hk

    def outcomes(self, c, E):
        w = world(c)
        g = c.ghost['pi']
        u0 = dict(U(c, w))
        x = g['target'].t
        jar0, oid0 = sel(u0['jar'], x), sel(u0['oid'], x)

        def post(cc, E, r):
            from pyvc.ground import All
            u1 = U(cc, w)
            a = g['w_attrs']
            items = cc.obj(g['stack']).meta.get('items', [])
            ok = isinstance(r, VRef) and cc.obj(r).kind == 'list' and len(cc.obj(r).meta.get('items', [])) == 2
            out = [('returns-a-weak-reference-spelling', ok)]
            if not ok:
                return out
            tag, body = cc.obj(r).meta['items']
            b = body.items if isinstance(body, VTuple) else []
            out.append(('tagged-w', isinstance(tag, VStr) and tag.s == 'w' and len(b) in (1, 2)))
            if not b or not isinstance(b[0], VBytes):
                return out + [('names-an-oid', False)]
            named = bytes_num(cc, b[0])
            if g.get('loaded_wref'):
                # a weak reference that already knows its target: written as it is, nothing else happens
                out += [('known-target.names-the-oid-the-reference-holds', named == bytes_num(cc, a['oid'])),
                        ('known-target.nothing-queued-nothing-touched', z3.And(z3.BoolVal(not items), *[
                            u1[k] == u0[k] for k in ('oid', 'jar', 'serial', 'changed')]))]
            else:
                queued = len(items) == 1 and isinstance(items[0], VOpaque) and items[0].t.eq(x)
                out += [('names-the-oid-of-the-target', named == sel(u1['oid'], x)),
                        ('new-target.gets-an-oid-of-this-connection-AND-is-queued-for-storing', z3.Implies(
                            oid0 < 0, z3.And(z3.BoolVal(queued), sel(u1['jar'], x) == 1, sel(u1['oid'], x) >= 0))),
                        ('stored-target.untouched-and-nothing-queued', z3.Implies(oid0 >= 0, z3.And(
                            z3.BoolVal(not items), sel(u1['oid'], x) == oid0, sel(u1['jar'], x) == jar0))),
                        ('every-other-object-untouched', All(['obj'], lambda y: z3.Implies(y != x, z3.And(
                            *[sel(u1[k], y) == sel(u0[k], y) for k in ('oid', 'jar', 'serial', 'changed')])))),
                        ('the-reference-remembers-oid-and-data-manager-of-the-target',
                         isinstance(a.get('oid'), VBytes) and 'dm' in a and 'database_name' in a)]
            dm = a.get('dm')
            here = isinstance(dm, VRef) and dm.id == w.self.id
            out.append(('database-name-written-exactly-when-the-target-lives-elsewhere',
                        (len(b) == 1) if here else (len(b) == 2 and b[1] is a.get('database_name'))))
            return out
        return [Outcome('reference', post=post, result=lambda cc, E: cc.fresh_opaque('reference')),
                Outcome('target-without-connection', 'raise', 'builtins:AttributeError')]


VARIANTS = [PersistentIdWeak]
