"""Per-property configuration of the checks (modules with contracts, lemmas, bounded stand-ins)."""

PROPS = {
    'C19': {
        'modules': ['contracts.fsindex'],
        'lemmas': ['contracts.fsindex:lemma_order'],
        'level': 'proof',
        'bounded': [
            {'func': 'ZODB.fsIndex:fsIndex.<bulk-and-sequences>',
             'bound': 'keys = {0,1,2,2^48-1} x {0,1,0xffff}; all contents of <=3 keys (thorough: <=4) for '
                      '__len__/__iter__/keys/items/values/iteritems/itervalues/update/save+load/'
                      'getstate+setstate; 300 (thorough: 3000) random 12-operation sequences, seed VERIF_SEED'},
        ],
        'assumptions': [],
        'explanation': 'fsIndex point operations and bounded min/max queries proved against the '
                       'sorted-map view for all keys and all index contents; iteration, len and '
                       'save/load only bounded (labelled)',
    },
}
