"""Per-property configuration of the checks (modules with contracts, lemmas, bounded stand-ins,
manifest texts).  `./check <ID>` reads this; tools/gen_manifest.py renders MANIFEST.json from it."""

FS_MODULES = ['contracts.fs_format', 'contracts.fs_load', 'contracts.blobmodel',
              'contracts.fs_write', 'contracts.fs_open', 'contracts.fs_index_files']

TECH = ('contract-based deductive verification: own ast->z3 VC generator (pyvc) over the real source + '
        'sidecar contracts, ground quantifier instantiation, native replay of counter-models')

PROPS = {
    'C19': {
        'modules': ['contracts.fsindex', 'contracts.fs_format', 'contracts.fs_iter', 'contracts.fsindex_io'],
        'lemmas': ['contracts.fsindex:lemma_order'],
        'level': 'proof',
        'bounded': [
            {'func': 'ZODB.fsIndex:fsIndex.<bulk-and-sequences>',
             'bound': 'keys = {0,1,2,2^48-1} x {0,1,0xffff}; all contents of <=3 keys (thorough: <=4) for '
                      '__len__/__iter__/keys/items/values/iteritems/itervalues/update/save+load/'
                      'getstate+setstate; 300 (thorough: 3000) random 12-operation sequences, seed VERIF_SEED'},
        ],
        'text': 'Every point operation of fsIndex (get, [], []=, del, in, has_key, clear) and the bounded '
                'min/max queries are proved, for all 8-byte keys and all index contents, to agree with a '
                'sorted dictionary over the abstract view (whole-view postconditions + representation '
                'invariant); FileStorage.record_iternext proved to return the smallest oid of the index not below `next` and the '
                'smallest one after it (or None); fsIndex.save proved to write the position first, every prefix once with ITS '
                'bucket packed, and the end marker last; fsIndex.load proved to give every pair a bucket of its own unpacked '
                'from that pair and to return only after the end marker (a cut stream raises); iteration, len and the byte '
                'level of the pickles only by a labelled bounded stand-in.',
        'note': 'Trusted: pyvc and z3; BTrees OOBTree/fsBucket assumed sorted finite maps (C code); bucket '
                'ownership A-BUCKET-OWN; mathematical ints; struct layout. Bounded part: <=3 keys of a 12-key scope.',
        'design_ref': 'DESIGN.md section 5 C19',
    },
    'C20': {
        'modules': FS_MODULES + ['contracts.pack_swap', 'contracts.demostorage', 'contracts.mappingstorage'],
        'lemmas': ['contracts.lemmas:lemma_c20_fresh'],
        'level': 'proof',
        'bounded': [
            {'func': 'ZODB.BaseStorage:BaseStorage.new_oid<sessions>',
             'bound': 'one scripted session on FileStorage (allocate, store, restore ids 0x1fe/0x2ff/0x100ff, '
                      'abort, reopen, pack) with 300+ allocations; allocations BETWEEN restore of adjacent ids and the vote; '
                      '50 allocations on MappingStorage and DemoStorage; DemoStorage: id issued, stored, aborted, '
                      'then a scripted random redraw landing on it'},
        ],
        'text': 'new_oid is proved to return old counter + 1 and to advance the counter, reading and writing it '
                'inside one critical section of the storage lock; store is proved to raise the counter to any '
                'larger stored oid; read_index is proved to return an oid >= every key of the rebuilt index; '
                'FileStorage.pack is proved (frame, every path) not to touch the counter when it installs the packed index; '
                'lemma C20.fresh: under OIDINV (counter >= every present or issued id) the result is fresh. '
                'FileStorage.restore proved to raise the counter to a larger restored oid AT ONCE (before the vote); '
                'DemoStorage.new_oid proved to return an id with no revision in either layer and not issued before, and '
                'tpc_abort / tpc_finish to keep the issued set (an aborted store does not free an id). '
                'MappingStorage.new_oid proved like FileStorage\'s (old counter + 1, under the lock); that MappingStorage keeps '
                'its counter above stored ids: bounded.',
        'note': 'Thread schedules are reduced to lock ownership (T3). Termination of DemoStorage\'s random probing is '
                'not proved.',
        'design_ref': 'DESIGN.md section 5 C20',
    },
    'C04': {
        'modules': FS_MODULES + ['contracts.demostorage', 'contracts.mappingstorage', 'contracts.fs_iter'],
        'thorough_env': {'PYVC_INDEX_PROOF': '1'},
        'lemmas': ['contracts.fs_load:lemma_extremal', 'contracts.lemmas:lemma_header_roundtrip'],
        'level': 'proof',
        'bounded': [
            {'func': 'ZODB.FileStorage.FileStorage:FileStorage<queries-after-histories>',
             'bound': '2 fixed + 6 (thorough: 40) random histories of <=5 transactions over 5 oids (seed VERIF_SEED); '
                      'after every commit: load/getTid/loadBefore at every tid boundary/loadSerial/history/'
                      'iterator/lastTransaction against the model; iterator(start, stop) for every pair of tid '
                      'boundaries, also with a transaction voted but unfinished and through a read-only open of a '
                      'copy with a torn tail; after abort; after close+reopen with and without index file; tid '
                      'monotonicity with clock behind the data; the first 6 (thorough: 42) histories also on a '
                      'MappingStorage with the same queries after every commit'},
        ],
        'text': 'FileStorage load/loadSerial/loadBefore/getTid/_loadBack_impl are proved, for all oids, tids and '
                'file contents satisfying the representation invariant, to return exactly the revision the '
                'prev/back-pointer chains define (lemma: first-below along a strictly decreasing chain = '
                'greatest tid below, successor = least tid not below); record and transaction header codecs '
                'proved inverse; store/deleteObject proved to stage the exact record image; tpc_begin proved '
                'to choose a tid later than every earlier one whatever the clock returns; read_index proved to '
                'return the committed end and the tid of the last accepted transaction; thorough tier only: '
                'read_index proved to rebuild the index as "every oid -> its LAST record below the committed end" '
                '(nested-loop invariant over the record tiling); MappingStorage.loadBefore and DemoStorage.loadBefore proved '
                'against ordered-map / two-layer models (greatest revision strictly below the bound, least one at or above '
                'as end); MappingStorage.tpc_begin proved to choose a tid later than every committed transaction (newTid: A-TIMESTAMP); '
                'MappingStorage.getTid (newest revision) and loadSerial (exactly the revision with that tid, else '
                'POSKeyError) proved against the same ordered-map model; FileIterator._scan_forward/_scan_backward proved '
                'to stop at the first transaction with tid >= start.',
        'note': 'RI (chains) is assumed by the query contracts; its preservation by finish is argued by lemma over '
                'the store/vote/finish postconditions only in part; the record iterator, history/undoLog, '
                'MappingStorage.history/iterator/tpc_finish and (quick tier) the index rebuilt by read_index are covered by the bounded stand-in only.',
        'design_ref': 'DESIGN.md section 5 C04',
    },
    'C01': {
        'modules': FS_MODULES,
        'lemmas': ['contracts.lemmas:lemma_c01_crash'],
        'level': 'proof',
        'bounded': [
            {'func': 'ZODB.FileStorage.FileStorage:FileStorage<crash-images>',
             'bound': '2 (thorough: 3) scripted histories with commits, aborts before/after vote, repeated oid; '
                      'every prefix of the raw write/truncate sequence and up to 40 torn cuts per write; each '
                      'image reopened with the real FileStorage'},
        ],
        'text': 'Crash-Hoare obligations: after every write/truncate that tpc_vote, _finish and _abort issue to '
                'the data file, and for every torn prefix (symbolic cut length), the OS image keeps the committed '
                'prefix and its tail is ignorable (short header / checkpoint flag / overlong length) or - only '
                'after the one-byte status flip - a complete transaction; _finish_finish proved to flush then '
                'fsync before position, index and last tid are published; tpc_finish proved not to return with '
                'unsynced data; read_index proved to stop at the first ignorable boundary, cut the tail (unless '
                'read-only) and never panic on a well-formed image; lemma C01.crash ties the two.',
        'note': 'In-order write model (T4): a crash image is a prefix of the write sequence; OS reordering of '
                'unsynced pages is outside (as in the property). One-byte write atomic.',
        'design_ref': 'DESIGN.md section 5 C01',
    },
    'C05': {
        'modules': FS_MODULES + ['contracts.mappingstorage'],
        'lemmas': ['contracts.lemmas:lemma_c05_noleak'],
        'level': 'proof',
        'bounded': [
            {'func': 'ZODB.FileStorage.FileStorage:FileStorage<aborts-and-faults>',
             'bound': 'abort after begin/store/vote x payload {3 B, 70 kB}; every raw write of tpc_vote failing '
                      'after {0,1,17,1000} bytes; wrong-transaction calls; state, file bytes, lock and next '
                      'transaction checked'},
        ],
        'text': 'Exceptional postconditions: tpc_vote with single-fault injection at every primitive write/flush '
                '(partial write prefix symbolic) leaves the file cut at the committed end, reader buffers '
                'dropped, locks balanced; store/deleteObject/tpc_vote/tpc_finish/tpc_abort with a foreign '
                'transaction proved without effect; tpc_begin proved to leave LOCKINV (lock held <=> transaction '
                'recorded) also when metadata is over-long; tpc_abort proved to restore file end, staging, blob '
                'dirty list and to release the commit lock; tpc_finish releases it on every path; MappingStorage.tpc_abort '
                'proved to forget its own transaction and free the commit lock, and to change nothing for a foreign one; '
                'MappingStorage.tpc_begin proved to refuse a duplicate call without effect, to take the commit lock outside '
                'the storage lock and to leave LOCKINV with an empty staging area; MappingStorage.tpc_vote/tpc_finish '
                'for a foreign transaction proved refused without effect and before the finish callback runs.',
        'note': 'Single fault (a second failure inside a cleanup handler is outside). MappingStorage.'
                'tpc_finish for its OWN transaction: not under contract; DemoStorage/BlobStorage wrappers: see C16/C13. Connection-level cleanup: C11.',
        'design_ref': 'DESIGN.md section 5 C05',
    },
    'C03': {
        'modules': FS_MODULES + ['contracts.demostorage', 'contracts.conflict', 'contracts.connection',
                                 'contracts.mappingstorage', 'contracts.basestorage'],
        'lemmas': [],
        'level': 'proof',
        'bounded': [
            {'func': 'ZODB:<storages>.store<conflict-scenarios>',
             'bound': 'file/mapping/demo storage x {stale writer, current writer, stale after removal, '
                      'readCurrent on changed object}; connection level on file and demo storage: resolvable counter whose '
                      'base revision is packed away while the writer\'s transaction is open; readCurrent + concurrent '
                      'change with no / an earlier-savepoint / a pre-join-savepoint rollback before the commit'},
        ],
        'text': 'FileStorage.store proved: normal exit only if the object is new, or the caller\'s serial equals '
                'the tid of the current committed record, or the stored data is the resolver\'s result for '
                '(oid, committed serial, old serial, data) and the oid is reported; ConflictError leaves staging '
                'untouched; deleteObject likewise; the commit lock is held from tpc_begin to finish/abort; '
                'tryToResolveConflict proved to hand the resolver the state of the revision the WRITER STARTED FROM '
                '(loadSerial(oid, oldSerial)) - a revision that cannot be loaded ends in ConflictError, never in a merge '
                'against another base; Connection.commit proved to check every remaining readCurrent oid, and '
                'Connection._abort (also run by savepoint rollbacks) proved to keep the declared read dependencies; '
                'Connection.readCurrent proved to record the oid with the serial the connection holds; '
                'BaseStorage.checkCurrentSerialInTransaction proved to return normally only if the committed tid equals the '
                'serial read (else ReadConflictError naming both); MappingStorage.store proved to accept only a new object '
                'or the newest tid as serial (ordered-map model of its BTrees); MappingStorage.getTid proved to return the tid of '
                'the newest revision.',
        'note': 'DemoStorage.store: proved under C16. getTid of DemoStorage (A-GETTID): bounded only. '
                'Schedules beyond lock ownership not explored.',
        'design_ref': 'DESIGN.md section 5 C03',
    },
}

PROPS['C12'] = {
    'modules': ['contracts.fs_format', 'contracts.tmpstore', 'contracts.connection'],
    'lemmas': ['contracts.tmpstore:lemma_roundtrip'],
    'level': 'proof',
    'bounded': [
        {'func': 'ZODB.Connection:Connection<savepoint-programs>',
         'bound': '6 fixed + 150 (thorough: 2000) random programs of <=14 steps (modify, add, savepoint, rollback '
                  'to any live savepoint, commit, abort) checked against a model after every step; conflict during '
                  'the commit of savepoint data with and without savepoint'},
    ],
    'text': 'The savepoint store is proved at byte level: TmpStore.store writes exactly the entry image and '
            'indexes it, load returns exactly the stored (data, serial) for every indexed oid under TMPINV and '
            'delegates otherwise, reset cuts the file at the savepoint position and installs index and creating '
            'maps EQUAL TO AND NOT ALIASED WITH the savepoint\'s (ownership of the immutable state tuple); lemma: '
            'load after store is the identity. Over the ghost universe of persistent objects (C11 model): '
            'Connection._rollback_savepoint proved - registered objects aborted, objects created after the savepoint '
            'disowned, every cached object with a record written at or after the saved position a ghost, every object '
            'not concerned untouched, the savepoint storage reset to the saved state (an invalidation that is exact '
            'about positions verifies, an off-by-one does not); Connection._commit_savepoint proved - on EVERY exit back on '
            'the real storage with the savepoint storage closed and every created object listed in _creating and every '
            'index oid in _modified, on normal return every index oid stored in this transaction; Connection.savepoint '
            'proved - loads and stores redirected to the temporary store (built over the normal storage at the first '
            'savepoint), the current changes stored through _commit, the connection\'s creating set and registered list '
            'emptied, the Savepoint given (position, COPY of the index, COPY of the creating set).',
    'note': 'The Savepoint classes, blob files inside savepoints and the interplay '
            'with cacheGC are covered by the bounded program harness only (labelled), not proved. TmpStore.reset/load/'
            'close are used through their contracts (A-PERSISTENT, A-PICKLECACHE, CONNINV assumed as in C11).',
    'design_ref': 'DESIGN.md section 5 C12',
}

PROPS['C16'] = {
    'modules': ['contracts.fs_format', 'contracts.demostorage'],
    'lemmas': [],
    'level': 'proof',
    'bounded': [
        {'func': 'ZODB.DemoStorage:DemoStorage<layer-combinations>',
         'bound': '{mapping,file} base x {mapping,file} changes x 2 base histories x 3 demo histories (<=3 commits): '
                  'loadBefore at every boundary, loadSerial, getTid, lastTransaction against the changes-over-base '
                  'model; stale writer; 20 id allocations with a store in flight; base dump before/after; refused '
                  'tpc_begin; a base written with the clock one day ahead (tid order across the layers)'},
    ],
    'text': 'DemoStorage is proved once against the IStorage interface contract of BOTH layers (abstract revision '
            'sets, so for every combination of storage kinds): loadBefore returns the greatest revision below the '
            'bound of the UNION of the layers with the least revision not below as end (including the loop that '
            'finds the first change), store compares the serial with the merged current revision and hands the '
            'resolver (oid, merged serial, caller serial, data), new_oid returns an id with no revision in either '
            'layer and not issued before, tpc_begin/abort/finish keep LOCKINV and involve only the changes layer; '
            'every path is shown to call only read-only methods on the base; history proved to be the changes\' entries '
            'followed by the base\'s, cut at the requested size; an aborted store leaves the ids handed out remembered as '
            'issued.',
    'note': 'Assumes A-ISTORAGE for the two layers (incl. that a tid given to tpc_begin becomes the tid of the '
            'transaction) and A-TIMESTAMP for utils.newTid. LAYER_ORDER (base tids < changes tids) is assumed of the '
            'state and proved to be ESTABLISHED for every new transaction by tpc_begin (finding F9, fixed). Termination '
            'of new_oid probing, undo/pack/blob delegation and push/pop: bounded or not covered.',
    'design_ref': 'DESIGN.md section 5 C16',
}

PROPS['C02'] = {
    'modules': FS_MODULES + ['contracts.mvcc', 'contracts.mappingstorage', 'contracts.connection'],
    'lemmas': ['contracts.mvcc:lemma_frames', 'contracts.mvcc:lemma_snapshot'],
    'level': 'proof',
    'bounded': [
        {'func': 'ZODB.DB:DB<multi-connection-programs>',
         'bound': 'mapping and file storage x (3 fixed + 60 (thorough: 600) random) sequential programs of <=16 steps '
                  'over 3 connections / 3 objects (read, write, commit, abort, close+reopen from the pool) against a '
                  'snapshot model; the fixed and the first 20 random programs again with a FROZEN wall clock (adjacent tids: '
                  'last + 1 = the exclusive bound); NO thread schedules'},
    ],
    'text': 'Sequential contracts + lock ownership + call ordering: poll_invalidations proved to set the snapshot '
            'bound to max(storage last tid, delivered tid)+1 and to drain the pending set (or recreate it for the '
            'flush signal) inside ONE critical section of the instance lock; the bound is assigned nowhere else '
            '(module-wide frame); load proved to be loadBefore(oid, bound); _invalidate proved to record tid and '
            'oids under the lock; tpc_finish of the MVCC instance and of FileStorage proved to deliver invalidations '
            'to every other registered instance from inside the storage\'s finish, before the data becomes loadable '
            'and inside the reader pool\'s write lock; _abort proved to drop pooled reader buffers; newTransaction '
            'proved to apply the polled invalidations (or flush the whole cache) before returning; the MVCC instance\'s '
            'store and storeBlob proved to add the oid to the set invalidated at finish; MappingStorage.loadBefore proved '
            '(over an ordered-map model of its BTrees) to return the greatest revision STRICTLY below the exclusive bound '
            'and the least one at or above it as end; Connection.open proved to take the caller\'s transaction manager, to '
            'reset the cache first if resetCaches() was called, to cross a boundary (newTransaction) unless the manager is '
            'explicit, and to REGISTER the connection for the manager\'s later boundaries; afterCompletion proved to be a '
            'boundary in implicit mode; Connection.setstate proved to take state AND serial of an object from ONE load '
            'through the connection\'s storage (and a Blob\'s committed file under the same oid and serial); '
            'Connection._commit_savepoint proved to list every oid of the savepoint index as modified BEFORE the first '
            'store, so that a conflict half-way still lets the abort forget every cached state of the transaction.',
    'note': 'NOT covered: the schedule quantifier. Lock-protected regions are treated as atomic (T3); a breakage '
            'visible only as a race that keeps every sequential contract and lock-ownership obligation true is not '
            'detected by this family. The instance registry is unrolled with three members. FilePool is an assumed '
            'contract (ghost stale flag).',
    'design_ref': 'DESIGN.md section 5 C02',
}
PROPS['C15'] = {
    'modules': ['contracts.fs_format', 'contracts.demostorage', 'contracts.mvcc', 'contracts.mappingstorage',
                'contracts.connection'],
    'lemmas': ['contracts.mvcc:lemma_frames', 'contracts.mvcc:lemma_snapshot'],
    'level': 'proof',
    'bounded': [
        {'func': 'ZODB.DB:DB.open<historical-points>',
         'bound': 'mapping and file storage; 10 commits with a controlled clock; every point opened as at=tid, '
                  'before=tid+1, naive-UTC datetime, aware datetime +05:30 / -08:00; connections held across later '
                  'commits with emptied caches and re-opened from the pool; commit refused; future points refused (far future, '
                  'one hour ahead, and - with the clock a day later - stamp-after-last + 1, last + 1 as at); the two '
                  'largest accepted bounds open; two databases: cross-database reference followed from a historical '
                  'connection (partner bound, partner read-only, partner database idle since)'},
    ],
    'text': 'getTID proved: at (8 bytes) maps to the next stamp after at, before to itself, both to ValueError, '
            'datetimes are converted through their UTC time tuple and then treated exactly like raw tids (at: the next '
            'stamp after the moment, before: the moment itself); the historical adapter (built by running its '
            'real constructor) proved to load exactly loadBefore(oid, before)[:2] with POSKeyError for None, to '
            'report no invalidations, and new_oid/pack/store to raise ReadOnlyError; the bound is assigned only in '
            'the constructor (module-wide frame); lemma: commits made later have tids not below the bound; DB.open proved '
            'to refuse (ValueError, nothing opened) EXACTLY the bounds greater than the newest tid and than the stamp '
            'following it, and otherwise to hand out a connection constructed with / pooled under the normalised bound, '
            'opened with the caller\'s transaction manager, pools touched under the database lock; '
            'Connection.get_connection proved to open partner databases with the same transaction manager at the same '
            'historical moment (own bound, or just after the partner\'s newest transaction) and never with a bound the '
            'partner refuses as future (finding F27, fixed); Connection.__init__ proved to read through '
            'before_instance(bound) for exactly the bound it reports as .before (new_instance() for a live one), '
            'MVCCAdapter.before_instance to build the historical adapter over its own storage at that bound, and '
            'Connection._commit to refuse with ReadOnlyHistoryError before anything is handed to the storage.',
    'note': 'The pool classes themselves are covered by the bounded harness only (opaque objects with '
            'pop/push/availableGC in the DB.open contract). TimeStamp '
            'and utils.newTid are assumed contracts (A-TIMESTAMP).',
    'design_ref': 'DESIGN.md section 5 C15',
}

PROPS['C09'] = {
    'modules': FS_MODULES + ['contracts.fsindex_io'],
    'lemmas': ['contracts.fs_index_files:lemma_readonly_guards'],
    'level': 'proof',
    'bounded': [
        {'func': 'ZODB.FileStorage.FileStorage:FileStorage.__init__<index-variants>',
         'bound': '3 histories (one ending in empty transactions, one with a pack); index saved at every close point '
                  '(also before the pack); every truncation of each saved index (all lengths for <=400 bytes, else '
                  '~100 sampled); leftover .index_tmp/.pack/.old; read-only opens of clean / voted-unfinished / torn '
                  'files with directory snapshot and every mutator called'},
    ],
    'text': '_sane proved TOTAL: for every file content and every saved (index, pos) it returns 0 or a tid and '
            'raises nothing (each seek offset and short read inside _check_sanity is an exceptional outcome that '
            '_sane must absorb); an accepted index reports the tid of the transaction ending at the saved position; '
            '_check_sanity touches no file; _save_index proved to write the index under the temporary name, never '
            'in place, to rename after removing the old file, and to touch nothing in read-only mode; read_index '
            'with read_only proved to leave the file byte-identical; _restore_index proved to hand a saved index to the open '
            'ONLY after _sane accepted exactly that index and position (with the tid _sane reports), None otherwise, '
            'writing nothing; fsIndex.load proved to return only after the end marker of the stream (a cut-short index '
            'file raises and is ignored); every mutator proved (syntactically + store/'
            'deleteObject/new_oid/tpc_begin contracts) to refuse with ReadOnlyError first.',
    'note': 'SUFFICIENCY of the _check_sanity heuristic (accepted => the index is a prefix index of this file, also '
            'for an index saved before a pack) cannot be proved (a counter-model exists for adversarial payload '
            'bytes): covered by the bounded stand-in only. FileStorage.__init__ as a whole and the conversion of old '
            'dict-based indexes in _restore_index: bounded.',
    'design_ref': 'DESIGN.md section 5 C09',
}

PROPS['C13'] = {
    'modules': ['contracts.fs_format', 'contracts.fs_load', 'contracts.blobmodel', 'contracts.fs_write',
                'contracts.blobspecs', 'contracts.mvcc', 'contracts.copytxn'],
    'lemmas': [],
    'level': 'proof',
    'bounded': [
        {'func': 'ZODB.blob:<blob-storages><commit-abort-undo-pack>',
         'bound': 'FileStorage+blob_dir and BlobStorage(MappingStorage): storeBlob then abort before vote / after vote / '
                  'finish; foreign-transaction abort with a blob in flight; DB level on FileStorage: create, rewrite, '
                  'undo aborted after vote, undo committed, rewrite, pack (keep_old on/off): set of *.blob files == set '
                  'of committed blob records and bytes read back; refused finish (foreign handle) then abort; two connections: '
                  'a rewritten blob is seen by the other connection at its next boundary and can be appended to'},
    ],
    'text': 'Over a ghost blob namespace (oid, tid) -> file: _blob_storeblob proved to put exactly one file in place '
            'under (oid, tid), consume the working file and list the pair as dirty; _blob_tpc_abort proved (loop '
            'invariant) to remove exactly the dirty files and empty the list; FileStorage._abort / BaseStorage.tpc_abort '
            'proved to do so in EVERY phase (also before the vote); _finish_finish proved to forget the list and keep '
            'the files; the BlobStorage wrapper proved to clean up only for the transaction in progress and to be '
            'without effect for a foreign one, and - when the wrapped storage REFUSES the finish - to keep the dirty list '
            'for the abort that follows; MVCCAdapterInstance.storeBlob proved to add the blob\'s oid to the set '
            'invalidated at finish; blob.copyTransactionsFromTo proved to restore every record exactly once, as a blob '
            '(private complete copy of the source file) whenever the data is a blob record and the source has the file, '
            'whatever kind of record carries the data.',
    'note': 'Assumes A-BLOBFS (namespace model of the blob directory, injective file names). Blob handling inside '
            'undo (_txn_undo_write, BlobStorage.undo), pack (copyDataRecords blob branch, _packUndoing/_packNonUndoing) '
            'and Blob objects (consumeFile, _uncommitted) is covered by the bounded harness only.',
    'design_ref': 'DESIGN.md section 5 C13',
}

PROPS['C17'] = {
    'modules': ['contracts.fs_format', 'contracts.fs_load', 'contracts.blobmodel', 'contracts.fs_write',
                'contracts.recover', 'contracts.fs_iter', 'contracts.copytxn', 'contracts.basestorage'],
    'lemmas': [],
    'level': 'proof',
    'bounded': [
        {'func': 'ZODB:<copy-and-recover>',
         'bound': 'fsrecover.scan on every tail of <=12 bytes over {.,x} patterns with a 2 s alarm; 2 source histories '
                  '(undo records, empty transaction): copyTransactionsFrom file->file and fsrecover of the undamaged '
                  'file compared transaction by transaction; damage grid: ~30 offsets x {1,17,200} bytes of 0xff and '
                  'truncation, each recovered with a 20 s alarm: every transaction ending before the damage present, '
                  'only input transactions, order kept; iterator(start, stop) for every pair of tid boundaries; incremental copy '
                  '(first k, then from last + 1) and partial copy into an empty destination for every k; blob history '
                  '(undone rewrites) copied with blob directories; MappingStorage and DemoStorage sources'},
    ],
    'text': 'fsrecover.scan proved to TERMINATE on every input (strictly decreasing variants on both loops) and to '
            'return 0 or a position behind pos; fsrecover.read_txn_header proved to accept EXACTLY the header '
            'conditions of the format (complete header, length fits the file, length >= header length, status in '
            '\" up\", matching redundant length, no time-stamp reduction), to skip undone transactions, and to end '
            'with EOF on a checkpointed tail; FileStorage._data_find proved (loop invariant over the record tiling of '
            'the hinted transaction) to return the LAST record of the oid or 0; FileStorage.restore proved to stage exactly '
            'one record with the GIVEN serial, prev = current committed record, the data or a back pointer to the identical '
            'record of the hinted transaction (a hint naming an absent transaction is ignored: finding F28, fixed) or a '
            'zero pointer, and to raise the oid counter at once; FileIterator._scan_forward/_scan_backward proved (over '
            'the transaction tiling, tids growing) to stop at the FIRST transaction with tid >= start; '
            'blob.copyTransactionsFromTo proved: every transaction begun under its own tid/status, every record restored '
            'exactly once with its oid, tid, data and hint (as a blob iff it is one and the source has the file), voted '
            'and finished; BaseStorage.copy (storages without blobs) proved likewise, incl. the tid handed to tpc_begin: the '
            'source transaction\'s own while tids grow, a later stamp otherwise; the iterators themselves: '
            'FileIterator._skip_to_start proved to reach the first transaction with tid >= start whichever scan the '
            'time heuristic picks, FileIterator.__next__ to yield the transaction it stands on (tid, status, metadata, '
            'record range) and to end exactly at the end of the file, past an INCLUSIVE stop, or at a checkpoint; '
            'TransactionRecordIterator.__next__ to yield oid, tid, the data of the revision (own payload / end of the '
            'back-pointer chain / None) and as hint the tid of the record the back pointer names.',
    'note': 'FileIterator.__init__ and fsrecover.recover as a '
            'whole are covered by the bounded harness only; fsrecover.truncate, _txn_find (at restore\'s call site) and the '
            'source iterator of copyTransactionsFromTo (A-ITER) are assumed contracts.',
    'design_ref': 'DESIGN.md section 5 C17',
}

PROPS['C18'] = {
    'modules': FS_MODULES + ['contracts.repozo'],
    'lemmas': [],
    'level': 'proof',
    'bounded': [
        {'func': 'ZODB.scripts.repozo:<backup-recover-verify>',
         'bound': '{quick on/off} x {gzip on/off}: 6 backup rounds (first full, then incremental; one with a voted '
                  'unfinished transaction, one after a pack); recover as of every backup stamp compared byte for byte '
                  'with the committed prefix at that backup; index restored and usable; verify intact and after every '
                  'single-file damage (missing/truncated/altered) with full and quick verification'},
    ],
    'text': 'dofile proved for all files, positions and counts: the chunks handed to the callback, concatenated, are '
            'exactly the next min(n, available) bytes in order, the count is returned, the loop terminates (every '
            'checksum/copy/concat is a fold of it); do_full_backup / do_incremental_backup proved to open the source '
            'read-only, copy exactly [0, committed end) resp. [backed-up size, committed end), save the index at the '
            'committed end under the SAME time stamp as the data chunk (one clock reading), and record (file, start, '
            'end, checksum) in the .dat of the right full backup, forced to disk; read_index (read-only) proved to '
            'report the committed end, i.e. complete transactions only.',
    'note': 'Assumes A-MD5, A-GZIP, A-FILENAMES. copyfile/concat/find_files/scandat/do_backup decision/do_recover/'
            'do_verify are covered by the bounded harness only (string and directory-listing code).',
    'design_ref': 'DESIGN.md section 5 C18',
}

PROPS['C10'] = {
    'modules': FS_MODULES + ['contracts.demostorage', 'contracts.conflict', 'contracts.connection'],
    'lemmas': [],
    'level': 'proof',
    'bounded': [
        {'func': 'ZODB.ConflictResolution:<resolution-through-connections>',
         'bound': 'file and demo storage: two concurrent writers on a resolvable counter (arguments recorded), resolver '
                  'raising (RuntimeError; AttributeError followed by an ordinary conflict on the same class), class without '
                  'resolver, objects holding a strong and a weak reference to one target in both '
                  'orders; FileStorage: undoMultiple of two of three transactions on one resolvable object, both orders'},
    ],
    'text': 'tryToResolveConflict proved as a dataflow over uninterpreted pickling functions, for every path: the '
            'result is transform(dump(meta(new), resolve_of_the_class(state(loadSerial(oid, oldSerial)), '
            'state(committedData or loadSerial(oid, committedSerial)), state2(untransform(new))))) - the ORDER and '
            'origin of the three states is what is pinned; every other path (no resolver, unimportable class, resolver '
            'or loader raising) ends in ConflictError(oid, serials=(committed, old)); PersistentReference proved for all '
            'ten reference spellings of serialize.py (oid, weak flag, database name, data preserved, BadClass replaced '
            'by its (module, name) pair); persistent_load proved to hand out one reference object per SPELLING; the '
            'call sites FileStorage.store and DemoStorage.store proved to pass (oid, committed serial, caller serial, '
            'data) and to report the oid as resolved; a class is remembered as unresolvable (process-wide cache) ONLY when '
            'it offers no resolver - a resolver that itself fails with AttributeError fails that commit alone; '
            'Connection.tpc_vote proved to turn every object reported as resolved into a ghost.',
    'note': 'Assumes A-PICKLE and A-RESOLVER (zodbpickle and the class code are uninterpreted). The undo call site is '
            'covered by C06 / the bounded harness.',
    'design_ref': 'DESIGN.md section 5 C10',
}

PROPS['C14'] = {
    'modules': ['contracts.fs_format', 'contracts.serialize_refs', 'contracts.conflict', 'contracts.connection',
                'contracts.writer'],
    'lemmas': [],
    'level': 'other',
    'explanation': 'proved: the classification loops of referencesf/get_refs over every reference spelling of '
                   'serialize.py, the constructor of the conflict-resolution reference for the same spellings, the weak '
                   'reference loader and the cache reset of a connection; '
                   'bounded (labelled): round trips of random object graphs through the real pickler',
    'bounded': [
        {'func': 'ZODB.serialize:<object-graphs>',
         'bound': '3 fixed + 60 (thorough: 600) random graphs of <=7 persistent nodes (sharing, cycles, list/dict/tuple '
                  'nesting, __getnewargs__ classes, weak references before/after the strong one, cross-database '
                  'reference, unreachable object); stored iff reachable, referencesf(record) == ordinary references with '
                  'multiplicity, no dangling reference, isomorphic load with one object per oid; resetCaches() + re-opened '
                  'pooled connection: get(oid) is the object reached by reference; weak reference into a database that is '
                  'not configured never yields a local object'},
    ],
    'text': 'Mixed level (not claimed as proof of the whole statement): PROVED by generated VCs - referencesf and '
            'get_refs append an oid (str oids encoded back to bytes, class info kept or None) for exactly the ordinary '
            'spellings `oid` and `(oid, class)` in pickle order and for none of the weak / multi-database list forms, '
            'appending to a list passed in; PersistentReference decodes every spelling; '
            'ObjectReader.load_persistent_weakref binds a loaded weak reference to the connection of the database it '
            'names (own connection only if it names none; NO data manager when that database is not configured); '
            'Connection._resetCache gives the connection one new empty cache of the same size AND switches its '
            'ObjectReader to it (CACHE-SHARED: one object per id whether reached by get() or by reference), which '
            'Connection.__init__ establishes; Connection.get gives the cached / added object for a known oid and otherwise '
            'loads, makes a ghost and FILES it in the cache under the oid before returning it (one object per id). '
            'ObjectWriter.persistent_id proved for persistent objects: the reference is spelled (oid, class) / oid / '
            '[m, (database, oid, class)] / [n, (database, oid)] EXACTLY for same-or-other database x class without-or-with '
            '__getnewargs__, names the object\'s oid, class and database; a new object gets an oid of this connection, '
            'becomes its object and is queued for storing; an object of another connection is accepted only through the '
            'multi-database (cross references allowed, database registered under its name, the connection this one hands '
            'out for it, not being created there); and for persistent weak references: the oid of the TARGET is named, a new '
            'target gets an oid, becomes this connection\'s object and IS queued for storing, the database name is written '
            'exactly when the target lives elsewhere. BOUNDED only - the first '
            'sentence of the property (graph round trip through zodbpickle, ObjectWriter.persistent_id, ObjectReader '
            'loaders, broken classes): random graphs through the real code.',
    'note': 'Everything inside zodbpickle and persistent (C code) is outside; A-NOLOAD, A-CLASS assumed. '
            'Non-persistent values in persistent_id, serialize() and the loaders other than the weak-reference one '
            'are NOT under contract (reflection over arbitrary objects) - bounded stand-in only.',
    'design_ref': 'DESIGN.md section 5 C14',
}

PROPS['C06'] = {
    'modules': FS_MODULES + ['contracts.mvcc', 'contracts.undo', 'contracts.fs_iter'],
    'lemmas': [],
    'level': 'proof',
    'bounded': [
        {'func': 'ZODB.DB:DB.undoMultiple<undo-histories>',
         'bound': 'FileStorage through DB: 14 fixed scenarios (undo of last change / of a creation / with an unrelated '
                  'later change / with a mergeable later change / two mergeable ones in one undo, both orders / with a conflicting later change (refused, unchanged) / '
                  'two transactions on one object in one undo in both orders, then undo of that undo / two objects / '
                  'undo of undo / after reopen / second connection across its boundary / stale id of a PACKED transaction '
                  '(refused, unchanged)) + 40 (thorough: 400) random '
                  'histories of <=6 transactions over 3 objects with one random undo, against a model'},
    ],
    'text': 'FileStorage._transactionalUndoRecord proved as a decision table for every record layout satisfying the '
            'representation invariant: if the record written by the undone transaction is still current (or the current '
            'record carries the same bytes, read through back pointers) the result is a back-pointer copy of the '
            'revision before it (or an un-creation when there is none) with the position that is current in the '
            'COMMITTED index as predecessor; else, when there is a revision before it, the class resolver is handed '
            '(oid, current tid, undone tid, bytes of the revision before, bytes of the CURRENT record) and its answer is '
            'returned as new data; every other path raises UndoError with nothing staged; an object already staged by '
            'the same undo is compared against the staged record. The MVCC undo adapter is proved to hand the undone '
            'oids to the invalidation callback from inside the storage\'s finish, before the data becomes loadable. '
            '_txn_undo_write proved to refuse (UndoError, nothing staged, record loop never reached) every transaction '
            'whose status is not the undoable one - packed, undone, checkpoint; UndoSearch._readnext (undoLog/undoInfo) '
            'proved to walk to the transaction that ended at its position, to STOP the search at a packed transaction, to '
            'skip one whose status is not blank, and to describe the transaction by an id derived from its own tid; '
            'FileStorage.undo proved to refuse (nothing staged) in read-only mode and for a foreign transaction, to look the '
            'decoded id up with the pack boundary as limit, to undo the records at the position found and to merge the '
            'staged positions into the transaction index; DB.TransactionalUndo proved to undo every tid given, in order and '
            'once, inside its own storage transaction, and to release its storage instance on every exit of finish/abort.',
    'note': 'The record loop of _txn_undo_write (all records processed, second chance, writing the records, blob '
            'copies), _txn_find, DB.undo/undoMultiple (joining the manager), undoLog/undoInfo as a whole and '
            'MappingStorage are covered by the bounded harness only. Assumes A-RESOLVER for the class merge.',
    'design_ref': 'DESIGN.md section 5 C06',
}

PACK_MODULES = ['contracts.fs_format', 'contracts.fs_load', 'contracts.blobmodel', 'contracts.fs_write', 'contracts.serialize_refs',
                'contracts.conflict', 'contracts.pack_gc', 'contracts.pack_swap', 'contracts.pack_copy']

PROPS['C07'] = {
    'modules': PACK_MODULES,
    'lemmas': [],
    'level': 'other',
    'explanation': 'proved: the reachability pass of the FileStorage packer (what is kept) and the per-transaction '
                   'record selection / record image of the copy phase; bounded (labelled): the rest of the copy phase and '
                   'the observable before/after equivalence, MappingStorage.pack',
    'bounded': [
        {'func': 'ZODB.FileStorage.FileStorage:FileStorage.pack<before-after>',
         'bound': '7 fixed histories (undo records pointing across the pack time from a garbage object, two-level '
                  'back-pointer chains, cycles, garbage, un-creation, relinked garbage) + 12 (thorough: 120) random '
                  'histories of <=8 transactions over <=6 objects (link, unlink, modify, undo); every pack position '
                  '(quick: half of them, sampled), gc on/off: loadBefore of every reachable object in every state '
                  'from T on, iterator and undoLog after T, undo of the last transaction vs an unpacked copy, reopen '
                  'with/without index, repeated pack to the same/earlier time (file bytes), empty database; '
                  'MappingStorage for the first item; a refused pack must leave everything unchanged',
         'timeout': 2400},
    ],
    'text': 'Mixed level. PROVED by generated VCs over a ghost model of the data file (record tiling, back pointers, '
            'REFS(p) = references of the state a revision resolves to): GC.buildPackIndex computes the pack position '
            'as the first transaction later than the pack time and maps every object to its LAST record below it '
            'unless that is an un-creation; GC.findrefs returns REFS of the revision, following back pointers to the '
            'end; GC.findReachableAtPacktime is a worklist closure (every root kept, every newly kept object kept at '
            'its revision current at the pack time, all its references kept or still queued - multiset invariant); '
            'GC.findReachableFromFuture establishes KEEP-BACK (every back pointer crossing the pack position names a '
            'kept revision), KEEP-CLOSED (the references of EVERY kept revision are kept objects) and KEEP-FUTURE (every '
            'object that existed at the pack time and is referenced by a record written after it is kept); '
            'GC.findReachable composes them from the constructor state; GC.isReachable is the kept predicate; '
            'FileStoragePacker.pack/copyRest/copyOne: the packer returns, holding the commit lock, only after an '
            'end-of-file test at the frontier of the copy against the REAL end of the data file (transactions committed '
            'while it ran are consumed; rely: other threads append only while the lock is free); that FileStorage.pack then '
            'installs the packed file, its index and end position is proved under C08. '
            'Copy phase: copyDataRecords proved (loop invariant over the record tiling of the transaction) to hand to '
            'writePackedDataRecord EXACTLY the records the GC keeps, and to write the transaction header iff one is kept; '
            'writePackedDataRecord proved to append the record image with prev = 0, no back pointer, the data in full '
            '(or a zero pointer) and to file the new position in the index; PackCopier.copy (real body) proved to append '
            'exactly one record and ALWAYS to file it in the transaction index. '
            'BOUNDED only: the rest of the copy phase (copyToPacktime, copyOne\'s record loop, back-pointer resolution), '
            'blobs, MappingStorage.pack/DemoStorage.pack and the statement as observed through load/iterator/undo - by the '
            'before/after harness (incl. a commit from another thread in each packer phase).',
    'note': 'Assumes RI-TILING of the input file, A-REFERENCESF (classification proved in C14), A-DICT-OF-LISTS, the list '
            'multiset model. Garbage as of the pack time that a later state references again WITHOUT writing it is '
            'removed (allowed by the first sentence of the property; the harness exempts exactly those objects).',
    'design_ref': 'DESIGN.md sections 5 C07 and 10.3',
}

PROPS['C08'] = {
    'modules': PACK_MODULES,
    'lemmas': [],
    'level': 'other',
    'explanation': 'proved: sequential contracts, lock ownership, call ordering and crash-Hoare obligations of the swap in '
                   'FileStorage.pack; bounded (labelled): thread schedules (deterministic windows + a small stress run), '
                   'crash images and injected failures on the real storage',
    'bounded': [
        {'func': 'ZODB.FileStorage.FileStorage:FileStorage.pack<schedules-crashes-failures>',
         'bound': '12 objects with history; a commit from another thread in each of the three packer phases (GC, copy to '
                  'pack time, catch-up window with the commit lock released); a reader holding a pooled handle at the '
                  'swap; a second pack during a pack; directory copied after EVERY rename/remove of the swap and at 2 '
                  'points of the copy phase, each copy reopened; failures: stale .old that cannot be removed, write error '
                  'in the copy phase, failing first rename, failing second rename; 4 (thorough: 20) rounds of 1 packer + 2 '
                  'committers + 1 reader as real threads',
         'timeout': 1800},
    ],
    'text': 'Mixed level. PROVED for FileStorage.pack (all paths, with a fault injected at every directory operation): '
            'refused when read-only, when a pack is in progress (check-and-set of the flag inside the storage lock) and a '
            'no-op on an empty storage; the pack-in-progress flag is cleared and the commit lock released on EVERY exit; the '
            'reader pool is emptied INSIDE the pool writer lock and the storage lock, before the renames; renames and the '
            'publication of file handle, index and end position happen inside both locks while the commit lock the packer '
            'returned with is still held; after the swap the handle is open on the packed file, the packer\'s index and end '
            'position are installed, .old is kept iff asked; crash-Hoare: after every rename/remove the ghost directory must '
            'name a complete database as Data.fs - this FAILS between the two renames (open finding F6, printed as '
            'KNOWN-FINDING). PROVED for the packer under a rely condition (other threads only append, and only while the '
            'commit lock is free - applied as an environment step at every acquisition): copyOne releases the lock after '
            'reading the header and holds it again on return (LOCKFLAG: self.locked <=> lock held, also on every exception), '
            'returns the next transaction boundary; copyRest returns only after an end-of-file test at the frontier against '
            'the real file end with the lock held; FileStoragePacker.pack returns None without the lock, or a position WITH '
            'the lock and the data file consumed to its real end, and releases the lock on every exception; FileStorage.packer '
            'closes the packer files on every path. BOUNDED only: real thread schedules, crash images, failure injection.',
    'note': 'NOT covered deductively: the schedule quantifier (T3: code between lock operations is atomic). A-DIRECTORY, '
            'A-PACKER-RESULT, A-FILEPOOL assumed. F8 (flag stuck) fixed; F6 (non-atomic swap) open.',
    'design_ref': 'DESIGN.md sections 5 C08 and 10.3',
}

PROPS['C11'] = {
    'modules': ['contracts.fs_format', 'contracts.connection'],
    'lemmas': [],
    'level': 'other',
    'explanation': 'proved: the bookkeeping methods of Connection over a ghost universe of persistent objects; bounded '
                   '(labelled): _commit/_store_objects/ObjectWriter and whole programs on the real storages',
    'bounded': [
        {'func': 'ZODB.Connection:Connection<programs>',
         'bound': '9 fixed + 60 (thorough: 600) random programs of <=12 steps over <=6 objects of three kinds (custom '
                  'Persistent, PersistentMapping, PersistentList) on Mapping/File/DemoStorage: modify, add implicitly and '
                  'explicitly, remove, re-add, commit, abort, failed commit in the commit phase (conflict through a second '
                  'connection) / vote / finish, add() with joining refused, close inside and outside a transaction, '
                  'reopen from the pool; after EVERY step _p_jar/_p_oid/_p_changed/_p_serial and re-read attribute values '
                  'of every object ever created against the model, after every commit the set of oids written under the '
                  'one transaction id'},
    ],
    'text': 'Mixed level. PROVED (whole-universe postconditions: what happens to the objects concerned AND that every other '
            'object keeps oid/jar/serial/changed): _abort (registered objects: added ones disowned and removed from '
            '_added and the cache, the others ghostified in the cache - loop invariant over the first-occurrence index); '
            '_invalidate_creating (every object stored as new and filed in the cache is removed and disowned); abort = '
            'every object new in the transaction belongs to no database, every other registered cached object is a ghost, '
            'bookkeeping reset; tpc_abort (storage aborted once with this transaction, modified -> ghosts, created and '
            'still-added -> disowned, maps emptied); tpc_finish (after the storage finished: stored non-ghost cached objects '
            'clean with the new tid, ghosts and all others untouched; storage failure touches nothing); _register (join '
            'first; if joining is refused the connection does NOT consider itself joined and the list is untouched); '
            'register / add / _add decision tables (a refused join leaves the object unowned); close refuses before any '
            'effect while joined; commit checks every remaining readCurrent oid inside the storage transaction with and '
            'without savepoints; tpc_vote ghostifies resolved / conflicting objects; _commit hands to _store_objects (an '
            'ObjectWriter of its own each) EXACTLY the registered objects that were added or are changed and not being '
            'created, with the transaction given; __init__ starts with empty bookkeeping, still to join; get / setstate '
            'touch no object but the one asked for. BOUNDED only: '
            '_store_objects/ObjectWriter (the graph walk), savepoints (C12), cacheGC/pool reuse - by the program harness.',
    'note': 'Assumes A-PERSISTENT, A-PICKLECACHE (C code) and CONNINV (representation invariant of the connection, not '
            'proved to be preserved by _store_objects). F20 (add with refused join) and F21 (new object that never '
            'reached the cache kept oid and jar after a failed commit) were produced by this check and are fixed.',
    'design_ref': 'DESIGN.md sections 5 C11 and 10.3',
}

NOT_YET = {}
