"""Model of BTrees.OOBTree(prefix -> fsBucket) as used by ZODB.fsIndex (assumed contract, T5).

tree object (kind 'oobtree'): f = {dom: Array(Int,Bool), bdom: Array(Int,Array(Int,Bool)),
bval: Array(Int,Array(Int,Int))}.  A bucket is an ordinary sorted 'map' object whose field
dict reads/writes through to the tree once it is attached (ownership: a bucket belongs to at
most one tree key - assumption A-BUCKET-OWN).
"""
import z3

from . import prims
from .engine import RaiseSig, Unsupported, bytes_num
from .values import B, I, NONE, VBool, VBytes, VExc, VFunc, VInt, VNone, VRef, VTuple, fresh_name

AIB = z3.ArraySort(I, B)
AII = z3.ArraySort(I, I)

ASSUMPTIONS = [
    'A-BTREES: OOBTree / fsBucket (C extension) behave as sorted finite maps: get/[]/[]=/del/minKey(k)/'
    'maxKey(k)/items/values/clear; minKey/maxKey raise ValueError when no key qualifies',
    'A-BUCKET-OWN: an fsBucket object is stored under at most one key of at most one tree',
]


class AttachedFields:
    """field dict of a bucket that lives inside a tree"""

    def __init__(self, tree_obj, key):
        self.tree = tree_obj
        self.key = key

    def __getitem__(self, k):
        if k == 'dom':
            return z3.Select(self.tree.f['bdom'], self.key)
        if k == 'val':
            return z3.Select(self.tree.f['bval'], self.key)
        raise KeyError(k)

    def __setitem__(self, k, v):
        if k == 'dom':
            self.tree.f['bdom'] = z3.Store(self.tree.f['bdom'], self.key, v)
        elif k == 'val':
            self.tree.f['bval'] = z3.Store(self.tree.f['bval'], self.key, v)
        else:
            raise KeyError(k)

    def __contains__(self, k):
        return k in ('dom', 'val')

    def __iter__(self):
        return iter(('dom', 'val'))

    def keys(self):
        return ['dom', 'val']

    def items(self):
        return [('dom', self['dom']), ('val', self['val'])]

    def get(self, k, d=None):
        return self[k] if k in ('dom', 'val') else d

    def pop(self, k, d=None):
        return d


BUCKET_META = {'keykind': 'bytes2', 'valkind': 'bytes6', 'sorted': True, 'name': 'bucket'}


def new_tree(ctx, name='_data', empty=False):
    if empty:
        dom = z3.K(I, z3.BoolVal(False))
    else:
        dom = z3.Array(fresh_name(name + '_dom'), I, B)
    bdom = z3.Array(fresh_name(name + '_bdom'), I, AIB)
    bval = z3.Array(fresh_name(name + '_bval'), I, AII)
    return ctx.new_obj('oobtree', 'ext:BTrees.OOBTree.OOBTree',
                       {'dom': dom, 'bdom': bdom, 'bval': bval},
                       {'name': name, 'keykind': 'bytes6', 'sorted': True})


def new_bucket(ctx):
    return ctx.new_obj('map', 'ext:BTrees.fsBTree.fsBucket',
                       {'dom': z3.K(I, z3.BoolVal(False)),
                        'val': z3.Array(fresh_name('bk_val'), I, I)}, dict(BUCKET_META))


def attached_bucket(ctx, tree_ref, key_term):
    ref = ctx.new_obj('map', 'ext:BTrees.fsBTree.fsBucket', {}, dict(BUCKET_META))
    o = ctx.obj(ref)
    o.f = AttachedFields(ctx.obj(tree_ref), key_term)
    o.meta['attached'] = (tree_ref.id, key_term)
    return ref


def tree_key(ctx, o, k, node):
    if not isinstance(k, VBytes):
        return None
    n = k.conc_len()
    if n is None:
        raise Unsupported('tree key of symbolic length', node)
    if n != 6:
        # keys of another length are simply different keys; the index only ever uses 6
        raise Unsupported('OOBTree key that is not 6 bytes', node)
    return bytes_num(ctx, k, node)


def tree_getitem(ctx, recv, o, key, node):
    k = tree_key(ctx, o, key, node)
    present = z3.Select(o.f['dom'], k)
    i = ctx.choose([present, z3.Not(present)], 'tree-getitem')
    if i == 1:
        raise RaiseSig(VExc('builtins:KeyError', [key]))
    return attached_bucket(ctx, recv, k)


def tree_setitem(ctx, recv, o, key, v, node):
    k = tree_key(ctx, o, key, node)
    if not isinstance(v, VRef) or ctx.obj(v).kind != 'map' or \
            ctx.obj(v).cls != 'ext:BTrees.fsBTree.fsBucket':
        raise Unsupported('tree value must be an fsBucket', node)
    bo = ctx.obj(v)
    if bo.meta.get('attached'):
        raise Unsupported('bucket stored under a second key (A-BUCKET-OWN)', node)
    dom, val = bo.f['dom'], bo.f['val']
    o.f['dom'] = z3.Store(o.f['dom'], k, z3.BoolVal(True))
    o.f['bdom'] = z3.Store(o.f['bdom'], k, dom)
    o.f['bval'] = z3.Store(o.f['bval'], k, val)
    bo.f = AttachedFields(o, k)
    bo.meta['attached'] = (recv.id, k)


def tree_delitem(ctx, recv, o, key, node):
    k = tree_key(ctx, o, key, node)
    present = z3.Select(o.f['dom'], k)
    i = ctx.choose([present, z3.Not(present)], 'tree-del')
    if i == 1:
        raise RaiseSig(VExc('builtins:KeyError', [key]))
    o.f['dom'] = z3.Store(o.f['dom'], k, z3.BoolVal(False))


def tree_contains(ctx, recv, o, item, node):
    k = tree_key(ctx, o, item, node)
    return z3.Select(o.f['dom'], k)


class TreeCursor(prims.MapCursor):
    def __init__(self, ctx, o, what, ref):
        self.o = o
        self.what = what
        self.ref = ref
        self.ks = I
        self.visited = z3.K(I, z3.BoolVal(False))
        self.dom0 = o.f['dom']
        self.cur = None

    def next(self, ctx):
        k = self.cur
        self.visited = z3.Store(self.visited, k, z3.BoolVal(True))
        kv = prims.map_key_value(ctx, self.o, k)
        if self.what in ('keys', 'iterkeys', None):
            return kv
        bv = attached_bucket(ctx, self.ref, k)
        if self.what in ('values', 'itervalues'):
            return bv
        return VTuple([kv, bv])


def tree_method(ctx, interp, ref, o, name, args, kwargs, node):
    if name == 'get':
        k = tree_key(ctx, o, args[0], node)
        default = args[1] if len(args) > 1 else NONE
        present = z3.Select(o.f['dom'], k)
        i = ctx.choose([present, z3.Not(present)], 'tree-get')
        if i == 0:
            return attached_bucket(ctx, ref, k)
        return default
    if name in ('minKey', 'maxKey'):
        return prims.sorted_extreme(ctx, o, name == 'minKey', args[0] if args else NONE, node)
    if name == 'clear':
        o.f['dom'] = z3.K(I, z3.BoolVal(False))
        return NONE
    if name in ('items', 'keys', 'values', 'iteritems', 'iterkeys', 'itervalues'):
        return VFunc('iterview', name, ref)
    if name == '__len__':
        raise Unsupported('len of OOBTree (cardinality)', node)
    raise Unsupported('OOBTree method %s' % name, node)


def tree_truthy(ctx, ref, o, node):
    w = z3.Int(fresh_name('w'))
    q = z3.Int(fresh_name('q'))
    ne = z3.Bool(fresh_name('nonempty'))
    ctx.assume(z3.Implies(ne, z3.Select(o.f['dom'], w)))
    ctx.assume(z3.Implies(z3.Not(ne), z3.ForAll([q], z3.Not(z3.Select(o.f['dom'], q)),
                                                 patterns=[z3.Select(o.f['dom'], q)])))
    return ne


prims.KIND_GETITEM['oobtree'] = tree_getitem
prims.KIND_SETITEM['oobtree'] = tree_setitem
prims.KIND_DELITEM['oobtree'] = tree_delitem
prims.KIND_CONTAINS['oobtree'] = tree_contains
prims.KIND_METHOD['oobtree'] = tree_method
prims.KIND_TRUTHY['oobtree'] = tree_truthy
prims.KIND_ITER['oobtree'] = lambda ctx, o, what, ref: TreeCursor(ctx, o, what, ref)


@prims.ctor('ext:BTrees.OOBTree.OOBTree')
def c_oobtree(ctx, interp, args, kwargs, node):
    if args:
        raise Unsupported('OOBTree(initial items)', node)
    return new_tree(ctx, empty=True)


@prims.ctor('ext:BTrees.fsBTree.fsBucket')
def c_fsbucket(ctx, interp, args, kwargs, node):
    return new_bucket(ctx)
