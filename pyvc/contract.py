"""Contracts (sidecar specifications) and the function-level verifier.

A Spec describes ONE function of the real code:
  * setup(c)            -> dict param-name -> Value : fresh symbolic inputs and heap
  * requires(c, E)      -> [(label, Bool)]          : assumed when the body is verified,
                                                       obligations at every call site
  * outcomes(c, E)      -> [Outcome]                : guards over the PRE state
  * modifies(c, E)      -> set of (objid, field)    : frame; '*' as field = whole object
  * loops               -> {ordinal: LoopSpec}
The same `outcomes` serve both sides of modular verification: at an exit of the body the
matching outcome's postcondition is an obligation; at a call site it is assumed after the
frame has been havocked.
"""
import time
import traceback

import z3

from . import engine, prims, source
from .engine import (Ctx, Explorer, Frame, Interp, PathEnd, PathLimit, RaiseSig,
                     ReturnSig, Unsupported, index_loops)
from .values import NONE, VExc, VNone, VRef, fresh_name, reset_names


class Outcome:
    def __init__(self, label, kind='return', exc=None, guard=True, result=None, post=None,
                 witness=None):
        self.label = label
        self.kind = kind            # 'return' | 'raise'
        self.exc = exc              # exception class qual for 'raise'
        self.witness = witness      # fn(c, E): create fresh ghost witnesses in E.ghost (call sites)
        self.guard = guard          # formula over the pre-state, or fn(c, E) -> formula (lazy:
                                    # may mention ghost witnesses found in E.ghost)
        self.result = result        # fn(c, E) -> fresh Value (call sites)
        self.post = post or (lambda c, E, res: [])


def guard_of(o, c, E):
    g = o.guard
    if callable(g):
        g = g(c, E)
    return g


class LoopSpec:
    def __init__(self, inv, decreases=None, havoc=None, kinds=None, on_exit=None, frozen=(),
                 ghost_step=None):
        self.ghost_step = ghost_step  # fn(c, fr): ghost assignments at the end of every iteration
                                      # (may only touch c.ghost, never program state)
        self.on_exit = on_exit      # fn(c, fr): called when the loop is left (break / condition)
        self.frozen = tuple(frozen)  # locals assigned only on paths that leave the loop: not
                                     # havocked; 'unchanged at the end of an iteration' is an obligation
        self.inv = inv              # fn(c, fr) -> [(label, Bool)]
        self.decreases = decreases  # fn(c, fr) -> Int term
        self.havoc = havoc          # fn(c, fr): havoc heap locations the body may modify
        self.kinds = kinds          # {local name: fn(c, fr) -> fresh Value} for names born in the loop


class Env:
    def __init__(self, args, old):
        self.args = args
        self.old = old
        self.ghost = {}

    def __getitem__(self, k):
        return self.args[k]

    def old_f(self, ref, field):
        return self.old[ref.id][field]


class Spec:
    func = None          # 'pkg.mod:Qual.name'
    props = ()           # property ids this function's obligations count for
    tier = 1
    loops = {}
    assumptions = ()     # free-text list: what this contract assumes of its environment
    max_paths = 5000

    cases = (None,)      # setup variants (e.g. key None / key given); each explored separately

    def setup(self, c, case=None):
        raise NotImplementedError

    def requires(self, c, E):
        return []

    def definitions(self, c, E):
        """definitional (conservative) ghost axioms: assumed on both sides, never obligations"""
        return []

    def outcomes(self, c, E):
        return [Outcome('default')]

    def modifies(self, c, E):
        return set()

    def havoc(self, c, E, outcome):
        """call-site frame havoc: default = every location in modifies()"""
        for (oid, fld) in self.modifies(c, E):
            o = c.heap[oid]
            flds = list(o.f) if fld == '*' else [fld]
            for f_ in flds:
                if f_ in o.f:
                    o.f[f_] = c.fresh_like(o.f[f_], f_)

    def hooks(self, c):
        return {}

    def at_exit(self, c, E, kind, val):
        """extra obligations at each exit (ordering, lock balance, ...)"""
        return []

    # -- call-site use
    def apply(self, c, interp, amap, node):
        E = Env(amap, c.snapshot())
        short = self.func.split(':')[1]
        for b in self.definitions(c, E):
            c.assume(b)
        for lbl, b in self.requires(c, E):
            c.oblige('pre:%s.%s' % (short, lbl), b, node)
        outs = self.outcomes(c, E)
        for o in outs:
            if o.witness is not None:
                o.witness(c, E)
        i = c.choose([guard_of(o, c, E) for o in outs], 'outcome:' + short)
        o = outs[i]
        c.event('outcome:' + short.split('.')[-1], o.label)
        self.havoc(c, E, o)
        if o.kind == 'raise':
            res = VExc(o.exc)
            if o.result is not None:
                res = o.result(c, E)
        else:
            res = o.result(c, E) if o.result is not None else NONE
        c.in_apply = getattr(c, 'in_apply', 0) + 1
        try:
            posts = list(o.post(c, E, res))
        finally:
            c.in_apply -= 1
        for lbl, b in posts:
            if b is False:
                # a contract that cannot be satisfied at a call site would silently end the path
                raise Unsupported('contract of %s: outcome %s has no satisfiable result here (%s)'
                                  % (short, o.label, lbl), node)
            c.assume(b)
        if o.kind == 'raise':
            raise RaiseSig(res)
        return res


class Registry:
    def __init__(self):
        self.specs = {}          # func qual -> Spec (used at call sites and for verification)
        self.variants = {}       # 'func#label' -> Spec (verification only)
        self.inline = set()
        self.prim_classes = set()
        self.overrides = {}      # (module, name) -> Value

    def add(self, spec):
        self.specs[spec.func] = spec
        return spec

    def call_spec(self, qual):
        s = self.specs.get(qual)
        if s is not None and getattr(s, 'callable_contract', True):
            return s
        return None

    def loop_spec_for(self, qual):
        return self.specs.get(qual) or self.specs.get('loops:' + qual)

    def is_inline(self, qual):
        return qual in self.inline

    def class_is_prim(self, name):
        return name in self.prim_classes

    def global_override(self, modname, name):
        return self.overrides.get((modname, name))


class FuncResult:
    def __init__(self, func):
        self.func = func
        self.status = 'ok'        # ok | unsupported | pathlimit | error | stale
        self.message = ''
        self.vcs = []
        self.paths = 0
        self.exits = {}
        self.inlined = []
        self.contracts_used = []
        self.dropped = []
        self.time_explore = 0.0


def verify_function(reg, spec, interp=None):
    """Symbolically execute the real body of spec.func against spec; returns FuncResult with VCs."""
    interp = interp or Interp(reg)
    res = FuncResult(spec.func)
    m, fn = source.find_function(spec.func)
    if fn is None:
        res.status = 'stale'
        res.message = 'function %s not found in source' % spec.func
        return res
    mod, name = source.split_qual(spec.func)
    all_vcs = []
    t0 = time.time()
    for case in spec.cases:
        ex = Explorer(reg, getattr(spec, 'key', spec.func) + ('' if case is None else '[%s]' % case),
                      max_paths=spec.max_paths)
        _verify_case(reg, spec, interp, res, m, fn, ex, case)
        all_vcs.extend(ex.vcs)
        res.paths += ex.paths
        for k, v in ex.covers.items():
            res.exits[('' if case is None else '[%s]' % case) + k] = v
        res.inlined = sorted(set(res.inlined) | ex.inlined)
        res.contracts_used = sorted(set(res.contracts_used) | ex.contracts_used)
        res.dropped = sorted(set(res.dropped) | ex.dropped)
        if res.status != 'ok':
            break
    res.time_explore = time.time() - t0
    res.vcs = all_vcs
    return res


def _verify_case(reg, spec, interp, res, m, fn, ex, case):
    def run(c):
        reset_names()
        c.cur_spec = spec
        c.interp = interp
        c.entered = False
        c.hooks.update(spec.hooks(c) or {})
        args = spec.setup(c, case)
        E = Env(args, None)
        for b in spec.definitions(c, E):
            c.assume(b)
        for lbl, b in spec.requires(c, E):
            c.assume(b)
        E.old = c.snapshot()
        outs = spec.outcomes(c, E)
        mods = spec.modifies(c, E)
        E.outs = outs
        c.E = E
        # vacuity cover: the precondition must be satisfiable
        ex.covers.setdefault('requires', False)
        if not ex.covers['requires']:
            if c.solver.check() == z3.sat:
                ex.covers['requires'] = True
        params = [p.arg for p in fn.args.posonlyargs + fn.args.args]
        argv = []
        kw = {}
        for p in params:
            if p in args:
                argv.append(args[p])
            else:
                break
        for p in params[len(argv):]:
            if p in args:
                kw[p] = args[p]
        if fn.args.vararg is not None and fn.args.vararg.arg in args:
            argv.extend(args[fn.args.vararg.arg].items)
        try:
            val = interp.inline(c, spec.func, fn, argv, kw, fn)
            kind = 'return'
        except RaiseSig as rs:
            val = rs.exc
            kind = 'raise'
        check_exit(c, spec, E, outs, mods, kind, val, ex)

    try:
        ex.explore(run)
    except Unsupported as u:
        res.status = 'stale' if isinstance(u, engine.ContractStale) else 'unsupported'
        ln = getattr(u.node, 'lineno', None)
        res.message = '%s%s' % (u.msg, ' at %s:%s' % (m.path, ln) if ln else '')
    except PathLimit as p:
        res.status = 'pathlimit'
        res.message = str(p)
    except Exception:
        res.status = 'error'
        res.message = traceback.format_exc()


def check_exit(c, spec, E, outs, mods, kind, val, ex):
    if kind == 'raise':
        label = 'raise.' + val.cls.split(':')[-1]
        match = [o for o in outs if o.kind == 'raise' and source.is_subclass(val.cls, o.exc)]
    else:
        label = 'return'
        match = [o for o in outs if o.kind == 'return']
    # cover: this exit is reachable
    ex.covers[label] = True
    from .ground import FAnd, FOr
    goal_parts = []
    if len(match) != 1:
        for o in match:
            conj = [engine.as_z3_bool(guard_of(o, c, E))]
            for lbl, b in o.post(c, E, val):
                conj.append(engine.as_z3_bool(b))
            goal_parts.append(FAnd(*conj))
    if len(match) == 1:
        o = match[0]
        c.oblige('post.%s.guard[%s]' % (label, o.label),
                 engine.as_z3_bool(guard_of(o, c, E)), assume_after=False)
        for lbl, b in o.post(c, E, val):
            c.oblige('post.%s.%s' % (label, lbl), engine.as_z3_bool(b), assume_after=False)
    else:
        goal = FOr(*goal_parts) if goal_parts else z3.BoolVal(False)
        c.oblige('post.%s' % label if match else 'post.%s.unexpected-exit' % label, goal,
                 assume_after=False)
    # frame: every pre-existing heap location not in modifies is unchanged
    for oid, oldf in E.old.items():
        o = c.heap.get(oid)
        if o is None:
            continue
        if (oid, '*') in mods:
            continue
        for fld, ov in oldf.items():
            if (oid, fld) in mods:
                continue
            nv = o.f.get(fld)
            if nv is ov:
                continue
            eq = same_value(c, ov, nv)
            nm = o.meta.get('name') or o.cls or o.kind
            c.oblige('frame.%s.%s' % (str(nm).split(':')[-1], fld), eq, assume_after=False)
        for fld in o.f:
            if fld not in oldf and (oid, fld) not in mods:
                nm = o.meta.get('name') or o.cls or o.kind
                c.oblige('frame.%s.%s' % (str(nm).split(':')[-1], fld), z3.BoolVal(False),
                         assume_after=False)
    for lbl, b in spec.at_exit(c, E, kind, val):
        c.oblige('exit.%s' % lbl, engine.as_z3_bool(b), assume_after=False)


def same_value(c, a, b):
    if a is b:
        return z3.BoolVal(True)
    if b is None or a is None:
        return z3.BoolVal(False)
    if isinstance(a, z3.ExprRef) and isinstance(b, z3.ExprRef):
        if a.sort() != b.sort():
            return z3.BoolVal(False)
        return a == b
    if isinstance(a, bool) and isinstance(b, bool):
        return z3.BoolVal(a == b)
    if isinstance(a, (bool, z3.ExprRef)) and isinstance(b, (bool, z3.ExprRef)):
        return engine.as_z3_bool(a) == engine.as_z3_bool(b)
    if isinstance(a, VRef) and isinstance(b, VRef):
        return z3.BoolVal(a.id == b.id)
    try:
        r = engine.values_identical(c, a, b)
        if r is True:
            return z3.BoolVal(True)
        r = engine.values_equal(c, a, b)
        return engine.as_z3_bool(r)
    except Unsupported:
        return z3.BoolVal(False)
