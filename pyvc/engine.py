"""pyvc engine: path-wise symbolic execution of real Python source against sidecar contracts.

Exploration is by re-execution: each path is run from the function entry with a list of
recorded decisions; a choice point beyond the recorded prefix takes its first feasible
alternative and records how many there are; the driver then backtracks (DFS).  This keeps
the interpreter a plain recursive evaluator: exceptional control flow of the analysed code
(return/break/continue/raise) is python exception flow of the interpreter.
"""
import ast
import time

import z3

from . import source
from .values import (B, I, NONE, Obj, V, VBool, VBytes, VClass, VCtxMgr, VExc,
                     VFunc, VInt, VModule, VNone, VOpaque, VRef, VStr, VTuple,
                     fresh_name)


class Unsupported(Exception):
    def __init__(self, msg, node=None):
        Exception.__init__(self, msg)
        self.msg = msg
        self.node = node


class ContractStale(Unsupported):
    pass


class PathEnd(Exception):
    """The current path stops here (assumed-false, loop body end, ...)."""


class ReturnSig(Exception):
    def __init__(self, value):
        self.value = value


class BreakSig(Exception):
    pass


class ContinueSig(Exception):
    pass


class RaiseSig(Exception):
    def __init__(self, exc):
        self.exc = exc


class PathLimit(Exception):
    pass


class HObj:
    """Heap object.  kind: 'inst' | 'file' | 'map' | 'list' | 'lock' | ... ; f: fields"""

    def __init__(self, kind, cls=None, fields=None, meta=None):
        self.kind = kind
        self.cls = cls
        self.f = dict(fields or {})
        self.meta = dict(meta or {})


class VC:
    __slots__ = ('name', 'pc', 'goal', 'site', 'path', 'func', 'kind', 'roles')

    def __init__(self, name, pc, goal, site, path, func, kind='oblig', roles=None):
        self.name = name
        self.pc = pc
        self.goal = goal
        self.roles = roles
        self.site = site
        self.path = path
        self.func = func
        self.kind = kind


class Frame:
    def __init__(self, modname, clsq, funcq, locals_):
        self.modname = modname
        self.clsq = clsq
        self.funcq = funcq
        self.locals = locals_
        self.loop_ord = {}


class Explorer:
    """Holds what survives across the paths of one function verification."""

    def __init__(self, registry, func_label, max_paths=5000, feas_timeout_ms=2000):
        self.registry = registry
        self.func_label = func_label
        self.vcs = []
        self.vc_keys = set()
        self.max_paths = max_paths
        self.paths = 0
        self.exits = []          # (kind, label) per completed path
        self.covers = {}         # exit label -> reached (pc satisfiable)
        self.feas_timeout_ms = feas_timeout_ms
        self.inlined = set()
        self.contracts_used = set()
        self.dropped = set()
        self.t_feas = 0.0

    def explore(self, run):
        stack = []
        while True:
            self.paths += 1
            if self.paths > self.max_paths:
                raise PathLimit('more than %d paths' % self.max_paths)
            ctx = Ctx(self, stack)
            try:
                run(ctx)
            except PathEnd:
                pass
            stack = ctx.trace
            while stack and stack[-1][0] + 1 >= stack[-1][1]:
                stack.pop()
            if not stack:
                break
            stack[-1][0] += 1


_hq_cache = {}


def has_quantifier(e):
    k = e.get_id()
    r = _hq_cache.get(k)
    if r is not None:
        return r
    if z3.is_quantifier(e):
        r = True
    elif z3.is_app(e):
        r = any(has_quantifier(ch) for ch in e.children())
    else:
        r = False
    if len(_hq_cache) > 200000:
        _hq_cache.clear()
    _hq_cache[k] = r
    return r


class Ctx:
    def __init__(self, ex, prefix):
        self.ex = ex
        self.trace = [list(x) for x in prefix]
        self.dpos = 0
        self.pc = []
        self.solver = z3.Solver()
        self.solver.set('timeout', ex.feas_timeout_ms)
        self.heap = {}
        self.next_id = 1
        self.ghost = {}
        self.exc_stack = []
        self.depth = 0
        self.ob_seq = 0
        self.events = []          # ghost trace of primitive effects (ordering obligations)
        self.hooks = {}           # name -> callable, installed by specs (crash invariants, ...)
        self.cur_spec = None
        self.locks_held = {}
        from .ground import Roles
        self.roles = Roles()

    # ---- logical state
    def assume(self, b):
        if isinstance(b, bool):
            if not b:
                raise PathEnd()
            return
        if not isinstance(b, z3.ExprRef):
            # formula tree with Q leaves (ground.py): kept for the VCs, invisible to the
            # feasibility solver
            self.pc.append(b)
            return
        b = z3.simplify(b)
        if z3.is_true(b):
            return
        if z3.is_false(b):
            raise PathEnd()
        self.pc.append(b)
        if not has_quantifier(b):
            # the feasibility solver only sees quantifier-free facts (pruning is an
            # optimisation: an infeasible path that is not pruned yields VCs with an
            # inconsistent path condition, which discharge trivially)
            self.solver.add(b)

    def feasible(self, b):
        if isinstance(b, bool):
            return b
        if not isinstance(b, z3.ExprRef):
            return True
        b = z3.simplify(b)
        if z3.is_true(b):
            return True
        if z3.is_false(b):
            return False
        t0 = time.time()
        r = self.solver.check(b)
        self.ex.t_feas += time.time() - t0
        return r != z3.unsat

    def choose(self, conds, what=''):
        """Choice point.  conds: list of z3 Bool / python bool, one per alternative; the
        chosen alternative's condition is assumed.  Returns its index."""
        if self.dpos < len(self.trace):
            idx, n, feas = self.trace[self.dpos]
        else:
            feas = [i for i, c in enumerate(conds) if self.feasible(c)]
            if not feas:
                raise PathEnd()
            self.trace.append([0, len(feas), feas])
            idx, n = 0, len(feas)
        self.dpos += 1
        i = feas[idx]
        self.assume(conds[i])
        return i

    def decided(self):
        return tuple(t[2][t[0]] for t in self.trace[:self.dpos])

    def oblige(self, name, goal, node=None, assume_after=True, kind='oblig'):
        self.ob_seq += 1
        if isinstance(goal, bool):
            goal = z3.BoolVal(goal)
        if not isinstance(goal, z3.ExprRef):
            key = (self.ob_seq, name, self.decided())
            if key not in self.ex.vc_keys:
                self.ex.vc_keys.add(key)
                site = 'line %d' % node.lineno if node is not None and hasattr(node, 'lineno') else ''
                self.ex.vcs.append(VC(name, list(self.pc), goal, site, self.decided(),
                                      self.ex.func_label, kind, self.roles))
            if assume_after:
                self.assume(goal)
            return
        g = z3.simplify(goal)
        key = (self.ob_seq, name, self.decided())
        if key not in self.ex.vc_keys:
            self.ex.vc_keys.add(key)
            site = ''
            if node is not None and hasattr(node, 'lineno'):
                site = 'line %d' % node.lineno
            if not z3.is_true(g):
                self.ex.vcs.append(VC(name, list(self.pc), g, site, self.decided(),
                                      self.ex.func_label, kind, self.roles))
            else:
                self.ex.vcs.append(VC(name, [], z3.BoolVal(True), site, self.decided(),
                                      self.ex.func_label, kind))
        if assume_after:
            self.assume(g)

    # ---- heap
    def new_obj(self, kind, cls=None, fields=None, meta=None):
        oid = self.next_id
        self.next_id += 1
        self.heap[oid] = HObj(kind, cls, fields, meta)
        return VRef(oid)

    def obj(self, ref):
        if not isinstance(ref, VRef):
            raise Unsupported('expected heap reference, got %r' % (ref,))
        return self.heap[ref.id]

    def snapshot(self):
        return {i: dict(o.f) for i, o in self.heap.items()}

    # ---- fresh values
    def fresh_int(self, name='i', lo=None, hi=None):
        t = z3.Int(fresh_name(name))
        if lo is not None:
            self.assume(t >= lo)
        if hi is not None:
            self.assume(t < hi)
        return VInt(t)

    def fresh_bool(self, name='b'):
        return VBool(z3.Bool(fresh_name(name)))

    def fresh_byte(self, name='by'):
        t = z3.Int(fresh_name(name))
        self.assume(z3.And(t >= 0, t < 256))
        return t

    def fresh_bytes(self, n, name='bs'):
        return VBytes([('b', [self.fresh_byte(name) for _ in range(n)])])

    def fresh_barr(self, name='ba', length=None):
        arr = z3.Array(fresh_name(name), I, I)
        if length is None:
            ln = z3.Int(fresh_name(name + '_len'))
            self.assume(ln >= 0)
        else:
            ln = length
        return VBytes([('a', arr, z3.IntVal(0), ln)])

    def fresh_opaque(self, tag='obj'):
        return VOpaque(z3.Const(fresh_name(tag), Obj), tag)

    def fresh_like(self, v, name='h'):
        if isinstance(v, VInt):
            return VInt(z3.Int(fresh_name(name)))
        if isinstance(v, VBool):
            return VBool(z3.Bool(fresh_name(name)))
        if isinstance(v, VNone):
            return v
        if isinstance(v, VBytes):
            n = v.conc_len()
            if n is not None and n <= 64:
                return self.fresh_bytes(n, name)
            return self.fresh_barr(name)
        if isinstance(v, VTuple):
            return VTuple([self.fresh_like(x, name) for x in v.items])
        if isinstance(v, VOpaque):
            return self.fresh_opaque(v.tag)
        if isinstance(v, VStr):
            if v.s is not None:
                return VStr(codes=[z3.Int(fresh_name(name)) for _ in v.s])
            return VStr(codes=[z3.Int(fresh_name(name)) for _ in v.codes])
        if isinstance(v, VRef):
            return v   # identity of referenced object is kept; its fields are havocked separately
        if isinstance(v, z3.ExprRef):
            return z3.Const(fresh_name(name), v.sort())
        return v

    def event(self, *ev):
        self.events.append(ev)
        h = self.hooks.get('event')
        if h:
            h(self, ev)


# ======================================================================================
# helpers on bytes
# ======================================================================================

def byte_at(ctx, arr, idx):
    t = z3.Select(arr, idx)
    ctx.assume(z3.And(t >= 0, t < 256))
    return t


def bytes_elems(ctx, v, node=None):
    """list of byte terms of a VBytes whose length is concretely known (<= 4096)"""
    n = v.conc_len()
    if n is None:
        raise Unsupported('bytes of symbolic length where a fixed length is needed', node)
    if n > 4096:
        raise Unsupported('bytes too long to enumerate', node)
    out = []
    for s in v.segs:
        if s[0] == 'b':
            out.extend(s[1])
        else:
            ln = z3.simplify(s[3]).as_long()
            for k in range(ln):
                out.append(byte_at(ctx, s[1], z3.simplify(s[2] + k)))
    return out


def be_num(elems):
    t = z3.IntVal(0)
    n = len(elems)
    for k, e in enumerate(elems):
        t = t + e * (256 ** (n - 1 - k))
    return z3.simplify(t) if n else z3.IntVal(0)


def bytes_num(ctx, v, node=None):
    return be_num(bytes_elems(ctx, v, node))


def num_to_bytes(ctx, t, n, name='pk'):
    """n fresh bytes whose big-endian value is t (caller guarantees 0 <= t < 256**n)"""
    cv = z3.simplify(t)
    if z3.is_int_value(cv):
        val = cv.as_long()
        if 0 <= val < 256 ** n:
            return VBytes.lit(val.to_bytes(n, 'big'))
    bs = [ctx.fresh_byte(name) for _ in range(n)]
    ctx.assume(be_num(bs) == t)
    return VBytes([('b', bs)])


def bytes_eq(ctx, a, b, node=None):
    na, nb = a.conc_len(), b.conc_len()
    if na is not None and nb is not None:
        if na != nb:
            return z3.BoolVal(False)
        ea, eb = bytes_elems(ctx, a, node), bytes_elems(ctx, b, node)
        return z3.And([x == y for x, y in zip(ea, eb)]) if ea else z3.BoolVal(True)
    # symbolic length: single array segments only
    la, lb = a.length(), b.length()
    if len(a.segs) == 1 and len(b.segs) == 1 and a.segs[0][0] == 'a' and b.segs[0][0] == 'a':
        sa, sb = a.segs[0], b.segs[0]
        # memoised per pair of slices, so that the code's comparison and a contract's guard
        # are the SAME term (two quantifiers differing in the bound name are different terms)
        key = tuple(z3.simplify(x).get_id() for x in (sa[1], sa[2], sa[3], sb[1], sb[2], sb[3]))
        memo = ctx.ghost.setdefault('$bytes_eq', {})
        if key not in memo:
            k = z3.Int('k$%d' % len(memo))
            memo[key] = z3.And(la == lb, z3.ForAll([k], z3.Implies(
                z3.And(k >= 0, k < la),
                z3.Select(sa[1], sa[2] + k) == z3.Select(sb[1], sb[2] + k))))
        return memo[key]
    if na is not None or nb is not None:
        # one concrete, one symbolic: lengths equal and elementwise on the concrete length
        n = na if na is not None else nb
        conc, sym = (a, b) if na is not None else (b, a)
        if len(sym.segs) == 1 and sym.segs[0][0] == 'a':
            s = sym.segs[0]
            ec = bytes_elems(ctx, conc, node)
            return z3.And([sym.length() == n] +
                          [z3.Select(s[1], s[2] + k) == ec[k] for k in range(n)])
    raise Unsupported('equality of byte ropes of symbolic length', node)


def bytes_lt(ctx, a, b, node=None, strict=True):
    na, nb = a.conc_len(), b.conc_len()
    if na is None or nb is None or na != nb:
        raise Unsupported('ordering of byte strings of unequal/symbolic length', node)
    x, y = bytes_num(ctx, a, node), bytes_num(ctx, b, node)
    return x < y if strict else x <= y


def bytes_slice(ctx, v, lo, hi, node=None):
    """lo/hi: python ints (may be negative / None) or z3 terms (single 'a' segment only)."""
    n = v.conc_len()
    if (lo is None or isinstance(lo, int)) and (hi is None or isinstance(hi, int)):
        if n is not None:
            idx = range(n)[slice(lo, hi)]
            if idx.step != 1:
                raise Unsupported('slice step', node)
            if n <= 4096 and (len(v.segs) != 1 or v.segs[0][0] == 'b' or len(idx) <= 64):
                el = bytes_elems(ctx, v, node)
                return VBytes([('b', el[idx.start:idx.stop] if len(idx) else [])])
            lo, hi = idx.start, max(idx.stop, idx.start)
        else:
            if (lo is not None and lo < 0) or (hi is not None and hi < 0):
                if len(v.segs) == 1 and v.segs[0][0] == 'a':
                    L = v.length()
                    lo = 0 if lo is None else (L + lo if lo < 0 else lo)
                    hi = L if hi is None else (L + hi if hi < 0 else hi)
                else:
                    raise Unsupported('negative slice index on symbolic-length rope', node)
            # prefix of a rope starting with a concrete segment
            if lo is not None and hi is not None and isinstance(lo, int) and isinstance(hi, int) \
                    and v.segs and v.segs[0][0] == 'b' and hi <= len(v.segs[0][1]):
                return VBytes([('b', v.segs[0][1][lo:hi])])
    if len(v.segs) == 1 and v.segs[0][0] == 'a':
        _, arr, off, ln = v.segs[0]
        lo_t = z3.IntVal(0) if lo is None else (z3.IntVal(lo) if isinstance(lo, int) else lo)
        hi_t = ln if hi is None else (z3.IntVal(hi) if isinstance(hi, int) else hi)
        # python clamps: lo' = min(lo, ln), hi' = min(hi, ln), len = max(0, hi'-lo')
        lo_c = z3.If(lo_t > ln, ln, lo_t)
        hi_c = z3.If(hi_t > ln, ln, hi_t)
        nl = z3.If(hi_c > lo_c, hi_c - lo_c, 0)
        return VBytes([('a', arr, z3.simplify(off + lo_c), z3.simplify(nl))])
    if not v.segs:
        return VBytes([])
    raise Unsupported('slice of a byte rope with symbolic bounds', node)


def bytes_concat(a, b):
    return VBytes(a.segs + b.segs)


def truthy(ctx, v, node=None):
    """-> z3 Bool (or python bool)"""
    if isinstance(v, VBool):
        return v.t
    if isinstance(v, VInt):
        return v.t != 0
    if isinstance(v, VNone):
        return False
    if isinstance(v, VBytes):
        n = v.conc_len()
        if n is not None:
            return n != 0
        return v.length() != 0
    if isinstance(v, VStr):
        if v.s is not None:
            return len(v.s) != 0
        return len(v.codes) != 0
    if isinstance(v, VTuple):
        return len(v.items) != 0
    if isinstance(v, VRef):
        o = ctx.obj(v)
        from . import prims
        return prims.obj_truthy(ctx, v, o, node)
    if isinstance(v, (VFunc, VClass, VModule, VExc)):
        return True
    if isinstance(v, VOpaque):
        h = ctx.hooks.get('opaque_truthy')
        if h:
            return h(ctx, v)
        raise Unsupported('truth value of opaque object %s' % v.tag, node)
    raise Unsupported('truth value of %r' % (v,), node)


def as_z3_bool(b):
    if isinstance(b, bool):
        return z3.BoolVal(b)
    return b


def values_identical(ctx, a, b, node=None):
    """`a is b` -> z3 Bool / python bool."""
    if isinstance(a, VNone) or isinstance(b, VNone):
        if isinstance(a, VNone) and isinstance(b, VNone):
            return True
        other = b if isinstance(a, VNone) else a
        if isinstance(other, VOpaque):
            h = ctx.hooks.get('opaque_is_none')
            if h:
                return h(ctx, other)
            return False
        return False
    if isinstance(a, VRef) and isinstance(b, VRef):
        return a.id == b.id
    if isinstance(a, VOpaque) and isinstance(b, VOpaque):
        if a.t.sort() != b.t.sort():
            return False
        return a.t == b.t
    if isinstance(a, VBool) and isinstance(b, VBool):
        return a.t == b.t
    if type(a) is not type(b):
        return False
    if isinstance(a, VInt):
        # small-int identity: only used as `x is default` idiom; equality is the sound reading
        return a.t == b.t
    if isinstance(a, VBytes):
        # identity of bytes objects: the `v is default` idiom; distinct objects unless same rope
        return a is b
    if isinstance(a, VFunc):
        return a.kind == b.kind and a.name == b.name
    if isinstance(a, VClass):
        return a.name == b.name
    if isinstance(a, VStr):
        if a.s is not None and b.s is not None:
            return a.s == b.s
    raise Unsupported('identity comparison of %r and %r' % (a, b), node)


def values_equal(ctx, a, b, node=None):
    """`a == b` -> z3 Bool / python bool."""
    if isinstance(a, (VInt, VBool)) and isinstance(b, (VInt, VBool)):
        ta = a.t if isinstance(a, VInt) else z3.If(a.t, 1, 0)
        tb = b.t if isinstance(b, VInt) else z3.If(b.t, 1, 0)
        return ta == tb
    if isinstance(a, VBytes) and isinstance(b, VBytes):
        return bytes_eq(ctx, a, b, node)
    if isinstance(a, VNone) or isinstance(b, VNone):
        return isinstance(a, VNone) and isinstance(b, VNone)
    if isinstance(a, VStr) and isinstance(b, VStr):
        ca, cb = a.code_terms(), b.code_terms()
        if len(ca) != len(cb):
            return False
        return z3.And([x == y for x, y in zip(ca, cb)]) if ca else True
    if isinstance(a, VTuple) and isinstance(b, VTuple):
        if len(a.items) != len(b.items):
            return False
        parts = [as_z3_bool(values_equal(ctx, x, y, node)) for x, y in zip(a.items, b.items)]
        return z3.And(parts) if parts else True
    if isinstance(a, VOpaque) and isinstance(b, VOpaque):
        h = ctx.hooks.get('opaque_eq')
        if h:
            return h(ctx, a, b)
        if a.t.sort() != b.t.sort():
            return False
        return a.t == b.t
    if isinstance(a, VRef) and isinstance(b, VRef):
        if a.id == b.id:
            return True
        from . import prims
        return prims.obj_equal(ctx, a, b, node)
    if type(a) is not type(b):
        if isinstance(a, (VBytes, VStr, VInt, VBool, VTuple)) and \
                isinstance(b, (VBytes, VStr, VInt, VBool, VTuple)):
            return False
        if isinstance(a, VOpaque) != isinstance(b, VOpaque) and \
                isinstance(a if isinstance(b, VOpaque) else b, (VBytes, VStr, VInt, VBool, VTuple)):
            # an opaque object (class, transaction, ...) never equals a plain value
            return False
    raise Unsupported('equality of %r and %r' % (a, b), node)


# ======================================================================================
# the interpreter
# ======================================================================================

class Interp:
    def __init__(self, registry):
        self.reg = registry

    # ------------------------------------------------------------------ statements
    def exec_block(self, ctx, fr, stmts):
        for s in stmts:
            self.exec_stmt(ctx, fr, s)

    def exec_stmt(self, ctx, fr, s):
        m = getattr(self, 'st_' + type(s).__name__, None)
        if m is None:
            raise Unsupported('statement %s' % type(s).__name__, s)
        return m(ctx, fr, s)

    def st_Expr(self, ctx, fr, s):
        if isinstance(s.value, ast.Constant):
            return  # docstring
        self.eval(ctx, fr, s.value)

    def st_Pass(self, ctx, fr, s):
        return

    def st_Global(self, ctx, fr, s):
        # the named globals are only WRITTEN by the functions analysed (bookkeeping such as
        # fsrecover._trname): assignments go to a local shadow, reads of an unassigned global fail
        ctx.ex.dropped.add('global declaration (writes to module globals are not modelled)')
        return

    def st_Import(self, ctx, fr, s):
        for a in s.names:
            fr.locals[a.asname or a.name.split('.')[0]] = VModule(
                a.name if a.asname else a.name.split('.')[0])

    def st_ImportFrom(self, ctx, fr, s):
        for a in s.names:
            fr.locals[a.asname or a.name] = self.resolve_import(ctx, ('from', s.module, a.name), s)

    def st_Return(self, ctx, fr, s):
        v = NONE if s.value is None else self.eval(ctx, fr, s.value)
        raise ReturnSig(v)

    def st_Break(self, ctx, fr, s):
        raise BreakSig()

    def st_Continue(self, ctx, fr, s):
        raise ContinueSig()

    def st_Assert(self, ctx, fr, s):
        # dropped: `assert isinstance(..)`-style kind assertions decided by the value model;
        # any other assert is a branch: failing raises AssertionError
        v = self.eval(ctx, fr, s.test)
        c = truthy(ctx, v, s)
        if isinstance(c, bool):
            if c:
                return
            raise RaiseSig(VExc('builtins:AssertionError'))
        i = ctx.choose([c, z3.Not(c)], 'assert')
        if i == 1:
            raise RaiseSig(VExc('builtins:AssertionError'))

    def st_Delete(self, ctx, fr, s):
        from . import prims
        for t in s.targets:
            if isinstance(t, ast.Subscript):
                recv = self.eval(ctx, fr, t.value)
                if isinstance(t.slice, ast.Slice):
                    prims.del_slice(ctx, recv, t.slice, s, self, fr)
                else:
                    key = self.eval(ctx, fr, t.slice)
                    prims.del_item(ctx, recv, key, s)
            elif isinstance(t, ast.Name):
                fr.locals.pop(t.id, None)
            elif isinstance(t, ast.Attribute):
                recv = self.eval(ctx, fr, t.value)
                if isinstance(recv, VOpaque):
                    h = ctx.hooks.get('opaque_delattr')
                    if not (h and h(ctx, recv, t.attr, s)):
                        raise Unsupported('del attribute of opaque %s' % recv.tag, s)
                    continue
                o = ctx.obj(recv)
                o.f.pop(t.attr, None)
            else:
                raise Unsupported('del target', s)

    def st_Assign(self, ctx, fr, s):
        v = self.eval(ctx, fr, s.value)
        for t in s.targets:
            self.assign(ctx, fr, t, v, s)

    def st_AnnAssign(self, ctx, fr, s):
        if s.value is not None:
            self.assign(ctx, fr, s.target, self.eval(ctx, fr, s.value), s)

    def st_AugAssign(self, ctx, fr, s):
        if isinstance(s.target, ast.Name):
            cur = self.lookup(ctx, fr, s.target.id, s)
        elif isinstance(s.target, ast.Attribute):
            cur = self.eval(ctx, fr, ast.Attribute(value=s.target.value, attr=s.target.attr,
                                                   ctx=ast.Load(), lineno=s.lineno,
                                                   col_offset=s.col_offset))
        elif isinstance(s.target, ast.Subscript):
            cur = self.eval(ctx, fr, ast.Subscript(value=s.target.value, slice=s.target.slice,
                                                   ctx=ast.Load(), lineno=s.lineno,
                                                   col_offset=s.col_offset))
        else:
            raise Unsupported('augmented assignment target', s)
        rhs = self.eval(ctx, fr, s.value)
        v = self.binop(ctx, s.op, cur, rhs, s)
        self.assign(ctx, fr, s.target, v, s)

    def assign(self, ctx, fr, t, v, node):
        from . import prims
        if isinstance(t, ast.Name):
            fr.locals[t.id] = v
        elif isinstance(t, (ast.Tuple, ast.List)):
            items = self.unpack(ctx, v, len(t.elts), node)
            for tt, vv in zip(t.elts, items):
                self.assign(ctx, fr, tt, vv, node)
        elif isinstance(t, ast.Attribute):
            recv = self.eval(ctx, fr, t.value)
            self.set_attr(ctx, recv, t.attr, v, node)
        elif isinstance(t, ast.Subscript):
            recv = self.eval(ctx, fr, t.value)
            if isinstance(t.slice, ast.Slice):
                raise Unsupported('slice assignment', node)
            key = self.eval(ctx, fr, t.slice)
            prims.set_item(ctx, recv, key, v, node)
        else:
            raise Unsupported('assignment target %s' % type(t).__name__, node)

    def set_attr(self, ctx, recv, name, v, node):
        if isinstance(recv, VRef):
            o = ctx.obj(recv)
            if o.kind in ('inst', 'excinst'):
                h = ctx.hooks.get('setattr')
                if h:
                    h(ctx, recv, name, v, node)
                o.f[name] = v
                return
            if o.kind == 'pickler' and name == 'fast':
                o.f[name] = v
                return
        if isinstance(recv, VExc):
            recv.attrs[name] = v
            return
        if isinstance(recv, VOpaque):
            h = ctx.hooks.get('opaque_setattr')
            if h and h(ctx, recv, name, v, node):
                return
        raise Unsupported('attribute assignment on %r' % (recv,), node)

    def unpack(self, ctx, v, n, node):
        if isinstance(v, VTuple):
            if len(v.items) != n:
                raise RaiseSig(VExc('builtins:ValueError'))
            return v.items
        if isinstance(v, VRef):
            o = ctx.obj(v)
            if o.kind == 'list' and 'items' in o.meta:
                if len(o.meta['items']) != n:
                    raise RaiseSig(VExc('builtins:ValueError'))
                return list(o.meta['items'])
        raise Unsupported('unpacking %r' % (v,), node)

    def st_If(self, ctx, fr, s):
        c = self.eval_cond(ctx, fr, s.test)
        if c:
            self.exec_block(ctx, fr, s.body)
        else:
            self.exec_block(ctx, fr, s.orelse)

    def eval_cond(self, ctx, fr, test):
        """evaluate a condition and branch on it; returns python bool"""
        v = self.eval(ctx, fr, test)
        c = truthy(ctx, v, test)
        if isinstance(c, bool):
            return c
        c = z3.simplify(c)
        if z3.is_true(c):
            return True
        if z3.is_false(c):
            return False
        i = ctx.choose([c, z3.Not(c)], 'if')
        return i == 0

    def st_Raise(self, ctx, fr, s):
        if s.exc is None:
            if not ctx.exc_stack:
                raise Unsupported('bare raise outside handler', s)
            raise RaiseSig(ctx.exc_stack[-1])
        v = self.eval(ctx, fr, s.exc)
        if isinstance(v, VClass):
            v = self.instantiate_exc(ctx, v.name, [], {}, s)
        if isinstance(v, VRef) and ctx.obj(v).kind == 'excinst':
            o = ctx.obj(v)
            v = VExc(o.cls, o.meta.get('args', []), o.f)
        if not isinstance(v, VExc):
            raise Unsupported('raise of non-exception %r' % (v,), s)
        raise RaiseSig(v)

    def st_Try(self, ctx, fr, s):
        try:
            try:
                self.exec_block(ctx, fr, s.body)
            except RaiseSig as rs:
                handled = False
                for h in s.handlers:
                    if self.handler_matches(ctx, fr, h, rs.exc):
                        handled = True
                        if h.name:
                            fr.locals[h.name] = rs.exc
                        ctx.exc_stack.append(rs.exc)
                        try:
                            self.exec_block(ctx, fr, h.body)
                        finally:
                            ctx.exc_stack.pop()
                        break
                if not handled:
                    raise
            else:
                self.exec_block(ctx, fr, s.orelse)
        except (ReturnSig, BreakSig, ContinueSig, RaiseSig):
            if s.finalbody:
                self.exec_block(ctx, fr, s.finalbody)
            raise
        else:
            if s.finalbody:
                self.exec_block(ctx, fr, s.finalbody)

    def handler_matches(self, ctx, fr, h, exc):
        if h.type is None:
            return True
        tv = self.eval(ctx, fr, h.type)
        classes = tv.items if isinstance(tv, VTuple) else [tv]
        for c in classes:
            if not isinstance(c, VClass):
                raise Unsupported('except clause with non-class', h)
            if source.is_subclass(exc.cls, c.name):
                return True
        return False

    def st_With(self, ctx, fr, s):
        self.with_items(ctx, fr, s, 0)

    def with_items(self, ctx, fr, s, k):
        from . import prims
        if k == len(s.items):
            return self.exec_block(ctx, fr, s.body)
        item = s.items[k]
        mgr = self.eval(ctx, fr, item.context_expr)
        val, exit_fn = prims.ctx_enter(ctx, mgr, item.context_expr, self)
        if item.optional_vars is not None:
            self.assign(ctx, fr, item.optional_vars, val, s)
        try:
            self.with_items(ctx, fr, s, k + 1)
        except (ReturnSig, BreakSig, ContinueSig, RaiseSig):
            exit_fn(ctx)
            raise
        else:
            exit_fn(ctx)

    # ---- loops
    def loop_spec(self, ctx, fr, s):
        spec = ctx.cur_spec if ctx.depth == 0 else self.reg.loop_spec_for(fr.funcq)
        k = fr.loop_ord.get(id(s))
        if k is None:
            raise Unsupported('loop not indexed', s)
        ls = None
        if spec is not None:
            ls = spec.loops.get(k) if hasattr(spec, 'loops') else None
        return k, ls

    def st_While(self, ctx, fr, s):
        k, ls = self.loop_spec(ctx, fr, s)
        if ls is None:
            raise Unsupported('while loop #%s of %s has no invariant' % (k, fr.funcq), s)
        self.run_loop(ctx, fr, s, k, ls, cond=lambda: self.eval_cond(ctx, fr, s.test),
                      body=s.body, orelse=s.orelse)

    def run_loop(self, ctx, fr, s, k, ls, cond, body, orelse, pre_iter=None, post_havoc=None):
        pfx = 'loop%d.' % k
        # 1. invariant holds on entry
        for lbl, b in ls.inv(ctx, fr):
            ctx.oblige(pfx + 'inv-entry.' + lbl, b, s)
        # 2. havoc everything the body may modify
        names = assigned_names(body)
        frozen = {nm: fr.locals[nm] for nm in getattr(ls, 'frozen', ()) if nm in fr.locals}
        for nm in sorted(names):
            if nm in fr.locals and nm not in frozen:
                if isinstance(fr.locals[nm], VRef) and not (ls.kinds and nm in ls.kinds):
                    raise Unsupported('loop reassigns the object-valued local %r: the loop contract '
                                      'must say what it refers to after an arbitrary number of '
                                      'iterations (LoopSpec.kinds)' % nm, s)
                fr.locals[nm] = ctx.fresh_like(fr.locals[nm], nm)
        if ls.kinds:
            for nm, mk in ls.kinds.items():
                v = mk(ctx, fr)
                if v is not None:
                    fr.locals[nm] = v
        if ls.havoc:
            ls.havoc(ctx, fr)
        if post_havoc:
            post_havoc()
        # 3. assume the invariant
        for lbl, b in ls.inv(ctx, fr):
            ctx.assume(b)
        which = ctx.choose([True, True], 'loop')
        if which == 0:
            # arbitrary iteration
            if pre_iter is not None:
                if not pre_iter():
                    raise PathEnd()
            elif not cond():
                raise PathEnd()
            var0 = ls.decreases(ctx, fr) if ls.decreases else None
            try:
                self.exec_block(ctx, fr, body)
            except ContinueSig:
                pass
            except BreakSig:
                if ls.on_exit:
                    ls.on_exit(ctx, fr)
                return   # leaves the loop with this path's state; orelse skipped
            if getattr(ls, 'ghost_step', None):
                ls.ghost_step(ctx, fr)
            for lbl, b in ls.inv(ctx, fr):
                ctx.oblige(pfx + 'inv-preserve.' + lbl, b, s, assume_after=False)
            for nm, v0 in frozen.items():
                from .contract import same_value
                ctx.oblige(pfx + 'frozen.' + nm, same_value(ctx, v0, fr.locals.get(nm)), s,
                           assume_after=False)
            if var0 is not None:
                var1 = ls.decreases(ctx, fr)
                ctx.oblige(pfx + 'decreases', z3.And(var0 >= 0, var1 < var0), s,
                           assume_after=False)
            raise PathEnd()
        else:
            if pre_iter is not None:
                if pre_iter(exit=True):
                    raise PathEnd()
            elif cond():
                raise PathEnd()
            if ls.on_exit:
                ls.on_exit(ctx, fr)
            self.exec_block(ctx, fr, orelse)

    def st_For(self, ctx, fr, s):
        from . import prims
        it = self.eval(ctx, fr, s.iter)
        conc = prims.concrete_iter(ctx, it, s)
        if conc is not None:
            # finite, python-side known sequence: unroll
            broke = False
            for item in conc:
                self.assign(ctx, fr, s.target, item, s)
                try:
                    self.exec_block(ctx, fr, s.body)
                except ContinueSig:
                    continue
                except BreakSig:
                    broke = True
                    break
            if not broke:
                self.exec_block(ctx, fr, s.orelse)
            return
        k, ls = self.loop_spec(ctx, fr, s)
        if ls is None:
            raise Unsupported('for loop #%s of %s has no invariant' % (k, fr.funcq), s)
        cursor = prims.sym_iter(ctx, it, s, ls)

        def pre_iter(exit=False):
            if exit:
                return cursor.more(ctx)
            ok = cursor.more(ctx)
            if not ok:
                return False
            self.assign(ctx, fr, s.target, cursor.next(ctx), s)
            return True

        def more_cond(exit=False):
            # choose between "there is another element" and "exhausted"
            c = cursor.has_more(ctx)
            if exit:
                ctx.assume(z3.Not(c) if not isinstance(c, bool) else (not c))
                return False
            ctx.assume(c)
            self.assign(ctx, fr, s.target, cursor.next(ctx), s)
            return True

        fr.locals['$iter%d' % k] = cursor
        self.run_loop(ctx, fr, s, k, ls, cond=None, body=s.body, orelse=s.orelse,
                      pre_iter=more_cond, post_havoc=lambda: cursor.havoc(ctx))

    def st_FunctionDef(self, ctx, fr, s):
        fr.locals[s.name] = VFunc('closure', s.name, None, (s, fr))

    def st_ClassDef(self, ctx, fr, s):
        raise Unsupported('nested class definition', s)

    # ------------------------------------------------------------------ expressions
    def eval(self, ctx, fr, e):
        m = getattr(self, 'ex_' + type(e).__name__, None)
        if m is None:
            raise Unsupported('expression %s' % type(e).__name__, e)
        return m(ctx, fr, e)

    def ex_Constant(self, ctx, fr, e):
        v = e.value
        if v is None:
            return NONE
        if isinstance(v, bool):
            return VBool(v)
        if isinstance(v, int):
            return VInt(v)
        if isinstance(v, bytes):
            return VBytes.lit(v)
        if isinstance(v, str):
            return VStr(v)
        if isinstance(v, float):
            return VOpaque(z3.Const('float_%r' % v, Obj), 'float')
        if v is Ellipsis:
            return NONE
        raise Unsupported('constant %r' % (v,), e)

    def ex_JoinedStr(self, ctx, fr, e):
        # f-strings only occur in messages: opaque text
        return VStr('<fstring>')

    def ex_Name(self, ctx, fr, e):
        return self.lookup(ctx, fr, e.id, e)

    def lookup(self, ctx, fr, name, node):
        if name in fr.locals:
            return fr.locals[name]
        return self.lookup_global(ctx, fr.modname, name, node)

    def lookup_global(self, ctx, modname, name, node):
        m = source.load_module(modname)
        if m is not None:
            ov = self.reg.global_override(modname, name)
            if ov is not None:
                return ov
            if name in m.funcs:
                return VFunc('repo', '%s:%s' % (modname, name))
            if name in m.classes:
                return VClass('%s:%s' % (modname, name))
            if name in m.assigns:
                return self.module_const(ctx, modname, name, node)
            if name in m.imports:
                return self.resolve_import(ctx, m.imports[name], node)
        return self.builtin(name, node)

    def module_const(self, ctx, modname, name, node):
        m = source.load_module(modname)
        expr = m.assigns[name]
        fr = Frame(modname, None, '%s:<module>' % modname, {})
        try:
            return self.eval(ctx, fr, expr)
        except Unsupported as u:
            raise Unsupported('module constant %s.%s: %s' % (modname, name, u.msg), node)

    def resolve_import(self, ctx, imp, node):
        if imp[0] == 'mod':
            return VModule(imp[1])
        _, mod, name = imp
        tm = source.load_module(mod) if mod else None
        if tm is not None:
            sub = source.load_module(mod + '.' + name)
            if name in tm.funcs or name in tm.classes or name in tm.assigns or name in tm.imports:
                return self.lookup_global(ctx, mod, name, node)
            if sub is not None:
                return VModule(mod + '.' + name)
        if mod and source.load_module(mod + '.' + name) is not None:
            return VModule(mod + '.' + name)
        return self.external('%s.%s' % (mod, name), node)

    def external(self, dotted, node):
        from . import prims
        if dotted in prims.EXT_CLASSES:
            return VClass('ext:' + dotted)
        if dotted in prims.PRIMS:
            return VFunc('prim', dotted)
        if dotted in prims.EXT_MODULES:
            return VModule(dotted)
        if dotted in prims.EXT_CONSTS:
            return prims.EXT_CONSTS[dotted]
        return VFunc('prim', dotted)   # resolved (or rejected) at call time

    def builtin(self, name, node):
        from . import prims
        if name in source.BUILTIN_EXC:
            return VClass('builtins:' + name)
        if name in ('bytes', 'str', 'int', 'dict', 'list', 'tuple', 'set', 'object', 'bool',
                    'float', 'type', 'frozenset'):
            return VClass('builtins:' + name)
        if ('builtins.' + name) in prims.PRIMS:
            return VFunc('prim', 'builtins.' + name)
        if name in ('True', 'False'):
            return VBool(name == 'True')
        raise Unsupported('unknown name %s' % name, node)

    def ex_Tuple(self, ctx, fr, e):
        items = []
        for x in e.elts:
            if isinstance(x, ast.Starred):
                sv = self.eval(ctx, fr, x.value)
                items.extend(self.unpack_star(ctx, sv, x))
            else:
                items.append(self.eval(ctx, fr, x))
        return VTuple(items)

    def unpack_star(self, ctx, sv, node):
        if isinstance(sv, VTuple):
            return list(sv.items)
        if isinstance(sv, VRef):
            o = ctx.obj(sv)
            if o.kind == 'list' and 'items' in o.meta:
                return list(o.meta['items'])
        raise Unsupported('star-unpacking of %r' % (sv,), node)

    def ex_List(self, ctx, fr, e):
        items = []
        for x in e.elts:
            if isinstance(x, ast.Starred):
                items.extend(self.unpack_star(ctx, self.eval(ctx, fr, x.value), x))
            else:
                items.append(self.eval(ctx, fr, x))
        return ctx.new_obj('list', meta={'items': items})

    def ex_Dict(self, ctx, fr, e):
        from . import prims
        return prims.new_concrete_dict(ctx, [(self.eval(ctx, fr, k), self.eval(ctx, fr, v))
                                             for k, v in zip(e.keys, e.values)], e)

    def ex_Lambda(self, ctx, fr, e):
        return VFunc('lambda', '<lambda>', None, (e, fr))

    def ex_IfExp(self, ctx, fr, e):
        if self.eval_cond(ctx, fr, e.test):
            return self.eval(ctx, fr, e.body)
        return self.eval(ctx, fr, e.orelse)

    def ex_BoolOp(self, ctx, fr, e):
        # short-circuit, python value semantics (returns the deciding operand)
        last = None
        for i, x in enumerate(e.values):
            last = self.eval(ctx, fr, x)
            if i == len(e.values) - 1:
                return last
            c = truthy(ctx, last, x)
            if not isinstance(c, bool):
                c = z3.simplify(c)
                if z3.is_true(c):
                    c = True
                elif z3.is_false(c):
                    c = False
                else:
                    c = ctx.choose([c, z3.Not(c)], 'boolop') == 0
            if isinstance(e.op, ast.And):
                if not c:
                    return last
            else:
                if c:
                    return last
        return last

    def ex_UnaryOp(self, ctx, fr, e):
        v = self.eval(ctx, fr, e.operand)
        if isinstance(e.op, ast.Not):
            c = truthy(ctx, v, e)
            if isinstance(c, bool):
                return VBool(not c)
            return VBool(z3.Not(c))
        if isinstance(e.op, ast.USub):
            if isinstance(v, VInt):
                return VInt(-v.t)
        raise Unsupported('unary operator', e)

    def ex_BinOp(self, ctx, fr, e):
        a = self.eval(ctx, fr, e.left)
        b = self.eval(ctx, fr, e.right)
        return self.binop(ctx, e.op, a, b, e)

    def binop(self, ctx, op, a, b, node):
        from . import prims
        if isinstance(a, VBool) and isinstance(b, (VInt, VBool)):
            a = VInt(z3.If(a.t, 1, 0))
        if isinstance(b, VBool) and isinstance(a, VInt):
            b = VInt(z3.If(b.t, 1, 0))
        if isinstance(a, VInt) and isinstance(b, VInt):
            if isinstance(op, ast.Add):
                return VInt(a.t + b.t)
            if isinstance(op, ast.Sub):
                return VInt(a.t - b.t)
            if isinstance(op, ast.Mult):
                ca, cb = a.conc(), b.conc()
                if ca is None and cb is None:
                    raise Unsupported('non-linear multiplication', node)
                return VInt(a.t * b.t)
            if isinstance(op, (ast.FloorDiv, ast.Mod)):
                cb = b.conc()
                if cb is None or cb <= 0:
                    raise Unsupported('division by non-constant or non-positive', node)
                # python floor semantics == z3 Euclidean semantics for positive divisor
                return VInt(a.t / b.t) if isinstance(op, ast.FloorDiv) else VInt(a.t % b.t)
            if isinstance(op, ast.Pow):
                ca, cb = a.conc(), b.conc()
                if ca is not None and cb is not None and cb >= 0:
                    return VInt(ca ** cb)
            if isinstance(op, ast.LShift):
                cb = b.conc()
                if cb is not None and cb >= 0:
                    return VInt(a.t * (2 ** cb))
            if isinstance(op, ast.RShift):
                cb = b.conc()
                if cb is not None and cb >= 0:
                    return VInt(a.t / (2 ** cb))
            if isinstance(op, ast.BitAnd):
                ca, cb = a.conc(), b.conc()
                if ca is not None and cb is not None:
                    return VInt(ca & cb)
                if cb is not None and cb >= 0 and (cb + 1) & cb == 0:
                    return VInt(a.t % (cb + 1))
            raise Unsupported('integer operator %s' % type(op).__name__, node)
        if isinstance(a, VBytes) and isinstance(b, VBytes) and isinstance(op, ast.Add):
            return bytes_concat(a, b)
        if isinstance(a, VBytes) and isinstance(b, VInt) and isinstance(op, ast.Mult):
            n = b.conc()
            if n is None or a.conc_len() is None:
                raise Unsupported('bytes repetition with symbolic operands', node)
            return VBytes([seg for _ in range(n) for seg in a.segs])
        if isinstance(a, VStr) and isinstance(b, VStr) and isinstance(op, ast.Add):
            if a.s is not None and b.s is not None:
                return VStr(a.s + b.s)
            return prims.str_concat(ctx, a, b, node)
        if isinstance(a, VStr) and isinstance(op, ast.Mod):
            return VStr('<formatted>')
        if isinstance(a, VTuple) and isinstance(b, VTuple) and isinstance(op, ast.Add):
            return VTuple(a.items + b.items)
        if isinstance(a, VTuple) and isinstance(b, VInt) and isinstance(op, ast.Mult):
            n = b.conc()
            if n is not None:
                return VTuple(a.items * n)
        r = prims.binop_ext(ctx, op, a, b, node)
        if r is not None:
            return r
        raise Unsupported('operator %s on %r, %r' % (type(op).__name__, a, b), node)

    def ex_Compare(self, ctx, fr, e):
        left = self.eval(ctx, fr, e.left)
        parts = []
        for op, rhs in zip(e.ops, e.comparators):
            right = self.eval(ctx, fr, rhs)
            parts.append(self.compare(ctx, op, left, right, e))
            left = right
        if len(parts) == 1:
            p = parts[0]
            return VBool(p)
        return VBool(z3.And([as_z3_bool(p) for p in parts]))

    def compare(self, ctx, op, a, b, node):
        from . import prims
        if isinstance(op, ast.Is):
            return values_identical(ctx, a, b, node)
        if isinstance(op, ast.IsNot):
            r = values_identical(ctx, a, b, node)
            return (not r) if isinstance(r, bool) else z3.Not(r)
        if isinstance(op, ast.Eq):
            return values_equal(ctx, a, b, node)
        if isinstance(op, ast.NotEq):
            r = values_equal(ctx, a, b, node)
            return (not r) if isinstance(r, bool) else z3.Not(r)
        if isinstance(op, (ast.In, ast.NotIn)):
            r = prims.contains(ctx, b, a, node)
            if isinstance(op, ast.NotIn):
                r = (not r) if isinstance(r, bool) else z3.Not(r)
            return r
        if isinstance(a, VBool):
            a = VInt(z3.If(a.t, 1, 0))
        if isinstance(b, VBool):
            b = VInt(z3.If(b.t, 1, 0))
        if isinstance(a, VInt) and isinstance(b, VInt):
            x, y = a.t, b.t
        elif isinstance(a, VBytes) and isinstance(b, VBytes):
            na, nb = a.conc_len(), b.conc_len()
            if na == 0 or nb == 0:
                # the empty string is smaller than every non-empty one
                x, y = z3.IntVal(0 if na == 0 else 1), z3.IntVal(0 if nb == 0 else 1)
                if na is None or nb is None:
                    raise Unsupported('ordering against a symbolic-length byte string', node)
            elif na is None or nb is None or na != nb:
                raise Unsupported('ordering of byte strings of unequal/symbolic length', node)
            else:
                x, y = bytes_num(ctx, a, node), bytes_num(ctx, b, node)
        else:
            r = prims.compare_ext(ctx, op, a, b, node)
            if r is not None:
                return r
            raise Unsupported('ordering of %r and %r' % (a, b), node)
        if isinstance(op, ast.Lt):
            return x < y
        if isinstance(op, ast.LtE):
            return x <= y
        if isinstance(op, ast.Gt):
            return x > y
        if isinstance(op, ast.GtE):
            return x >= y
        raise Unsupported('comparison operator', node)

    def ex_Subscript(self, ctx, fr, e):
        from . import prims
        recv = self.eval(ctx, fr, e.value)
        if isinstance(e.slice, ast.Slice):
            lo = None if e.slice.lower is None else self.eval(ctx, fr, e.slice.lower)
            hi = None if e.slice.upper is None else self.eval(ctx, fr, e.slice.upper)
            if e.slice.step is not None:
                raise Unsupported('slice step', e)
            return prims.get_slice(ctx, recv, lo, hi, e)
        key = self.eval(ctx, fr, e.slice)
        return prims.get_item(ctx, recv, key, e)

    def ex_Attribute(self, ctx, fr, e):
        recv = self.eval(ctx, fr, e.value)
        return self.get_attr(ctx, recv, e.attr, e)

    def get_attr(self, ctx, recv, name, node):
        from . import prims
        if isinstance(recv, VRef):
            o = ctx.obj(recv)
            if o.kind in ('inst', 'excinst'):
                if name in o.f:
                    if 'trace_getattr' in ctx.hooks:
                        ctx.event('getattr', recv.id, name)
                    return o.f[name]
                if o.cls is not None:
                    q, fn = source.find_method(o.cls, name)
                    if fn is not None:
                        if is_staticmethod(fn):
                            return VFunc('repo', q)
                        if is_property(fn):
                            return self.call_repo(ctx, q, [recv], {}, node)
                        return VFunc('repo', q, recv)
                    mod, a = source.find_class_attr(o.cls, name)
                    if a is not None:
                        fr2 = Frame(mod, None, '%s:<class>' % mod, {})
                        return self.eval(ctx, fr2, a)
                h = ctx.hooks.get('getattr')
                if h:
                    r = h(ctx, recv, name, node)
                    if r is not None:
                        return r
                raise Unsupported('unknown attribute %s of %s' % (name, o.cls), node)
            if name in o.f and isinstance(o.f[name], V):
                return o.f[name]      # data attribute of a model object
            return VFunc('meth', name, recv)
        if isinstance(recv, VModule):
            return self.module_attr(ctx, recv, name, node)
        if isinstance(recv, VClass):
            mod, cn = source.split_qual(recv.name)
            if mod not in ('ext', 'builtins'):
                q, fn = source.find_method(recv.name, name)
                if fn is not None:
                    if is_classmethod(fn):
                        return VFunc('repo', q, recv)
                    return VFunc('repo', q)
                m2, a = source.find_class_attr(recv.name, name)
                if a is not None:
                    return self.eval(ctx, Frame(m2, None, '%s:<class>' % m2, {}), a)
            return VFunc('prim', '%s.%s' % (recv.name.replace('ext:', '').replace(
                'builtins:', 'builtins.'), name))
        if isinstance(recv, VExc):
            if name in recv.attrs:
                return recv.attrs[name]
            if name == 'args':
                return VTuple(recv.args)
            q, fn = source.find_method(recv.cls, name)
            if fn is not None:
                return VFunc('repo', q, recv)
            raise Unsupported('attribute %s of exception %s' % (name, recv.cls), node)
        if isinstance(recv, VOpaque):
            h = ctx.hooks.get('opaque_attr')
            if h:
                r = h(ctx, recv, name, node)
                if r is not None:
                    return r
            return VFunc('ometh', name, recv)
        if isinstance(recv, (VBytes, VStr, VTuple, VInt)):
            return VFunc('meth', name, recv)
        if isinstance(recv, (prims.VStruct, prims.VLogger)):
            return VFunc('meth', name, recv)
        if isinstance(recv, VNone):
            raise RaiseSig(VExc('builtins:AttributeError'))
        if isinstance(recv, VFunc):
            raise Unsupported('attribute %s of function' % name, node)
        raise Unsupported('attribute %s of %r' % (name, recv), node)

    def module_attr(self, ctx, mv, name, node):
        m = source.load_module(mv.name)
        if m is not None:
            if name in m.funcs or name in m.classes or name in m.assigns or name in m.imports:
                return self.lookup_global(ctx, mv.name, name, node)
            if source.load_module(mv.name + '.' + name) is not None:
                return VModule(mv.name + '.' + name)
            raise Unsupported('unknown attribute %s of module %s' % (name, mv.name), node)
        if source.load_module(mv.name + '.' + name) is not None:
            return VModule(mv.name + '.' + name)
        return self.external(mv.name + '.' + name, node)

    def ex_Starred(self, ctx, fr, e):
        raise Unsupported('starred expression', e)

    def ex_ListComp(self, ctx, fr, e):
        from . import prims
        return prims.comprehension(ctx, self, fr, e)

    def ex_GeneratorExp(self, ctx, fr, e):
        from . import prims
        return prims.comprehension(ctx, self, fr, e)

    def ex_Call(self, ctx, fr, e):
        fv = self.eval(ctx, fr, e.func)
        from . import prims as _p
        if isinstance(fv, VFunc) and fv.kind == 'meth' and isinstance(fv.selfv, _p.VLogger):
            # logging calls are dropped by the extraction: their arguments are not evaluated
            ctx.ex.dropped.add('logging call')
            return NONE
        args = []
        for a in e.args:
            if isinstance(a, ast.Starred):
                args.extend(self.unpack_star(ctx, self.eval(ctx, fr, a.value), a))
            else:
                args.append(self.eval(ctx, fr, a))
        kwargs = {}
        for kw in e.keywords:
            if kw.arg is None:
                d = self.eval(ctx, fr, kw.value)
                if isinstance(d, VRef) and ctx.obj(d).kind == 'pydict':
                    for k, v in ctx.obj(d).meta['pairs']:
                        if not isinstance(k, VStr) or k.s is None:
                            raise Unsupported('**kwargs with non-literal key', e)
                        kwargs[k.s] = v
                    continue
                raise Unsupported('**kwargs call', e)
            kwargs[kw.arg] = self.eval(ctx, fr, kw.value)
        return self.call_value(ctx, fv, args, kwargs, e, fr)

    # ------------------------------------------------------------------ calls
    def call_value(self, ctx, fv, args, kwargs, node, fr=None):
        from . import prims
        if isinstance(fv, VFunc):
            if fv.kind == 'repo':
                a = ([fv.selfv] if fv.selfv is not None else []) + list(args)
                return self.call_repo(ctx, fv.name, a, kwargs, node)
            if fv.kind == 'prim':
                return prims.call_prim(ctx, self, fv.name, args, kwargs, node, fr)
            if fv.kind in ('meth', 'ometh'):
                return prims.call_method(ctx, self, fv.selfv, fv.name, args, kwargs, node, fr)
            if fv.kind == 'lambda':
                lam, lfr = fv.extra
                nf = Frame(lfr.modname, lfr.clsq, lfr.funcq, dict(lfr.locals))
                self.bind_args(ctx, nf, lam.args, args, kwargs, node)
                return self.eval(ctx, nf, lam.body)
            if fv.kind == 'closure':
                fn, lfr = fv.extra
                nf = Frame(lfr.modname, lfr.clsq, lfr.funcq + '.<locals>.' + fn.name,
                           dict(lfr.locals))
                index_loops(fn, nf)
                self.bind_args(ctx, nf, fn.args, args, kwargs, node)
                try:
                    self.exec_block(ctx, nf, fn.body)
                except ReturnSig as r:
                    return r.value
                return NONE
            if fv.kind == 'spec':
                return fv.extra(ctx, args, kwargs, node)
        if isinstance(fv, VClass):
            return self.instantiate(ctx, fv, args, kwargs, node)
        if isinstance(fv, VOpaque):
            h = ctx.hooks.get('opaque_call')
            if h:
                r = h(ctx, fv, args, kwargs, node)
                if r is not None:
                    return r
        raise Unsupported('call of %r' % (fv,), node)

    def instantiate(self, ctx, cv, args, kwargs, node):
        from . import prims
        mod, cn = source.split_qual(cv.name)
        if mod in ('ext', 'builtins') or self.reg.class_is_prim(cv.name):
            if source.is_subclass(cv.name, 'builtins:BaseException') and mod == 'builtins':
                return VExc(cv.name, args)
            return prims.construct(ctx, self, cv.name, args, kwargs, node)
        if source.is_subclass(cv.name, 'builtins:BaseException'):
            return self.instantiate_exc(ctx, cv.name, args, kwargs, node)
        hk = ctx.hooks.get('construct:' + cv.name)
        if hk is not None:
            # a contract may stand in for a constructor (listed among its assumptions)
            return hk(ctx, self, args, kwargs, node)
        ref = ctx.new_obj('inst', cv.name)
        q, fn = source.find_method(cv.name, '__init__')
        if fn is not None:
            self.call_repo(ctx, q, [ref] + list(args), kwargs, node)
        return ref

    def instantiate_exc(self, ctx, cq, args, kwargs, node):
        exc = VExc(cq, args)
        q, fn = source.find_method(cq, '__init__')
        if fn is not None:
            # run the constructor on a scratch instance to collect attributes
            ref = ctx.new_obj('excinst', cq, meta={'args': list(args)})
            try:
                self.inline(ctx, q, fn, [ref] + list(args), kwargs, node)
                exc.attrs = ctx.obj(ref).f
            except Unsupported:
                pass
        for k, v in kwargs.items():
            exc.attrs.setdefault(k, v)
        return exc

    def call_repo(self, ctx, qual, args, kwargs, node):
        m, fn = source.find_function(qual)
        if fn is None:
            raise Unsupported('cannot find %s' % qual, node)
        hk = ctx.hooks.get('call:' + qual)
        if hk is not None:
            return hk(ctx, args, kwargs, node)
        spec = self.reg.call_spec(qual)
        verifying_self = (ctx.cur_spec is not None and ctx.depth == 0 and
                          getattr(ctx, 'entered', False) is False)
        if spec is not None and not verifying_self:
            ctx.ex.contracts_used.add(qual)
            amap = self.args_to_map(ctx, qual, fn, args, kwargs, node)
            return spec.apply(ctx, self, amap, node)
        if self.reg.is_inline(qual) or verifying_self:
            if not verifying_self:
                ctx.ex.inlined.add(qual)
            return self.inline(ctx, qual, fn, args, kwargs, node)
        raise Unsupported('call to %s: no contract and not inlinable' % qual, node)

    def args_to_map(self, ctx, qual, fn, args, kwargs, node):
        mod, name = source.split_qual(qual)
        fr = Frame(mod, None, qual, {})
        self.bind_args(ctx, fr, fn.args, args, kwargs, node)
        return fr.locals

    def bind_args(self, ctx, fr, a, args, kwargs, node):
        params = [p.arg for p in a.posonlyargs + a.args]
        defaults = a.defaults
        nd = len(defaults)
        args = list(args)
        kwargs = dict(kwargs)
        for i, p in enumerate(params):
            if i < len(args):
                fr.locals[p] = args[i]
            elif p in kwargs:
                fr.locals[p] = kwargs.pop(p)
            else:
                di = i - (len(params) - nd)
                if di < 0:
                    raise Unsupported('missing argument %s' % p, node)
                fr.locals[p] = self.eval(ctx, Frame(fr.modname, None, fr.funcq, {}),
                                         defaults[di])
        if len(args) > len(params):
            if a.vararg is None:
                raise Unsupported('too many arguments', node)
            fr.locals[a.vararg.arg] = VTuple(args[len(params):])
        elif a.vararg is not None:
            fr.locals[a.vararg.arg] = VTuple([])
        for p, d in zip(a.kwonlyargs, a.kw_defaults):
            if p.arg in kwargs:
                fr.locals[p.arg] = kwargs.pop(p.arg)
            elif d is not None:
                fr.locals[p.arg] = self.eval(ctx, Frame(fr.modname, None, fr.funcq, {}), d)
            else:
                raise Unsupported('missing kw-only argument', node)
        if a.kwarg is not None:
            fr.locals[a.kwarg.arg] = ctx.new_obj('pydict', meta={
                'pairs': [(VStr(k), v) for k, v in kwargs.items()]})
        elif kwargs:
            raise Unsupported('unexpected keyword arguments %s' % list(kwargs), node)

    def inline(self, ctx, qual, fn, args, kwargs, node):
        mod, name = source.split_qual(qual)
        clsq = None
        if '.' in name:
            clsq = '%s:%s' % (mod, name.rsplit('.', 1)[0])
        fr = Frame(mod, clsq, qual, {})
        index_loops(fn, fr)
        if ctx.depth > 12:
            raise Unsupported('inline depth exceeded at %s' % qual, node)
        self.bind_args(ctx, fr, fn.args, args, kwargs, node)
        wrappers = self.decorators(ctx, fr, fn, node)
        first = not getattr(ctx, 'entered', False) and ctx.depth == 0
        if first:
            ctx.entered = True
        else:
            ctx.depth += 1
        try:
            for w_enter in wrappers:
                w_enter[0](ctx)
            try:
                try:
                    if is_generator(fn):
                        raise Unsupported('generator function %s' % qual, node)
                    self.exec_block(ctx, fr, fn.body)
                    result = NONE
                except ReturnSig as r:
                    result = r.value
            except RaiseSig:
                for w in reversed(wrappers):
                    w[1](ctx)
                raise
            for w in reversed(wrappers):
                w[1](ctx)
            return result
        finally:
            if not first:
                ctx.depth -= 1

    def decorators(self, ctx, fr, fn, node):
        """-> list of (enter, exit) closures for supported decorators"""
        from . import prims
        out = []
        for d in fn.decorator_list:
            nm = decorator_name(d)
            if nm in ('staticmethod', 'classmethod', 'property'):
                continue
            if nm in ('locked', 'utils.locked', 'ZODB.utils.locked'):
                out.append(prims.locked_decorator(ctx, self, fr, d, node))
                continue
            raise Unsupported('decorator %s' % nm, node)
        return out


def decorator_name(d):
    if isinstance(d, ast.Call):
        d = d.func
    if isinstance(d, ast.Name):
        return d.id
    if isinstance(d, ast.Attribute):
        parts = []
        while isinstance(d, ast.Attribute):
            parts.append(d.attr)
            d = d.value
        if isinstance(d, ast.Name):
            parts.append(d.id)
        return '.'.join(reversed(parts))
    return '?'


def is_staticmethod(fn):
    return any(decorator_name(d) == 'staticmethod' for d in fn.decorator_list)


def is_classmethod(fn):
    return any(decorator_name(d) == 'classmethod' for d in fn.decorator_list)


def is_property(fn):
    return any(decorator_name(d) == 'property' for d in fn.decorator_list)


def is_generator(fn):
    for n in ast.walk(fn):
        if isinstance(n, (ast.Yield, ast.YieldFrom)):
            # ignore nested defs
            return True
    return False


def assigned_names(stmts):
    """local names (re)bound anywhere inside a list of statements"""
    out = set()

    class Vis(ast.NodeVisitor):
        def visit_Name(self, n):
            if isinstance(n.ctx, (ast.Store, ast.Del)):
                out.add(n.id)

        def visit_FunctionDef(self, n):
            out.add(n.name)

        def visit_Lambda(self, n):
            pass

        def visit_ExceptHandler(self, n):
            if n.name:
                out.add(n.name)
            self.generic_visit(n)

    v = Vis()
    for s in stmts:
        v.visit(s)
    return out


def index_loops(fn, fr):
    """number the loops of a function in source (pre-)order"""
    k = 0
    todo = list(fn.body)

    def walk(stmts):
        nonlocal k
        for s in stmts:
            if isinstance(s, (ast.While, ast.For)):
                fr.loop_ord[id(s)] = k
                k += 1
            for fld in ('body', 'orelse', 'finalbody'):
                sub = getattr(s, fld, None)
                if sub and not isinstance(s, (ast.FunctionDef, ast.ClassDef, ast.Lambda)):
                    walk(sub)
            if isinstance(s, ast.Try):
                for h in s.handlers:
                    walk(h.body)
    walk(todo)
    return k
