"""Own quantifier instantiation (DESIGN 3.5, "ground stage").

Quantified facts of contracts are written as Q objects (a python function building the body
from argument terms, plus the *role* of each bound variable, e.g. 'oid' / 'pos').  A VC is then
discharged by instantiating every universally quantified hypothesis at the ground terms of the
matching role that occur in the VC (a fixed, deterministic, solver-independent strategy, closed
under a bounded number of rounds) and sending a quantifier-free query.  Instantiation only
weakens hypotheses, so `unsat` is a sound proof; `sat` yields a candidate model.
"""
import itertools

import z3

from .values import B, I, fresh_name


class Q:
    """kind 'all' | 'ex'; roles: tuple of role names (one per bound variable);
    body: fn(*terms) -> z3 Bool (quantifier free).  The body is evaluated ONCE, eagerly, on
    placeholder variables (so that it cannot observe later mutations of the symbolic state);
    instances are obtained by substitution."""
    __slots__ = ('kind', 'roles', 'vars', 'expr', 'name')

    def __init__(self, kind, roles, body, name='', _vars=None, _expr=None):
        self.kind = kind
        self.roles = tuple(roles)
        self.name = name
        if _vars is not None:
            self.vars, self.expr = _vars, _expr
        else:
            self.vars = [z3.Int(fresh_name('qv_' + r)) for r in self.roles]
            e = body(*self.vars)
            if isinstance(e, bool):
                e = z3.BoolVal(e)
            self.expr = e

    def body(self, *terms):
        return z3.substitute(self.expr, *[(v, t) for v, t in zip(self.vars, terms)])

    def z3(self):
        return z3.ForAll(self.vars, self.expr) if self.kind == 'all' \
            else z3.Exists(self.vars, self.expr)

    def negated(self):
        return Q('ex' if self.kind == 'all' else 'all', self.roles, None, 'not-' + self.name,
                 _vars=self.vars, _expr=z3.Not(self.expr))


def All(roles, body, name=''):
    return Q('all', roles, body, name)


def Ex(roles, body, name=''):
    return Q('ex', roles, body, name)


class Roles:
    """which argument positions of which ghost symbols carry which role"""

    def __init__(self):
        self.arrays = {}      # array ast id -> role of the index of Select(array, idx)
        self.nested = {}      # outer array ast id -> (role outer idx, role inner idx)
        self.funcs = {}       # function name -> [role per argument or None]
        self.afuncs = {}      # array-valued function name -> role of the index of Select(f(..), idx)
        self.seeds = {}       # role -> [terms] explicitly provided by the spec

    def array(self, arr, role):
        self.arrays[arr.get_id()] = role

    def nested_array(self, arr, role_outer, role_inner):
        self.nested[arr.get_id()] = (role_outer, role_inner)

    def func(self, f, roles):
        self.funcs[f.name()] = list(roles)

    def afunc(self, f, role):
        self.afuncs[f.name()] = role

    def seed(self, role, term):
        self.seeds.setdefault(role, []).append(term)

    def merge(self, other):
        self.arrays.update(other.arrays)
        self.nested.update(other.nested)
        self.funcs.update(other.funcs)
        self.afuncs.update(other.afuncs)
        for k, v in other.seeds.items():
            self.seeds.setdefault(k, []).extend(v)


def collect_terms(exprs, roles, found, seen):
    """walk asts, add candidate terms per role into found: role -> {ast id: term}"""
    stack = list(exprs)
    while stack:
        e = stack.pop()
        k = e.get_id()
        if k in seen:
            continue
        seen.add(k)
        if z3.is_quantifier(e):
            continue
        if not z3.is_app(e):
            continue
        ch = e.children()
        if z3.is_select(e):
            a, idx = base_array(ch[0]), ch[1]
            r = roles.arrays.get(a.get_id())
            if r is not None:
                found.setdefault(r, {}).setdefault(idx.get_id(), idx)
            if r is None and z3.is_app(a) and a.num_args() and \
                    a.decl().kind() == z3.Z3_OP_UNINTERPRETED:
                r = roles.afuncs.get(a.decl().name())
                if r is not None:
                    found.setdefault(r, {}).setdefault(idx.get_id(), idx)
            if z3.is_select(a):
                outer = base_array(a.arg(0))
                rr = roles.nested.get(outer.get_id())
                if rr is not None:
                    found.setdefault(rr[0], {}).setdefault(a.arg(1).get_id(), a.arg(1))
                    found.setdefault(rr[1], {}).setdefault(idx.get_id(), idx)
        else:
            d = e.decl()
            if d.kind() == z3.Z3_OP_UNINTERPRETED and ch:
                rs = roles.funcs.get(d.name())
                if rs:
                    for r, t in zip(rs, ch):
                        if r is not None:
                            found.setdefault(r, {}).setdefault(t.get_id(), t)
        stack.extend(ch)


def FAnd(*parts):
    parts = [p for p in parts]
    return ('and', parts)


def FOr(*parts):
    return ('or', list(parts))


def FNot(f):
    return ('not', f)


def FImplies(a, b):
    return ('or', [('not', a), b])


def is_plain(f):
    return isinstance(f, (bool, z3.ExprRef))


def has_q(f):
    if is_plain(f):
        return False
    if isinstance(f, Q):
        return True
    if f[0] == 'not':
        return has_q(f[1])
    return any(has_q(x) for x in f[1])


def to_z3(f):
    """render a formula tree with Q leaves as one (quantified) z3 formula"""
    if isinstance(f, bool):
        return z3.BoolVal(f)
    if isinstance(f, z3.ExprRef):
        return f
    if isinstance(f, Q):
        return f.z3()
    if f[0] == 'not':
        return z3.Not(to_z3(f[1]))
    parts = [to_z3(x) for x in f[1]]
    if f[0] == 'and':
        return z3.And(parts) if parts else z3.BoolVal(True)
    return z3.Or(parts) if parts else z3.BoolVal(False)


class NNFEnv:
    def __init__(self):
        self.schemas = []
        self.seeds = {}


def nnf(f, positive, env):
    """quantifier-free z3 term equisatisfiable with f (resp. not f): existentials are
    skolemised (their constants become seed terms), universals become schemas guarded by a
    fresh selector"""
    if isinstance(f, bool):
        return z3.BoolVal(f if positive else not f)
    if isinstance(f, z3.ExprRef):
        return f if positive else z3.Not(f)
    if isinstance(f, Q):
        q = f if positive else f.negated()
        if q.kind == 'ex':
            cs = [z3.Int(fresh_name('sk_' + r)) for r in q.roles]
            for r, cst in zip(q.roles, cs):
                env.seeds.setdefault(r, []).append(cst)
            return q.body(*cs)
        sel = z3.Bool(fresh_name('sel'))
        env.schemas.append(Q('all', q.roles, None, q.name, _vars=q.vars,
                             _expr=z3.Implies(sel, q.expr)))
        return sel
    if f[0] == 'not':
        return nnf(f[1], not positive, env)
    parts = [nnf(x, positive, env) for x in f[1]]
    conj = (f[0] == 'and') == positive
    if conj:
        return z3.And(parts) if parts else z3.BoolVal(True)
    return z3.Or(parts) if parts else z3.BoolVal(False)


def base_array(a):
    while z3.is_app(a) and a.decl().kind() == z3.Z3_OP_STORE:
        a = a.arg(0)
    return a


def ground_check(hyps, goal, roles, timeout_ms=20000, rounds=2, max_terms=14,
                 max_instances=8000):
    """hyps: list of formula trees (z3 Bool / Q / and-or-not trees); goal: formula tree.
    -> (z3 result, solver, stats)"""
    s = z3.Solver()
    s.set('timeout', timeout_ms)
    env = NNFEnv()
    asserted = []

    def add(b):
        s.add(b)
        asserted.append(b)
    for h in hyps:
        add(nnf(h, True, env))
    add(nnf(goal, False, env))
    found = {}
    seen = set()
    for r, ts in list(roles.seeds.items()) + list(env.seeds.items()):
        for t in ts:
            found.setdefault(r, {}).setdefault(t.get_id(), t)
    done = set()
    n_inst = 0
    base_count = {}
    for rnd in range(rounds + 1):
        collect_terms(asserted, roles, found, seen)
        cur = {}
        for r, d in found.items():
            ts = list(d.values())
            if rnd == 0:
                # every term of the VC itself (and every seed) is always used
                base_count[r] = len(ts)
            lim = max(max_terms, base_count.get(r, 0))
            if len(ts) > lim:
                ts = ts[:lim]
            cur[r] = ts
        new_asserts = []
        for qi, q in enumerate(env.schemas):
            pools = [cur.get(r, []) for r in q.roles]
            if any(not p for p in pools):
                continue
            for tup in itertools.product(*pools):
                key = (qi,) + tuple(t.get_id() for t in tup)
                if key in done:
                    continue
                done.add(key)
                n_inst += 1
                if n_inst > max_instances:
                    break
                inst = z3.simplify(q.body(*tup))
                if z3.is_true(inst):
                    continue
                new_asserts.append(inst)
            if n_inst > max_instances:
                break
        if not new_asserts:
            break
        asserted = []
        for b in new_asserts:
            add(b)
    stats = {'instances': n_inst, 'terms': {k: len(v) for k, v in found.items()}}
    # portfolio: z3 is unstable on these QF_AUFLIA queries (the same query is 0.5 s with one
    # variable order and > 10 s with another); try several seeds with a share of the budget
    budget = timeout_ms
    attempts = [(None, budget // 4), (7, budget // 4), (23, budget // 4), (101, budget // 4)]
    last = None
    allasserts = s.assertions()
    for k, (seed, tmo) in enumerate(attempts):
        if seed is None:
            sk = s
        else:
            sk = z3.Solver()
            sk.set('smt.random_seed', seed)
            sk.set('smt.arith.random_initial_value', True)
            for a in allasserts:
                sk.add(a)
        sk.set('timeout', max(1000, tmo))
        r = sk.check()
        last = sk
        stats['attempts'] = k + 1
        if r != z3.unknown:
            return r, sk, stats
    return z3.unknown, last, stats
