"""Primitive models: bytes/str methods, struct, files, maps, lists, locks, os.* (DESIGN 3.3).

Every model that can fail forks an exceptional path.  Models are deliberately explicit about
what they assume; the list TRUSTED_MODELS below is copied into every evidence file.
"""
import ast
import re

import z3

from . import source
from .engine import (BreakSig, ContinueSig, Frame, PathEnd, RaiseSig, ReturnSig,
                     Unsupported, as_z3_bool, be_num, byte_at, bytes_concat,
                     bytes_elems, bytes_eq, bytes_num, bytes_slice, num_to_bytes,
                     truthy, values_equal, values_identical)
from .values import (B, I, NONE, Obj, V, VBool, VBytes, VClass, VCtxMgr, VExc,
                     VFunc, VInt, VModule, VNone, VOpaque, VRef, VStr, VTuple,
                     fresh_name)

TRUSTED_MODELS = [
    'python ints are mathematical integers; bytes elements are 0..255',
    'struct formats >Q >H >8s c etc. are big-endian fixed-width fields; out-of-range pack raises struct.error',
    'file objects: in-order write model; read(n) returns min(n, size-pos) bytes; seek(<0) raises OSError; '
    'truncate(n) sets the size, bytes beyond the size read as absent',
    'os.rename atomic; os.fsync makes the flushed image durable',
    'dict / BTrees containers behave as finite maps (sorted for BTrees) - BTrees C code is not verified',
    'threading locks: ghost hold counts; one thread runs inside a critical section',
]

EXT_CLASSES = {
    'struct.error', 'BTrees.OOBTree.OOBTree', 'BTrees.fsBTree.fsBucket', 'struct.Struct',
    'persistent.TimeStamp.TimeStamp', 'persistent.timestamp.TimeStamp',
    'zodbpickle.pickle.UnpicklingError', 'zodbpickle.pickle.PicklingError',
    'io.BytesIO', 'threading.Lock', 'threading.RLock', 'threading.Condition',
    'tempfile.TemporaryFile', 'zc.lockfile.LockFile', 'zc.lockfile.LockError',
    'datetime.datetime',
}
EXT_MODULES = {'os', 'os.path', 'struct', 'time', 'errno', 'logging', 'sys', 'threading',
               'tempfile', 'binascii', 'weakref', 'hashlib', 'gzip', 'shutil', 'stat', 'datetime',
               'zope', 'zope.interface', 'warnings'}
EXT_CONSTS = {}


class VFd(V):
    def __init__(self, ref):
        self.ref = ref


class VStruct(V):
    def __init__(self, fmt):
        self.fmt = fmt


class VLogger(V):
    pass


LOGGER = VLogger()


# --------------------------------------------------------------------------------------
# struct
# --------------------------------------------------------------------------------------
_FMT_SIZES = {'Q': 8, 'q': 8, 'H': 2, 'h': 2, 'I': 4, 'i': 4, 'L': 4, 'l': 4, 'B': 1, 'b': 1}


def parse_fmt(fmt, node=None):
    if not fmt or fmt[0] not in '>!':
        raise Unsupported('struct format %r (only big-endian standard sizes)' % fmt, node)
    items = []
    for m in re.finditer(r'(\d*)([a-zA-Z?])', fmt[1:]):
        cnt, ch = m.group(1), m.group(2)
        if ch == 's':
            items.append(('s', int(cnt or '1')))
        elif ch == 'c':
            for _ in range(int(cnt or '1')):
                items.append(('c', 1))
        elif ch == 'x':
            items.append(('x', int(cnt or '1')))
        elif ch in _FMT_SIZES:
            for _ in range(int(cnt or '1')):
                items.append((ch, _FMT_SIZES[ch]))
        else:
            raise Unsupported('struct format char %r' % ch, node)
    return items


def struct_pack(ctx, fmt, args, node):
    items = parse_fmt(fmt, node)
    vals = [it for it in items if it[0] != 'x']
    if len(vals) != len(args):
        raise RaiseSig(VExc('ext:struct.error'))
    segs = []
    ai = 0
    for ch, n in items:
        if ch == 'x':
            segs.append(('b', [z3.IntVal(0)] * n))
            continue
        a = args[ai]
        ai += 1
        if ch in ('s', 'c'):
            if not isinstance(a, VBytes):
                raise RaiseSig(VExc('ext:struct.error'))
            ln = a.conc_len()
            if ln is None:
                raise Unsupported('struct.pack of bytes with symbolic length', node)
            if ch == 'c' and ln != 1:
                raise RaiseSig(VExc('ext:struct.error'))
            el = bytes_elems(ctx, a, node)
            el = (el + [z3.IntVal(0)] * n)[:n]
            segs.append(('b', el))
        else:
            if isinstance(a, VBool):
                a = VInt(z3.If(a.t, 1, 0))
            if not isinstance(a, VInt):
                raise RaiseSig(VExc('ext:struct.error'))
            signed = ch.islower()
            lo = -(256 ** n) // 2 if signed else 0
            hi = (256 ** n) // 2 if signed else 256 ** n
            inr = z3.And(a.t >= lo, a.t < hi)
            i = ctx.choose([inr, z3.Not(inr)], 'pack-range')
            if i == 1:
                raise RaiseSig(VExc('ext:struct.error'))
            t = a.t if not signed else z3.If(a.t < 0, a.t + 256 ** n, a.t)
            segs.extend(num_to_bytes(ctx, t, n).segs)
    return VBytes(segs)


def struct_unpack(ctx, fmt, data, node):
    items = parse_fmt(fmt, node)
    total = sum(n for _, n in items)
    if not isinstance(data, VBytes):
        raise RaiseSig(VExc('builtins:TypeError'))
    ln = data.conc_len()
    if ln is None:
        L = data.length()
        i = ctx.choose([L == total, L != total], 'unpack-len')
        if i == 1:
            raise RaiseSig(VExc('ext:struct.error'))
        data = bytes_slice(ctx, data, 0, total, node)
        # the slice of a single array segment keeps a symbolic length; re-materialise
        if data.conc_len() is None:
            s = data.segs[0]
            data = VBytes([('a', s[1], s[2], z3.IntVal(total))])
    elif ln != total:
        raise RaiseSig(VExc('ext:struct.error'))
    el = bytes_elems(ctx, data, node)
    out = []
    p = 0
    for ch, n in items:
        part = el[p:p + n]
        p += n
        if ch == 'x':
            continue
        if ch in ('s', 'c'):
            out.append(VBytes([('b', part)]))
        else:
            t = be_num(part)
            if ch.islower():
                t = z3.If(t >= (256 ** n) // 2, t - 256 ** n, t)
            out.append(VInt(t))
    return VTuple(out)


# --------------------------------------------------------------------------------------
# files
# --------------------------------------------------------------------------------------

def new_file(ctx, name='f', arr=None, size=None, pos=None, mode='r+b', path=None):
    if arr is None:
        arr = z3.Array(fresh_name(name + '_img'), I, I)
    if size is None:
        size = z3.Int(fresh_name(name + '_size'))
        ctx.assume(size >= 0)
    if pos is None:
        pos = z3.Int(fresh_name(name + '_pos'))
        ctx.assume(pos >= 0)
    return ctx.new_obj('file', None, {
        'arr': arr, 'size': size, 'pos': pos,
        'closed': False, 'dirty': z3.BoolVal(False), 'unsynced': z3.BoolVal(False),
    }, {'mode': mode, 'name': name, 'path': path})


def _ival(v, node, what='integer'):
    if isinstance(v, VBool):
        return z3.If(v.t, 1, 0)
    if not isinstance(v, VInt):
        raise Unsupported('%s expected, got %r' % (what, v), node)
    return v.t


def file_io_fault(ctx, ref, op, node):
    """fault hook: a spec may enable exceptional outcomes of primitive I/O"""
    h = ctx.hooks.get('io_fault')
    if h:
        h(ctx, ref, op, node)


def file_method(ctx, interp, ref, o, name, args, kwargs, node):
    f = o.f
    if f['closed'] is True and name not in ('close',):
        raise RaiseSig(VExc('builtins:ValueError'))
    if name == 'seek':
        off = _ival(args[0], node)
        wh = 0
        if len(args) > 1:
            wh = args[1].conc() if isinstance(args[1], VInt) else None
        if wh == 0:
            bad = off < 0
            i = ctx.choose([z3.Not(bad), bad], 'seek-neg')
            if i == 1:
                ctx.event('seek-negative', ref)
                raise RaiseSig(VExc('builtins:OSError'))
            f['pos'] = z3.simplify(off)
        elif wh == 2:
            np = f['size'] + off
            bad = np < 0
            i = ctx.choose([z3.Not(bad), bad], 'seek-neg')
            if i == 1:
                raise RaiseSig(VExc('builtins:OSError'))
            f['pos'] = z3.simplify(np)
        elif wh == 1:
            np = f['pos'] + off
            bad = np < 0
            i = ctx.choose([z3.Not(bad), bad], 'seek-neg')
            if i == 1:
                raise RaiseSig(VExc('builtins:OSError'))
            f['pos'] = z3.simplify(np)
        else:
            raise Unsupported('seek whence', node)
        ctx.event('seek', ref)
        return VInt(f['pos'])
    if name == 'tell':
        return VInt(f['pos'])
    if name == 'read':
        file_io_fault(ctx, ref, 'read', node)
        n = None
        if args and not isinstance(args[0], VNone):
            n = _ival(args[0], node)
        avail = f['size'] - f['pos']
        if n is None:
            ln = z3.If(avail > 0, avail, 0)
            out = VBytes([('a', f['arr'], f['pos'], z3.simplify(ln))])
            f['pos'] = z3.simplify(f['pos'] + ln)
            return out
        cn = z3.simplify(n)
        if z3.is_int_value(cn) and 0 <= cn.as_long() <= 64:
            k = cn.as_long()
            if k == 0:
                return VBytes([])
            i = ctx.choose([avail >= k, avail < k], 'read-short')
            if i == 0:
                out = VBytes([('b', [byte_at(ctx, f['arr'], z3.simplify(f['pos'] + j))
                                     for j in range(k)])])
                f['pos'] = z3.simplify(f['pos'] + k)
                return out
            ln = z3.If(avail > 0, avail, 0)
            out = VBytes([('a', f['arr'], f['pos'], z3.simplify(ln))])
            f['pos'] = z3.simplify(f['pos'] + ln)
            return out
        # symbolic count; negative means "all"
        want = z3.If(n < 0, avail, n)
        ln = z3.If(avail <= 0, 0, z3.If(want < avail, want, avail))
        ln = z3.simplify(ln)
        out = VBytes([('a', f['arr'], f['pos'], ln)])
        f['pos'] = z3.simplify(f['pos'] + ln)
        return out
    if name == 'write':
        data = args[0]
        if not isinstance(data, VBytes):
            raise Unsupported('write of %r' % (data,), node)
        if o.meta.get('mode') in ('rb', 'r'):
            raise RaiseSig(VExc('builtins:OSError'))
        file_io_fault(ctx, ref, 'write', node)
        file_write(ctx, ref, o, data, node)
        return VInt(data.length())
    if name == 'truncate':
        if o.meta.get('mode') in ('rb', 'r'):
            raise RaiseSig(VExc('builtins:OSError'))
        file_io_fault(ctx, ref, 'truncate', node)
        n = _ival(args[0], node) if args and not isinstance(args[0], VNone) else f['pos']
        old = (f['arr'], f['size'])
        k = z3.Int(fresh_name('k'))
        f['arr'] = z3.Lambda([k], z3.If(k < n, z3.Select(old[0], k), 0))
        f['size'] = z3.simplify(n)
        f['unsynced'] = z3.BoolVal(True)
        ctx.event('truncate', ref, old, n)
        return VInt(n)
    if name == 'flush':
        file_io_fault(ctx, ref, 'flush', node)
        f['dirty'] = z3.BoolVal(False)
        ctx.event('flush', ref)
        return NONE
    if name == 'close':
        f['closed'] = True
        f['dirty'] = z3.BoolVal(False)
        ctx.event('close', ref)
        return NONE
    if name == 'fileno':
        return VFd(ref)
    if name in ('__enter__',):
        return ref
    raise Unsupported('file method %s' % name, node)


def file_write(ctx, ref, o, data, node):
    f = o.f
    old = (f['arr'], f['size'], f['pos'])
    arr = f['arr']
    pos = f['pos']
    for s in data.segs:
        if s[0] == 'b':
            for j, t in enumerate(s[1]):
                arr = z3.Store(arr, z3.simplify(pos + j), t)
            pos = z3.simplify(pos + len(s[1]))
        else:
            _, src, soff, ln = s
            k = z3.Int(fresh_name('k'))
            arr = z3.Lambda([k], z3.If(z3.And(k >= pos, k < pos + ln),
                                       z3.Select(src, soff + (k - pos)),
                                       z3.Select(arr, k)))
            pos = z3.simplify(pos + ln)
    f['arr'] = arr
    f['size'] = z3.simplify(z3.If(pos > f['size'], pos, f['size']))
    f['pos'] = pos
    f['dirty'] = z3.BoolVal(True)
    f['unsynced'] = z3.BoolVal(True)
    ctx.event('write', ref, old, data)


# --------------------------------------------------------------------------------------
# maps (dict / fsIndex abstract view / OOBTree) keyed by fixed-length bytes or ints
# --------------------------------------------------------------------------------------

def new_map(ctx, keykind, valkind, name='m', sorted_=False, empty=False, cls=None):
    """keykind: 'bytesN' | 'int' | 'opaque' ; valkind: 'int' | 'bytesN' | 'opaque' | 'ref:<kind>'"""
    ks = Obj if keykind == 'opaque' else I
    vs = Obj if valkind == 'opaque' else I     # ('pobj': persistent objects, Int ids)
    if empty:
        dom = z3.K(ks, z3.BoolVal(False))
    else:
        dom = z3.Array(fresh_name(name + '_dom'), ks, B)
    val = z3.Array(fresh_name(name + '_val'), ks, vs)
    return ctx.new_obj('map', cls, {'dom': dom, 'val': val},
                       {'keykind': keykind, 'valkind': valkind, 'sorted': sorted_, 'name': name})


def map_key(ctx, o, k, node):
    kk = o.meta['keykind']
    if kk.startswith('bytes'):
        n = int(kk[5:])
        if not isinstance(k, VBytes):
            return None
        ln = k.conc_len()
        if ln is None:
            raise Unsupported('map key of symbolic length', node)
        if ln != n:
            return None
        return bytes_num(ctx, k, node)
    if kk == 'int':
        if isinstance(k, VInt):
            return k.t
        return None
    if kk == 'opaque':
        if isinstance(k, VOpaque):
            return k.t
        return None
    raise Unsupported('map key kind %s' % kk, node)


def map_key_value(ctx, o, t):
    """inverse of map_key: a Value for a key term"""
    kk = o.meta['keykind']
    if kk.startswith('bytes'):
        n = int(kk[5:])
        ctx.assume(z3.And(t >= 0, t < 256 ** n))
        return num_to_bytes(ctx, t, n, 'key')
    if kk == 'int':
        return VInt(t)
    return VOpaque(t, 'key')


def map_val_in(ctx, o, v, node):
    vk = o.meta['valkind']
    if vk == 'int':
        return _ival(v, node, 'map value')
    if vk.startswith('bytes'):
        n = int(vk[5:])
        if not isinstance(v, VBytes) or v.conc_len() != n:
            raise Unsupported('map value must be %d bytes' % n, node)
        return bytes_num(ctx, v, node)
    if vk == 'pobj':
        if isinstance(v, VOpaque) and v.tag == 'pobj':
            return v.t
        raise Unsupported('map value must be a persistent object, got %r' % (v,), node)
    if vk == 'bool':
        if isinstance(v, VBool):
            return z3.If(v.t, 1, 0) if not isinstance(v.t, bool) else z3.IntVal(int(v.t))
        if isinstance(v, VInt):
            return z3.If(v.t != 0, 1, 0)
        raise Unsupported('map value must be a bool, got %r' % (v,), node)
    if vk == 'opaque':
        if isinstance(v, VOpaque):
            return v.t
        h = ctx.hooks.get('to_opaque')
        if h:
            return h(ctx, v, node)
    raise Unsupported('map value kind %s for %r' % (vk, v), node)


def map_val_out(ctx, o, t):
    vk = o.meta['valkind']
    if vk == 'int':
        return VInt(t)
    if vk.startswith('bytes'):
        n = int(vk[5:])
        # engine invariant: every stored value is the number of an n-byte string
        ctx.assume(z3.And(t >= 0, t < 256 ** n))
        return num_to_bytes(ctx, t, n, 'mv')
    if vk == 'pobj':
        return VOpaque(t, 'pobj')
    if vk == 'bool':
        return VBool(t != 0)
    if vk == 'opaque':
        h = ctx.hooks.get('from_opaque')
        if h:
            r = h(ctx, o, t)
            if r is not None:
                return r
        return VOpaque(t, 'mv')
    raise Unsupported('map value kind %s' % vk)


def map_method(ctx, interp, ref, o, name, args, kwargs, node):
    f = o.f
    if name == 'get':
        k = map_key(ctx, o, args[0], node)
        default = args[1] if len(args) > 1 else kwargs.get('default', NONE)
        if k is None:
            return default
        present = z3.Select(f['dom'], k)
        if isinstance(default, VInt) and o.meta['valkind'] == 'int':
            return VInt(z3.If(present, z3.Select(f['val'], k), default.t))
        i = ctx.choose([present, z3.Not(present)], 'map-get')
        if i == 0:
            return map_val_out(ctx, o, z3.Select(f['val'], k))
        return default
    if name in ('__getitem__',):
        return get_item(ctx, ref, args[0], node)
    if name in ('__setitem__',):
        set_item(ctx, ref, args[0], args[1], node)
        return NONE
    if name in ('__contains__', 'has_key'):
        return VBool(contains(ctx, ref, args[0], node))
    if name == 'clear':
        ks = f['dom'].sort().domain()
        f['dom'] = z3.K(ks, z3.BoolVal(False))
        if 'size' in f:
            f['size'] = z3.IntVal(0)
        return NONE
    if name in ('update', 'pop') and 'size' in f:
        raise Unsupported('map.%s on a map with ghost cardinality' % name, node)
    if name == 'update':
        other = args[0]
        if isinstance(other, VRef) and ctx.obj(other).kind == 'map':
            oo = ctx.obj(other)
            if oo.meta['keykind'] != o.meta['keykind'] or oo.meta['valkind'] != o.meta['valkind']:
                raise Unsupported('update between maps of different kinds', node)
            k = z3.Const(fresh_name('k'), f['dom'].sort().domain())
            f['val'] = z3.Lambda([k], z3.If(z3.Select(oo.f['dom'], k),
                                            z3.Select(oo.f['val'], k), z3.Select(f['val'], k)))
            f['dom'] = z3.Lambda([k], z3.Or(z3.Select(oo.f['dom'], k), z3.Select(f['dom'], k)))
            return NONE
        raise Unsupported('map.update argument', node)
    if name == 'copy':
        r = ctx.new_obj('map', o.cls, dict(f), dict(o.meta))
        return r
    if name == 'pop':
        k = map_key(ctx, o, args[0], node)
        if k is None:
            if len(args) > 1:
                return args[1]
            raise RaiseSig(VExc('builtins:KeyError', [args[0]]))
        present = z3.Select(f['dom'], k)
        i = ctx.choose([present, z3.Not(present)], 'map-pop')
        if i == 0:
            v = map_val_out(ctx, o, z3.Select(f['val'], k))
            f['dom'] = z3.Store(f['dom'], k, z3.BoolVal(False))
            return v
        if len(args) > 1:
            return args[1]
        raise RaiseSig(VExc('builtins:KeyError', [args[0]]))
    if name == 'popitem' and not args:
        ks = f['dom'].sort().domain()
        k = z3.Const(fresh_name('popped'), ks)
        q = z3.Const(fresh_name('q'), ks)
        some = z3.Bool(fresh_name('nonempty'))
        ctx.assume(z3.Implies(some, z3.Select(f['dom'], k)))
        ctx.assume(z3.Implies(z3.Not(some), z3.ForAll([q], z3.Not(z3.Select(f['dom'], q)),
                                                      patterns=[z3.Select(f['dom'], q)])))
        if ctx.choose([some, z3.Not(some)], 'map-popitem') == 1:
            raise RaiseSig(VExc('builtins:KeyError'))
        kv = map_key_value(ctx, o, k)
        vv = map_val_out(ctx, o, z3.Select(f['val'], k))
        f['dom'] = z3.Store(f['dom'], k, z3.BoolVal(False))
        if 'size' in f:
            f['size'] = z3.simplify(f['size'] - 1)
        return VTuple([kv, vv])
    if name in ('minKey', 'maxKey') and o.meta.get('sorted'):
        return sorted_extreme(ctx, o, name == 'minKey', args[0] if args else NONE, node)
    if name in ('items', 'keys', 'values', 'iteritems', 'iterkeys', 'itervalues'):
        return VFunc('iterview', name, ref)
    raise Unsupported('map method %s' % name, node)


def sorted_extreme(ctx, o, is_min, bound, node):
    """OOBTree/fsBucket .minKey(k) / .maxKey(k): contract (BTrees documentation):
    least key >= k (greatest key <= k); ValueError when there is none."""
    f = o.f
    dom = f['dom']
    r = z3.Int(fresh_name('mk'))
    q = z3.Int(fresh_name('q'))
    kk = o.meta['keykind']
    n = int(kk[5:]) if kk.startswith('bytes') else None
    rng = z3.And(q >= 0, q < 256 ** n) if n else z3.BoolVal(True)
    if isinstance(bound, VNone):
        cand = lambda t: z3.BoolVal(True)
    else:
        b = map_key(ctx, o, bound, node)
        if b is None:
            raise Unsupported('minKey/maxKey bound of wrong kind', node)
        cand = (lambda t: t >= b) if is_min else (lambda t: t <= b)
    exists = z3.And(z3.Select(dom, r), cand(r))
    role = o.meta.get('role')
    if role:
        from .ground import All, FAnd
        ctx.roles.array(base_of(dom), role)
        ctx.roles.seed(role, r)
        best = All([role], lambda qq: z3.Implies(z3.And(z3.Select(dom, qq), cand(qq)),
                                                 (r <= qq) if is_min else (r >= qq)))
        none = All([role], lambda qq: z3.Not(z3.And(z3.Select(dom, qq), cand(qq))))
        i = ctx.choose([FAnd(exists, best), none], 'minmaxkey')
    else:
        best = z3.ForAll([q], z3.Implies(z3.And(z3.Select(dom, q), cand(q)),
                                         (r <= q) if is_min else (r >= q)),
                         patterns=[z3.Select(dom, q)])
        none = z3.ForAll([q], z3.Not(z3.And(z3.Select(dom, q), cand(q))),
                         patterns=[z3.Select(dom, q)])
        i = ctx.choose([z3.And(exists, best), none], 'minmaxkey')
    if i == 1:
        raise RaiseSig(VExc('builtins:ValueError'))
    return map_key_value(ctx, o, r)


def base_of(a):
    while z3.is_app(a) and a.decl().kind() == z3.Z3_OP_STORE:
        a = a.arg(0)
    return a


def get_item(ctx, recv, key, node):
    if isinstance(recv, VBytes):
        if not isinstance(key, VInt):
            raise Unsupported('bytes index', node)
        k = key.conc()
        n = recv.conc_len()
        if k is not None and n is not None:
            if not -n <= k < n:
                raise RaiseSig(VExc('builtins:IndexError'))
            return VInt(bytes_elems(ctx, recv, node)[k])
        if len(recv.segs) == 1 and recv.segs[0][0] == 'a':
            _, arr, off, ln = recv.segs[0]
            idx = key.t
            inb = z3.And(idx >= -ln, idx < ln)
            i = ctx.choose([inb, z3.Not(inb)], 'bytes-index')
            if i == 1:
                raise RaiseSig(VExc('builtins:IndexError'))
            real = z3.If(idx < 0, ln + idx, idx)
            return VInt(byte_at(ctx, arr, z3.simplify(off + real)))
        if k is not None and k >= 0 and recv.segs and recv.segs[0][0] == 'b' \
                and k < len(recv.segs[0][1]):
            return VInt(recv.segs[0][1][k])
        raise Unsupported('indexing a rope', node)
    if isinstance(recv, VTuple):
        k = key.conc() if isinstance(key, VInt) else None
        if k is None:
            raise Unsupported('tuple index not concrete', node)
        if not -len(recv.items) <= k < len(recv.items):
            raise RaiseSig(VExc('builtins:IndexError'))
        return recv.items[k]
    if isinstance(recv, VStr):
        k = key.conc() if isinstance(key, VInt) else None
        ct = recv.code_terms()
        if k is None or not -len(ct) <= k < len(ct):
            raise Unsupported('str index', node)
        if recv.s is not None:
            return VStr(recv.s[k])
        return VStr(codes=[ct[k]])
    if isinstance(recv, VRef):
        o = ctx.obj(recv)
        if o.kind == 'map':
            k = map_key(ctx, o, key, node)
            if k is None:
                raise RaiseSig(VExc('builtins:KeyError', [key]))
            present = z3.Select(o.f['dom'], k)
            i = ctx.choose([present, z3.Not(present)], 'map-getitem')
            if i == 1:
                raise RaiseSig(VExc('builtins:KeyError', [key]))
            return map_val_out(ctx, o, z3.Select(o.f['val'], k))
        if o.kind == 'list':
            k = key.conc() if isinstance(key, VInt) else None
            items = o.meta.get('items')
            if items is not None and k is not None:
                if not -len(items) <= k < len(items):
                    raise RaiseSig(VExc('builtins:IndexError'))
                return items[k]
        h = KIND_GETITEM.get(o.kind)
        if h:
            return h(ctx, recv, o, key, node)
        if o.kind == 'inst':
            q, fn = source.find_method(o.cls, '__getitem__')
            if fn is not None:
                return ctx.interp.call_repo(ctx, q, [recv, key], {}, node)
    raise Unsupported('subscript of %r' % (recv,), node)


def set_item(ctx, recv, key, v, node):
    if isinstance(recv, VRef):
        o = ctx.obj(recv)
        if o.kind == 'map':
            k = map_key(ctx, o, key, node)
            if k is None:
                raise Unsupported('map key of wrong kind %r' % (key,), node)
            t = map_val_in(ctx, o, v, node)
            if 'size' in o.f:
                # ghost cardinality (len of the map), kept by every update
                o.f['size'] = z3.simplify(o.f['size'] + z3.If(z3.Select(o.f['dom'], k), 0, 1))
            o.f['dom'] = z3.Store(o.f['dom'], k, z3.BoolVal(True))
            o.f['val'] = z3.Store(o.f['val'], k, t)
            ctx.event('map-set', recv, k, t)
            return
        if o.kind == 'list' and 'items' in o.meta:
            k = key.conc() if isinstance(key, VInt) else None
            if k is not None and -len(o.meta['items']) <= k < len(o.meta['items']):
                o.meta['items'][k] = v
                return
        h = KIND_SETITEM.get(o.kind)
        if h:
            return h(ctx, recv, o, key, v, node)
        if o.kind == 'inst':
            q, fn = source.find_method(o.cls, '__setitem__')
            if fn is not None:
                ctx.interp.call_repo(ctx, q, [recv, key, v], {}, node)
                return
    raise Unsupported('item assignment on %r' % (recv,), node)


def del_item(ctx, recv, key, node):
    if isinstance(recv, VRef):
        o = ctx.obj(recv)
        if o.kind == 'map':
            k = map_key(ctx, o, key, node)
            if k is None:
                raise RaiseSig(VExc('builtins:KeyError', [key]))
            present = z3.Select(o.f['dom'], k)
            i = ctx.choose([present, z3.Not(present)], 'map-del')
            if i == 1:
                raise RaiseSig(VExc('builtins:KeyError', [key]))
            o.f['dom'] = z3.Store(o.f['dom'], k, z3.BoolVal(False))
            if 'size' in o.f:
                o.f['size'] = z3.simplify(o.f['size'] - 1)
            return
        h = KIND_DELITEM.get(o.kind)
        if h:
            return h(ctx, recv, o, key, node)
        if o.kind == 'inst':
            q, fn = source.find_method(o.cls, '__delitem__')
            if fn is not None:
                ctx.interp.call_repo(ctx, q, [recv, key], {}, node)
                return
    raise Unsupported('del item on %r' % (recv,), node)


def del_slice(ctx, recv, sl, node, interp, fr):
    if isinstance(recv, VRef):
        o = ctx.obj(recv)
        if sl.lower is None and sl.upper is None and sl.step is None:
            if o.kind == 'list':
                o.meta['items'] = []
                return
            if o.kind == 'slist':
                o.f['len'] = z3.IntVal(0)
                return
    raise Unsupported('del slice', node)


def get_slice(ctx, recv, lo, hi, node):
    def idx(v):
        if v is None or isinstance(v, VNone):
            return None
        if not isinstance(v, VInt):
            raise Unsupported('slice bound', node)
        c = v.conc()
        return c if c is not None else v.t
    if isinstance(recv, VBytes):
        return bytes_slice(ctx, recv, idx(lo), idx(hi), node)
    if isinstance(recv, VTuple):
        l, h = idx(lo), idx(hi)
        if (l is None or isinstance(l, int)) and (h is None or isinstance(h, int)):
            return VTuple(recv.items[l:h])
    if isinstance(recv, VStr) and recv.s is not None:
        l, h = idx(lo), idx(hi)
        if (l is None or isinstance(l, int)) and (h is None or isinstance(h, int)):
            return VStr(recv.s[l:h])
    if isinstance(recv, VRef):
        o = ctx.obj(recv)
        if o.kind == 'list' and 'items' in o.meta:
            l, h = idx(lo), idx(hi)
            if (l is None or isinstance(l, int)) and (h is None or isinstance(h, int)):
                return ctx.new_obj('list', meta={'items': list(o.meta['items'][l:h])})
    raise Unsupported('slice of %r' % (recv,), node)


def contains(ctx, container, item, node):
    if isinstance(container, VStr) and container.s is not None and isinstance(item, VStr):
        if item.s is not None:
            return item.s in container.s
        ct = item.code_terms()
        if len(ct) == 1:
            if not container.s:
                return False
            return z3.Or([ct[0] == ord(ch) for ch in container.s])
        raise Unsupported('substring test with symbolic multi-char string', node)
    if isinstance(container, VTuple):
        parts = [as_z3_bool(values_equal(ctx, x, item, node)) for x in container.items]
        return z3.Or(parts) if parts else False
    if isinstance(container, VRef):
        o = ctx.obj(container)
        if o.kind == 'map':
            k = map_key(ctx, o, item, node)
            if k is None:
                return False
            return z3.Select(o.f['dom'], k)
        if o.kind == 'list' and 'items' in o.meta:
            parts = [as_z3_bool(values_equal(ctx, x, item, node)) for x in o.meta['items']]
            return z3.Or(parts) if parts else False
        if o.kind == 'slist' and 'bag' in o.f:
            try:
                t = slist_elem_in(ctx, o, item, node)
            except Unsupported:
                return False
            return z3.Select(o.f['bag'], t) > 0
        h = KIND_CONTAINS.get(o.kind)
        if h:
            return h(ctx, container, o, item, node)
        if o.kind == 'inst':
            q, fn = source.find_method(o.cls, '__contains__')
            if fn is not None:
                r = ctx.interp.call_repo(ctx, q, [container, item], {}, node)
                return truthy(ctx, r, node)
    if isinstance(container, VBytes) and isinstance(item, VBytes):
        cb, ib = container.conc_bytes(), item.conc_bytes()
        if cb is not None and ib is not None:
            return ib in cb
        if cb is not None and item.conc_len() == 1:
            e = bytes_elems(ctx, item, node)[0]
            return z3.Or([e == x for x in cb]) if cb else False
    raise Unsupported('membership test in %r' % (container,), node)


KIND_GETITEM = {}
KIND_SETITEM = {}
KIND_DELITEM = {}
KIND_CONTAINS = {}
KIND_METHOD = {}
KIND_TRUTHY = {}
KIND_ITER = {}


def obj_truthy(ctx, ref, o, node):
    if o.kind == 'map':
        # non-empty: there is some key; expressed with a ghost witness
        h = KIND_TRUTHY.get('map')
        if h:
            return h(ctx, ref, o, node)
        w = z3.Const(fresh_name('w'), o.f['dom'].sort().domain())
        ne = z3.Bool(fresh_name('nonempty'))
        q = z3.Const(fresh_name('q'), o.f['dom'].sort().domain())
        ctx.assume(z3.Implies(ne, z3.Select(o.f['dom'], w)))
        ctx.assume(z3.Implies(z3.Not(ne), z3.ForAll([q], z3.Not(z3.Select(o.f['dom'], q)),
                                                     patterns=[z3.Select(o.f['dom'], q)])))
        return ne
    if o.kind == 'list':
        if 'items' in o.meta:
            return len(o.meta['items']) != 0
    if o.kind == 'slist':
        return o.f['len'] != 0
    h = KIND_TRUTHY.get(o.kind)
    if h:
        return h(ctx, ref, o, node)
    if o.kind == 'inst':
        q, fn = source.find_method(o.cls, '__bool__')
        if fn is None:
            q, fn = source.find_method(o.cls, '__len__')
        if fn is not None:
            r = ctx.interp.call_repo(ctx, q, [ref], {}, node)
            return truthy(ctx, r, node)
        return True
    return True


def obj_equal(ctx, a, b, node):
    oa, ob = ctx.obj(a), ctx.obj(b)
    if oa.kind == 'list' and ob.kind == 'list' and 'items' in oa.meta and 'items' in ob.meta:
        if len(oa.meta['items']) != len(ob.meta['items']):
            return False
        parts = [as_z3_bool(values_equal(ctx, x, y, node))
                 for x, y in zip(oa.meta['items'], ob.meta['items'])]
        return z3.And(parts) if parts else True
    raise Unsupported('equality of heap objects %s/%s' % (oa.kind, ob.kind), node)


def decided_equal(ctx, a, b, node):
    """values_equal reduced to True / False when the simplifier can decide it"""
    e = values_equal(ctx, a, b, node)
    if isinstance(e, bool):
        return e
    e = z3.simplify(e)
    if z3.is_true(e):
        return True
    if z3.is_false(e):
        return False
    return e


def new_concrete_dict(ctx, pairs, node):
    if not pairs:
        return ctx.new_obj('pydict', meta={'pairs': []})
    return ctx.new_obj('pydict', meta={'pairs': list(pairs)})


def pydict_method(ctx, interp, ref, o, name, args, kwargs, node):
    pairs = o.meta['pairs']
    if name == 'get':
        default = args[1] if len(args) > 1 else NONE
        for k, v in pairs:
            e = decided_equal(ctx, k, args[0], node)
            if e is True:
                return v
            if e is not False:
                raise Unsupported('symbolic key in literal dict', node)
        return default
    if name == 'items':
        return ctx.new_obj('list', meta={'items': [VTuple([k, v]) for k, v in pairs]})
    if name == 'keys':
        return ctx.new_obj('list', meta={'items': [k for k, v in pairs]})
    if name == 'values':
        return ctx.new_obj('list', meta={'items': [v for k, v in pairs]})
    if name == 'pop':
        for i, (k, v) in enumerate(pairs):
            e = decided_equal(ctx, k, args[0], node)
            if e is True:
                del pairs[i]
                return v
            if e is not False:
                raise Unsupported('symbolic key in literal dict', node)
        if len(args) > 1:
            return args[1]
        raise RaiseSig(VExc('builtins:KeyError', [args[0]]))
    if name == 'clear':
        o.meta['pairs'] = []
        return NONE
    if name == 'setdefault':
        for k, v in pairs:
            e = decided_equal(ctx, k, args[0], node)
            if e is True:
                return v
            if e is not False:
                raise Unsupported('symbolic key in literal dict', node)
        pairs.append((args[0], args[1] if len(args) > 1 else NONE))
        return pairs[-1][1]
    if name == 'update' and len(args) == 1 and isinstance(args[0], VRef) and ctx.obj(args[0]).kind == 'pydict':
        for k, v in list(ctx.obj(args[0]).meta['pairs']):
            pydict_setitem(ctx, ref, o, k, v, node)
        return NONE
    if name == 'copy' and not args:
        return ctx.new_obj('pydict', meta={'pairs': list(pairs)})
    raise Unsupported('dict method %s on literal dict' % name, node)


def pydict_getitem(ctx, recv, o, key, node):
    for k, v in o.meta['pairs']:
        e = decided_equal(ctx, k, key, node)
        if e is True:
            return v
        if e is not False:
            raise Unsupported('symbolic key in literal dict', node)
    raise RaiseSig(VExc('builtins:KeyError', [key]))


def pydict_setitem(ctx, recv, o, key, v, node):
    for i, (k, _) in enumerate(o.meta['pairs']):
        e = decided_equal(ctx, k, key, node)
        if e is True:
            o.meta['pairs'][i] = (k, v)
            return
        if e is not False:
            raise Unsupported('symbolic key in literal dict', node)
    o.meta['pairs'].append((key, v))


KIND_GETITEM['pydict'] = pydict_getitem
KIND_SETITEM['pydict'] = pydict_setitem
KIND_TRUTHY['pydict'] = lambda ctx, ref, o, node: len(o.meta['pairs']) != 0


def str_concat(ctx, a, b, node):
    return VStr(codes=a.code_terms() + b.code_terms())


def binop_ext(ctx, op, a, b, node):
    h = ctx.hooks.get('binop')
    if h:
        return h(ctx, op, a, b, node)
    return None


def compare_ext(ctx, op, a, b, node):
    h = ctx.hooks.get('compare')
    if h:
        return h(ctx, op, a, b, node)
    return None


# --------------------------------------------------------------------------------------
# iteration
# --------------------------------------------------------------------------------------

def concrete_iter(ctx, it, node):
    if isinstance(it, VTuple):
        return list(it.items)
    if isinstance(it, VRef):
        o = ctx.obj(it)
        if o.kind == 'list' and 'items' in o.meta:
            return list(o.meta['items'])
        if o.kind == 'pydict':
            return [k for k, v in o.meta['pairs']]
        if o.kind == 'range' and o.meta.get('conc') is not None:
            return [VInt(i) for i in o.meta['conc']]
    if isinstance(it, VBytes):
        n = it.conc_len()
        if n is not None and n <= 64:
            return [VInt(t) for t in bytes_elems(ctx, it, node)]
    return None


class MapCursor:
    """Iteration over a symbolic map in an unspecified (sorted maps: ascending) order.
    Ghost state: `visited` set.  has_more <=> some key in dom is not visited."""

    def __init__(self, ctx, o, what, ref):
        self.o = o
        self.what = what
        self.ref = ref
        ks = o.f['dom'].sort().domain()
        self.ks = ks
        self.visited = z3.K(ks, z3.BoolVal(False))
        self.dom0 = o.f['dom']
        self.val0 = o.f['val']
        self.cur = None

    def havoc(self, ctx):
        self.visited = z3.Array(fresh_name('visited'), self.ks, B)
        q = z3.Const(fresh_name('q'), self.ks)
        # visited is a subset of the domain
        ctx.assume(z3.ForAll([q], z3.Implies(z3.Select(self.visited, q),
                                             z3.Select(self.dom0, q)),
                             patterns=[z3.Select(self.visited, q)]))
        if self.o.meta.get('sorted'):
            # ascending order: visited is downward closed within dom
            p = z3.Const(fresh_name('p'), self.ks)
            ctx.assume(z3.ForAll([p, q], z3.Implies(
                z3.And(z3.Select(self.visited, q), z3.Select(self.dom0, p), p < q),
                z3.Select(self.visited, p)),
                patterns=[z3.MultiPattern(z3.Select(self.visited, q), z3.Select(self.dom0, p))]))

    def has_more(self, ctx):
        k = z3.Const(fresh_name('nx'), self.ks)
        q = z3.Const(fresh_name('q'), self.ks)
        more = z3.Bool(fresh_name('more'))
        ctx.assume(z3.Implies(more, z3.And(z3.Select(self.dom0, k),
                                           z3.Not(z3.Select(self.visited, k)))))
        if self.o.meta.get('sorted'):
            ctx.assume(z3.Implies(more, z3.ForAll([q], z3.Implies(
                z3.And(z3.Select(self.dom0, q), z3.Not(z3.Select(self.visited, q))), k <= q),
                patterns=[z3.Select(self.dom0, q)])))
        ctx.assume(z3.Implies(z3.Not(more), z3.ForAll([q], z3.Implies(
            z3.Select(self.dom0, q), z3.Select(self.visited, q)),
            patterns=[z3.Select(self.dom0, q)])))
        self.cur = k
        return more

    def next(self, ctx):
        k = self.cur
        self.visited = z3.Store(self.visited, k, z3.BoolVal(True))
        kv = map_key_value(ctx, self.o, k)
        if self.what in ('keys', 'iterkeys', None):
            return kv
        vv = map_val_out(ctx, self.o, z3.Select(self.val0, k))
        if self.what in ('values', 'itervalues'):
            return vv
        return VTuple([kv, vv])


def sym_iter(ctx, it, node, ls):
    if isinstance(it, VFunc) and it.kind == 'iterview':
        o = ctx.obj(it.selfv)
        mk = KIND_ITER.get(o.kind)
        if mk:
            return mk(ctx, o, it.name, it.selfv)
        return MapCursor(ctx, o, it.name, it.selfv)
    if isinstance(it, VRef):
        o = ctx.obj(it)
        if o.kind == 'map':
            return MapCursor(ctx, o, None, it)
        mk = KIND_ITER.get(o.kind)
        if mk:
            return mk(ctx, o, None, it)
    raise Unsupported('iteration over %r' % (it,), node)


def filtered_keys(ctx, interp, fr, e, g, it):
    """`(k for k in M if k not in N)` / `... if k in N` over symbolic maps M, N of the same key kind:
    the set of keys as a map whose domain is the filtered domain (the order of a generator over a dict
    is unspecified for the consumers modelled here: they only iterate it)"""
    import ast as _ast
    if not (isinstance(e, (_ast.GeneratorExp, _ast.ListComp)) and isinstance(g.target, _ast.Name)
            and isinstance(e.elt, _ast.Name) and e.elt.id == g.target.id and len(g.ifs) == 1):
        return None
    t = g.ifs[0]
    if not (isinstance(t, _ast.Compare) and len(t.ops) == 1 and isinstance(t.ops[0], (_ast.In, _ast.NotIn))
            and isinstance(t.left, _ast.Name) and t.left.id == g.target.id):
        return None
    if isinstance(it, VRef) and ctx.obj(it).kind == 'slist' and 'bag' in ctx.obj(it).f:
        # a symbolic LIST filtered by membership in a map: the multiset view is filtered
        from .ground import All, base_array
        other = interp.eval(ctx, fr, t.comparators[0])
        if not (isinstance(other, VRef) and ctx.obj(other).kind == 'map'):
            return None
        src, n = ctx.obj(it), ctx.obj(other)
        role = ctx.roles.arrays.get(base_array(src.f['bag']).get_id()) or \
            ctx.roles.arrays.get(base_array(n.f['dom']).get_id())
        if role is None:
            return None
        neg = isinstance(t.ops[0], _ast.NotIn)
        r = new_slist(ctx, src.meta['elemkind'], 'filtered_list', bag=True)
        o = ctx.obj(r)
        bag, sb, nd = o.f['bag'], src.f['bag'], n.f['dom']
        ctx.roles.array(bag, role)
        keep = (lambda k: z3.Not(z3.Select(nd, k))) if neg else (lambda k: z3.Select(nd, k))
        ctx.assume(All([role], lambda k: z3.Select(bag, k) == z3.If(keep(k), z3.Select(sb, k), 0)))
        return r
    if not (isinstance(it, VRef) and ctx.obj(it).kind == 'map'):
        return None
    other = interp.eval(ctx, fr, t.comparators[0])
    if not (isinstance(other, VRef) and ctx.obj(other).kind == 'map'):
        return None
    m, n = ctx.obj(it), ctx.obj(other)
    if m.meta['keykind'] != n.meta['keykind']:
        return None
    from .ground import All, base_array
    neg = isinstance(t.ops[0], _ast.NotIn)
    role = ctx.roles.arrays.get(base_array(m.f['dom']).get_id())
    if role is not None and m.f['dom'].sort().domain() == I:
        # a fresh domain array defined by a (ground-instantiable) quantified fact
        dom = z3.Array(fresh_name('filtered_dom'), I, B)
        ctx.roles.array(dom, role)
        md, nd = m.f['dom'], n.f['dom']
        ctx.assume(All([role], lambda k: z3.Select(dom, k) == z3.And(
            z3.Select(md, k), z3.Not(z3.Select(nd, k)) if neg else z3.Select(nd, k))))
    else:
        q = z3.Const(fresh_name('q'), m.f['dom'].sort().domain())
        inn = z3.Select(n.f['dom'], q)
        dom = z3.Lambda([q], z3.And(z3.Select(m.f['dom'], q), z3.Not(inn) if neg else inn))
    r = ctx.new_obj('map', None, {'dom': dom, 'val': m.f['val']}, dict(m.meta))
    ctx.obj(r).meta['name'] = 'filtered_keys'
    return r


def filtered_items(ctx, interp, fr, e, g, it):
    """`[k for k, v in M.items() if v <op> expr]` over a symbolic map with Int values: the list of the
    keys whose value satisfies the comparison, as a symbolic list whose multiset view is defined by the
    filter (order and multiplicity beyond membership are not specified: each key occurs once)"""
    import ast as _ast
    from .ground import All, base_array
    if not (isinstance(e, _ast.ListComp) and isinstance(g.target, _ast.Tuple) and len(g.target.elts) == 2
            and all(isinstance(x, _ast.Name) for x in g.target.elts) and isinstance(e.elt, _ast.Name)
            and e.elt.id == g.target.elts[0].id and len(g.ifs) == 1):
        return None
    if not (isinstance(it, VFunc) and it.kind == 'iterview' and it.name in ('items', 'iteritems')):
        return None
    m = ctx.obj(it.selfv)
    if m.kind != 'map' or m.meta.get('valkind') != 'int' or not m.meta['keykind'].startswith('bytes'):
        return None
    t = g.ifs[0]
    vname = g.target.elts[1].id
    ops = {_ast.Gt: lambda a, b: a > b, _ast.GtE: lambda a, b: a >= b, _ast.Lt: lambda a, b: a < b,
           _ast.LtE: lambda a, b: a <= b, _ast.Eq: lambda a, b: a == b, _ast.NotEq: lambda a, b: a != b}
    if not (isinstance(t, _ast.Compare) and len(t.ops) == 1 and type(t.ops[0]) in ops
            and isinstance(t.left, _ast.Name) and t.left.id == vname):
        return None
    rhs = interp.eval(ctx, fr, t.comparators[0])
    if not isinstance(rhs, VInt):
        return None
    role = ctx.roles.arrays.get(base_array(m.f['dom']).get_id())
    if role is None:
        return None
    op = ops[type(t.ops[0])]
    r = new_slist(ctx, m.meta['keykind'], 'filtered_keys', bag=True)
    o = ctx.obj(r)
    bag, md, mv = o.f['bag'], m.f['dom'], m.f['val']
    ctx.roles.array(bag, role)
    ctx.assume(All([role], lambda k: z3.And(
        z3.Select(bag, k) >= 0,
        (z3.Select(bag, k) >= 1) == z3.And(z3.Select(md, k), op(z3.Select(mv, k), rhs.t)))))
    return r


def comprehension(ctx, interp, fr, e):
    if len(e.generators) != 1 or e.generators[0].is_async:
        raise Unsupported('comprehension shape', e)
    g = e.generators[0]
    it = interp.eval(ctx, fr, g.iter)
    conc = concrete_iter(ctx, it, e)
    if conc is None:
        r = filtered_keys(ctx, interp, fr, e, g, it)
        if r is None:
            r = filtered_items(ctx, interp, fr, e, g, it)
        if r is not None:
            return r
        raise Unsupported('comprehension over symbolic collection', e)
    out = []
    saved = dict(fr.locals)
    for item in conc:
        interp.assign(ctx, fr, g.target, item, e)
        ok = True
        for c in g.ifs:
            if not interp.eval_cond(ctx, fr, c):
                ok = False
                break
        if ok:
            out.append(interp.eval(ctx, fr, e.elt))
    fr.locals.clear()
    fr.locals.update(saved)
    return ctx.new_obj('list', meta={'items': out})


# --------------------------------------------------------------------------------------
# context managers, locks
# --------------------------------------------------------------------------------------

def new_lock(ctx, name, reentrant=False, held=0):
    return ctx.new_obj('lock', None, {'held': held if not isinstance(held, int)
                                      else z3.IntVal(held)},
                       {'reentrant': reentrant, 'name': name})


def lock_acquire(ctx, ref, node):
    o = ctx.obj(ref)
    held = o.f['held']
    if not o.meta['reentrant']:
        # acquiring a non-reentrant lock one already holds is a self-deadlock: an obligation
        ctx.oblige('lock.%s.no-self-deadlock' % o.meta['name'], held == 0, node)
    o.f['held'] = z3.simplify(held + 1)
    ctx.event('acquire', ref)
    hk = ctx.hooks.get('acquired')
    if hk:
        # environment step of a contract: what other threads may have done while the lock was free
        hk(ctx, ref, node)


def lock_release(ctx, ref, node):
    o = ctx.obj(ref)
    held = o.f['held']
    # threading locks can be released by ANY thread: releasing a lock this thread does not hold either
    # raises (nobody holds it) or silently takes it away from its holder - an obligation, always
    ctx.oblige('lock.%s.released-only-by-its-holder' % o.meta['name'], held >= 1, node)
    bad = held <= 0
    i = ctx.choose([z3.Not(bad), bad], 'release-unheld')
    if i == 1:
        raise RaiseSig(VExc('builtins:RuntimeError'))
    o.f['held'] = z3.simplify(held - 1)
    ctx.event('release', ref)


def lock_method(ctx, interp, ref, o, name, args, kwargs, node):
    if name in ('acquire', '__enter__'):
        lock_acquire(ctx, ref, node)
        return VBool(True)
    if name in ('release',):
        lock_release(ctx, ref, node)
        return NONE
    if name == 'locked' and not args:
        # True if ANY thread holds the lock: certain when this thread does, unknown otherwise
        held = o.f['held']
        mine = held >= 1
        i = ctx.choose([mine, z3.Not(mine)], 'locked-by-me')
        if i == 0:
            return VBool(True)
        return VBool(z3.Bool(fresh_name('locked_by_another_thread')))
    raise Unsupported('lock method %s' % name, node)


def ctx_enter(ctx, mgr, node, interp):
    if isinstance(mgr, VCtxMgr):
        return mgr.enter(ctx), mgr.exit
    if isinstance(mgr, VRef):
        o = ctx.obj(mgr)
        if o.kind == 'lock':
            lock_acquire(ctx, mgr, node)
            return mgr, (lambda c: lock_release(c, mgr, node))
        if o.kind == 'file':
            def ex(c):
                file_method(c, interp, mgr, c.obj(mgr), 'close', [], {}, node)
            return mgr, ex
        h = KIND_METHOD.get(o.kind)
        if o.kind == 'inst':
            q, fn = source.find_method(o.cls, '__enter__')
            if fn is not None:
                v = interp.call_repo(ctx, q, [mgr], {}, node)
                q2, fn2 = source.find_method(o.cls, '__exit__')
                return v, (lambda c: interp.call_repo(c, q2, [mgr, NONE, NONE, NONE], {}, node))
    raise Unsupported('context manager %r' % (mgr,), node)


def locked_decorator(ctx, interp, fr, d, node):
    """ZODB.utils.locked: `with self._lock:` around the body, plus precondition asserts"""
    selfv = fr.locals.get('self')
    if selfv is None:
        raise Unsupported('@locked on non-method', node)
    lockref = interp.get_attr(ctx, selfv, '_lock', node)

    def enter(c):
        lock_acquire(c, lockref, node)
        if isinstance(d, ast.Call):
            for a in d.args:
                pf = None
                if isinstance(a, ast.Name) and fr.clsq is not None and a.id not in fr.locals:
                    # a precondition named in the class body (MappingStorage: @locked(opened))
                    q, pfn = source.find_method(fr.clsq, a.id)
                    if pfn is not None:
                        pf = VFunc('repo', q)
                if pf is None:
                    pf = interp.eval(c, fr, a)
                interp.call_value(c, pf, [selfv], {}, node, fr)

    def exit_(c):
        lock_release(c, lockref, node)
    return (enter, exit_)


# --------------------------------------------------------------------------------------
# bytes / str / tuple methods
# --------------------------------------------------------------------------------------

def bytes_method(ctx, interp, recv, name, args, kwargs, node):
    if name == 'decode':
        n = recv.conc_len()
        if n is None:
            raise Unsupported('decode of symbolic-length bytes', node)
        el = bytes_elems(ctx, recv, node)
        cb = recv.conc_bytes()
        if cb is not None:
            try:
                return VStr(cb.decode(args[0].s if args else 'utf-8'))
            except UnicodeDecodeError:
                raise RaiseSig(VExc('builtins:UnicodeDecodeError'))
        enc = args[0].s if args and isinstance(args[0], VStr) else 'utf-8'
        if enc in ('ascii', 'utf-8', 'utf8') and n >= 1:
            ok = z3.And([e < 128 for e in el])
            i = ctx.choose([ok, z3.Not(ok)], 'decode')
            if i == 1:
                if enc == 'ascii':
                    raise RaiseSig(VExc('builtins:UnicodeDecodeError'))
                raise Unsupported('utf-8 decode of non-ascii symbolic bytes', node)
            return VStr(codes=list(el))
        if enc in ('latin-1', 'latin1'):
            return VStr(codes=list(el))
        raise Unsupported('decode(%r)' % enc, node)
    if name == 'join':
        parts = concrete_iter(ctx, args[0], node)
        if parts is None:
            raise Unsupported('join over symbolic sequence', node)
        sep = recv
        out = []
        for i, p in enumerate(parts):
            if not isinstance(p, VBytes):
                raise RaiseSig(VExc('builtins:TypeError'))
            if i:
                out.extend(sep.segs)
            out.extend(p.segs)
        return VBytes(out)
    if name == 'startswith':
        pre = args[0]
        n = pre.conc_len()
        if n is None:
            raise Unsupported('startswith symbolic', node)
        L = recv.length()
        rn = recv.conc_len()
        if rn is not None:
            if rn < n:
                return VBool(False)
            return VBool(bytes_eq(ctx, bytes_slice(ctx, recv, 0, n, node), pre, node))
        if len(recv.segs) == 1 and recv.segs[0][0] == 'a':
            _, arr, off, ln = recv.segs[0]
            pe = bytes_elems(ctx, pre, node)
            return VBool(z3.And([ln >= n] + [z3.Select(arr, off + j) == pe[j] for j in range(n)]))
        raise Unsupported('startswith on rope', node)
    if name == '__len__':
        return VInt(recv.length())
    if name == 'find':
        # data.find(needle, start): single-byte literal needle on one array slice
        nb = args[0].conc_bytes() if isinstance(args[0], VBytes) else None
        if nb is None or len(nb) != 1 or len(recv.segs) != 1 or recv.segs[0][0] != 'a':
            raise Unsupported('bytes.find shape', node)
        _, arr, off, ln = recv.segs[0]
        start = args[1].t if len(args) > 1 else z3.IntVal(0)
        l = z3.Int(fresh_name('found'))
        k = z3.Int(fresh_name('k'))
        s0 = z3.If(start < 0, 0, start)
        none = z3.And(l == -1, z3.ForAll([k], z3.Implies(z3.And(k >= s0, k < ln),
                                                         z3.Select(arr, off + k) != nb[0])))
        some = z3.And(l >= s0, l < ln, z3.Select(arr, off + l) == nb[0],
                      z3.ForAll([k], z3.Implies(z3.And(k >= s0, k < l),
                                                z3.Select(arr, off + k) != nb[0])))
        i = ctx.choose([some, none], 'find')
        return VInt(l)
    raise Unsupported('bytes method %s' % name, node)


def str_method(ctx, interp, recv, name, args, kwargs, node):
    if name == 'encode':
        ct = recv.code_terms()
        if recv.s is not None:
            return VBytes.lit(recv.s.encode(args[0].s if args else 'utf-8'))
        ok = z3.And([z3.And(c >= 0, c < 128) for c in ct])
        i = ctx.choose([ok, z3.Not(ok)], 'encode')
        if i == 1:
            raise RaiseSig(VExc('builtins:UnicodeEncodeError'))
        return VBytes([('b', list(ct))])
    if name in ('format', 'join', 'strip', 'lower', 'upper', 'rstrip', 'lstrip', 'replace'):
        if recv.s is not None and all(isinstance(a, VStr) and a.s is not None for a in args) \
                and name != 'format' and name != 'join':
            return VStr(getattr(recv.s, name)(*[a.s for a in args]))
        return VStr('<text>')
    if name in ('startswith', 'endswith'):
        if recv.s is not None and isinstance(args[0], VStr) and args[0].s is not None:
            return VBool(getattr(recv.s, name)(args[0].s))
    raise Unsupported('str method %s' % name, node)


def list_method(ctx, interp, ref, o, name, args, kwargs, node):
    items = o.meta.get('items')
    if items is None:
        raise Unsupported('symbolic list method %s' % name, node)
    if name == 'append':
        items.append(args[0])
        ctx.event('list-append', ref, args[0])
        return NONE
    if name == 'extend':
        more = concrete_iter(ctx, args[0], node)
        if more is None:
            raise Unsupported('extend with symbolic', node)
        items.extend(more)
        return NONE
    if name == 'pop':
        if not items:
            raise RaiseSig(VExc('builtins:IndexError'))
        if args:
            k = args[0].conc()
            if k is None:
                raise Unsupported('pop index', node)
            return items.pop(k)
        return items.pop()
    if name == 'sort':
        raise Unsupported('list.sort', node)
    if name == 'reverse':
        items.reverse()
        return NONE
    if name == 'insert':
        k = args[0].conc()
        if k is None:
            raise Unsupported('insert index', node)
        items.insert(k, args[1])
        return NONE
    raise Unsupported('list method %s' % name, node)


def slist_method(ctx, interp, ref, o, name, args, kwargs, node):
    """symbolic list: f['arr'] (Array Int->sort), f['len']"""
    if name == 'append':
        t = slist_elem_in(ctx, o, args[0], node)
        o.f['arr'] = z3.Store(o.f['arr'], o.f['len'], t)
        o.f['len'] = z3.simplify(o.f['len'] + 1)
        if 'bag' in o.f:
            o.f['bag'] = z3.Store(o.f['bag'], t, z3.Select(o.f['bag'], t) + 1)
        if 'where' in o.f:
            # ghost: element -> an index at which it was appended
            o.f['where'] = z3.Store(o.f['where'], t, z3.simplify(o.f['len'] - 1))
        ctx.event('list-append', ref, args[0])
        return NONE
    if name == 'extend' and len(args) == 1 and isinstance(args[0], VRef) and \
            ctx.obj(args[0]).kind == 'slist' and ctx.obj(args[0]).meta['elemkind'] == o.meta['elemkind'] \
            and 'where' not in o.f:
        src = ctx.obj(args[0])
        k = z3.Int(fresh_name('k'))
        a0, l0, a1, l1 = o.f['arr'], o.f['len'], src.f['arr'], src.f['len']
        o.f['arr'] = z3.Lambda([k], z3.If(k < l0, z3.Select(a0, k), z3.Select(a1, k - l0)))
        o.f['len'] = z3.simplify(l0 + l1)
        if 'bag' in o.f:
            if 'bag' not in src.f:
                raise Unsupported('extend with a list without multiset view', node)
            b0, b1 = o.f['bag'], src.f['bag']
            from .ground import All, base_array
            role = ctx.roles.arrays.get(base_array(b0).get_id()) or \
                ctx.roles.arrays.get(base_array(b1).get_id())
            if role is not None:
                nb = z3.Array(fresh_name('bag'), I, I)
                ctx.roles.array(nb, role)
                ctx.assume(All([role], lambda k: z3.Select(nb, k) == z3.Select(b0, k) + z3.Select(b1, k)))
                o.f['bag'] = nb
            else:
                q = z3.Int(fresh_name('q'))
                o.f['bag'] = z3.Lambda([q], z3.Select(b0, q) + z3.Select(b1, q))
        return NONE
    if name == 'pop' and not args and 'bag' in o.f and 'where' not in o.f:
        nonempty = o.f['len'] > 0
        i = ctx.choose([nonempty, z3.Not(nonempty)], 'slist-pop')
        if i == 1:
            raise RaiseSig(VExc('builtins:IndexError'))
        t = z3.Select(o.f['arr'], z3.simplify(o.f['len'] - 1))
        # the bag is the multiset of the elements: the popped one occurs in it
        ctx.assume(z3.Select(o.f['bag'], t) >= 1)
        o.f['bag'] = z3.Store(o.f['bag'], t, z3.Select(o.f['bag'], t) - 1)
        o.f['len'] = z3.simplify(o.f['len'] - 1)
        return slist_elem_out(ctx, o, t)
    raise Unsupported('symbolic list method %s' % name, node)


def slist_elem_out(ctx, o, t):
    ek = o.meta['elemkind']
    if ek.startswith('bytes'):
        n = int(ek[5:])
        ctx.assume(z3.And(t >= 0, t < 256 ** n))
        return num_to_bytes(ctx, t, n, 'le')
    if ek == 'int':
        return VInt(t)
    if ek == 'pobj':
        return VOpaque(t, 'pobj')
    return VOpaque(t, 'le')


def slist_copy(ctx, o):
    return ctx.new_obj('slist', None, dict(o.f), dict(o.meta))


class SlistCursor:
    """iteration over a symbolic list (the list must not change while it is iterated: the cursor
    reads the array and length as they were at the start)"""

    def __init__(self, ctx, o, what, ref):
        self.o = o
        self.arr0, self.len0 = o.f['arr'], o.f['len']
        self.idx = z3.IntVal(0)

    def havoc(self, ctx):
        self.idx = z3.Int(fresh_name('it_idx'))
        ctx.assume(z3.And(self.idx >= 0, self.idx <= self.len0))

    def has_more(self, ctx):
        return self.idx < self.len0

    def next(self, ctx):
        t = z3.Select(self.arr0, self.idx)
        self.idx = z3.simplify(self.idx + 1)
        return slist_elem_out(ctx, self.o, t)


def slist_elem_in(ctx, o, v, node):
    ek = o.meta['elemkind']
    if ek.startswith('bytes'):
        n = int(ek[5:])
        if isinstance(v, VBytes) and v.conc_len() == n:
            return bytes_num(ctx, v, node)
    if ek == 'int' and isinstance(v, VInt):
        return v.t
    if ek == 'opaque' and isinstance(v, VOpaque):
        return v.t
    if ek == 'pobj' and isinstance(v, VOpaque) and v.tag == 'pobj':
        return v.t
    raise Unsupported('list element kind %s for %r' % (ek, v), node)


def new_slist(ctx, elemkind, name='l', empty=False, bag=False):
    """bag=True adds the ghost multiset view f['bag'] (element -> number of occurrences), kept by
    append/pop; `x in l` is then bag[x] > 0.  elemkind 'pobj': persistent objects (Int ids)"""
    s = Obj if elemkind == 'opaque' else I
    arr = z3.Array(fresh_name(name + '_arr'), I, s)
    if empty:
        ln = z3.IntVal(0)
    else:
        ln = z3.Int(fresh_name(name + '_len'))
        ctx.assume(ln >= 0)
    f = {'arr': arr, 'len': ln}
    if bag:
        f['bag'] = z3.K(s, z3.IntVal(0)) if empty else z3.Array(fresh_name(name + '_bag'), s, I)
    return ctx.new_obj('slist', None, f, {'elemkind': elemkind, 'name': name})


KIND_ITER['slist'] = lambda ctx, o, what, ref: SlistCursor(ctx, o, what, ref)


def call_method(ctx, interp, recv, name, args, kwargs, node, fr):
    if isinstance(recv, VBytes):
        return bytes_method(ctx, interp, recv, name, args, kwargs, node)
    if isinstance(recv, VStr):
        return str_method(ctx, interp, recv, name, args, kwargs, node)
    if isinstance(recv, VStruct):
        if name == 'pack':
            return struct_pack(ctx, recv.fmt, args, node)
        if name == 'unpack':
            return struct_unpack(ctx, recv.fmt, args[0], node)
    if isinstance(recv, VLogger):
        ctx.ex.dropped.add('logging call')
        return NONE
    if isinstance(recv, VOpaque):
        h = ctx.hooks.get('opaque_method')
        if h:
            r = h(ctx, recv, name, args, kwargs, node)
            if r is not None:
                return r
        raise Unsupported('method %s of opaque %s' % (name, recv.tag), node)
    if isinstance(recv, VRef):
        o = ctx.obj(recv)
        if o.kind == 'file':
            return file_method(ctx, interp, recv, o, name, args, kwargs, node)
        if o.kind == 'map':
            return map_method(ctx, interp, recv, o, name, args, kwargs, node)
        if o.kind == 'list':
            return list_method(ctx, interp, recv, o, name, args, kwargs, node)
        if o.kind == 'slist':
            return slist_method(ctx, interp, recv, o, name, args, kwargs, node)
        if o.kind == 'lock':
            return lock_method(ctx, interp, recv, o, name, args, kwargs, node)
        if o.kind == 'pydict':
            return pydict_method(ctx, interp, recv, o, name, args, kwargs, node)
        h = KIND_METHOD.get(o.kind)
        if h:
            return h(ctx, interp, recv, o, name, args, kwargs, node)
    raise Unsupported('method %s on %r' % (name, recv), node)


# --------------------------------------------------------------------------------------
# free functions
# --------------------------------------------------------------------------------------
PRIMS = {}


def prim(name):
    def deco(fn):
        PRIMS[name] = fn
        return fn
    return deco


def call_prim(ctx, interp, name, args, kwargs, node, fr):
    h = ctx.hooks.get('prim:' + name)
    if h:
        return h(ctx, interp, args, kwargs, node)
    fn = PRIMS.get(name)
    if fn is None and name.endswith('.providedBy'):
        # zope.interface declarations: an unconstrained boolean
        return VBool(z3.Bool(fresh_name('provided')))
    if fn is None and name in ('zope.interface.alsoProvides', 'zope.interface.directlyProvides'):
        return NONE
    if fn is None:
        if name.startswith('logging.') or name.split('.')[-1] in ('debug', 'info', 'warning',
                                                                  'error', 'critical',
                                                                  'exception') and 'log' in name:
            ctx.ex.dropped.add('logging call')
            return NONE
        raise Unsupported('external function %s has no model' % name, node)
    return fn(ctx, interp, args, kwargs, node)


@prim('builtins.len')
def p_len(ctx, interp, args, kwargs, node):
    v = args[0]
    if isinstance(v, VBytes):
        return VInt(v.length())
    if isinstance(v, VStr):
        return VInt(len(v.code_terms()))
    if isinstance(v, VTuple):
        return VInt(len(v.items))
    if isinstance(v, VRef):
        o = ctx.obj(v)
        if o.kind == 'list' and 'items' in o.meta:
            return VInt(len(o.meta['items']))
        if o.kind == 'slist':
            return VInt(o.f['len'])
        if o.kind == 'pydict':
            return VInt(len(o.meta['pairs']))
        if o.kind == 'map':
            if 'size' in o.f:
                return VInt(o.f['size'])
            h = ctx.hooks.get('map_len')
            if h:
                return h(ctx, v, o, node)
        h = KIND_METHOD.get(o.kind)
        if h:
            return h(ctx, interp, v, o, '__len__', [], {}, node)
        if o.kind == 'inst':
            q, fn = source.find_method(o.cls, '__len__')
            if fn is not None:
                return interp.call_repo(ctx, q, [v], {}, node)
    raise Unsupported('len of %r' % (v,), node)


@prim('builtins.isinstance')
def p_isinstance(ctx, interp, args, kwargs, node):
    v, c = args
    classes = c.items if isinstance(c, VTuple) else [c]
    res = False
    for cl in classes:
        if not isinstance(cl, VClass):
            raise Unsupported('isinstance with non-class', node)
        n = cl.name
        if n == 'builtins:bytes':
            res = res or isinstance(v, VBytes)
        elif n == 'builtins:str':
            res = res or isinstance(v, VStr)
        elif n == 'builtins:int':
            res = res or isinstance(v, (VInt, VBool))
        elif n == 'builtins:bool':
            res = res or isinstance(v, VBool)
        elif n == 'builtins:NoneType':
            res = res or isinstance(v, VNone)
        elif n == 'builtins:tuple':
            res = res or isinstance(v, VTuple)
        elif n == 'builtins:dict':
            res = res or (isinstance(v, VRef) and ctx.obj(v).kind in ('pydict',) or
                          (isinstance(v, VRef) and ctx.obj(v).kind == 'map'
                           and ctx.obj(v).cls in (None, 'builtins:dict')))
        elif n == 'builtins:list':
            res = res or (isinstance(v, VRef) and ctx.obj(v).kind in ('list', 'slist'))
        else:
            if isinstance(v, VRef):
                o = ctx.obj(v)
                if o.cls is not None:
                    res = res or (n in source.mro(o.cls)) or o.cls == n
                    continue
            if isinstance(v, VExc):
                res = res or source.is_subclass(v.cls, n)
                continue
            if isinstance(v, VOpaque):
                h = ctx.hooks.get('opaque_isinstance')
                if h:
                    r = h(ctx, v, n)
                    if r is not None:
                        res = res or r
                        continue
                raise Unsupported('isinstance of opaque %s' % v.tag, node)
    return VBool(res)


@prim('builtins.int')
def p_int(ctx, interp, args, kwargs, node):
    v = args[0]
    if isinstance(v, VInt):
        return v
    if isinstance(v, VBool):
        return VInt(z3.If(v.t, 1, 0))
    raise Unsupported('int() of %r' % (v,), node)


@prim('builtins.bool')
def p_bool(ctx, interp, args, kwargs, node):
    c = truthy(ctx, args[0], node)
    return VBool(c)


@prim('builtins.min')
def p_min(ctx, interp, args, kwargs, node):
    if len(args) == 2 and all(isinstance(a, VInt) for a in args):
        return VInt(z3.If(args[0].t <= args[1].t, args[0].t, args[1].t))
    if len(args) == 2 and all(isinstance(a, VBytes) for a in args):
        c = interp.compare(ctx, ast.LtE(), args[0], args[1], node)
        i = ctx.choose([c, z3.Not(c)], 'min')
        return args[i]
    raise Unsupported('min()', node)


@prim('builtins.max')
def p_max(ctx, interp, args, kwargs, node):
    if len(args) == 2 and all(isinstance(a, VInt) for a in args):
        return VInt(z3.If(args[0].t >= args[1].t, args[0].t, args[1].t))
    if len(args) == 2 and all(isinstance(a, VBytes) for a in args):
        c = interp.compare(ctx, ast.GtE(), args[0], args[1], node)
        c = as_z3_bool(c)
        i = ctx.choose([c, z3.Not(c)], 'max')
        return args[i]
    raise Unsupported('max()', node)


@prim('builtins.bytes')
def p_bytes(ctx, interp, args, kwargs, node):
    if not args:
        return VBytes([])
    v = args[0]
    if isinstance(v, VBytes):
        return v
    if isinstance(v, VTuple) and all(isinstance(x, VInt) for x in v.items):
        # bytes((i,)) raises ValueError outside 0..255
        for x in v.items:
            ok = z3.And(x.t >= 0, x.t < 256)
            i = ctx.choose([ok, z3.Not(ok)], 'bytes-range')
            if i == 1:
                raise RaiseSig(VExc('builtins:ValueError'))
        return VBytes([('b', [x.t for x in v.items])])
    raise Unsupported('bytes() of %r' % (v,), node)


@prim('builtins.str')
def p_str(ctx, interp, args, kwargs, node):
    v = args[0]
    if isinstance(v, VStr):
        return v
    if isinstance(v, VInt) and v.conc() is not None:
        return VStr(str(v.conc()))
    return VStr('<text>')


@prim('builtins.repr')
def p_repr(ctx, interp, args, kwargs, node):
    return VStr('<repr>')


@prim('builtins.list')
def p_list(ctx, interp, args, kwargs, node):
    if not args:
        return ctx.new_obj('list', meta={'items': []})
    conc = concrete_iter(ctx, args[0], node)
    if conc is None and isinstance(args[0], VRef) and ctx.obj(args[0]).kind == 'slist':
        return slist_copy(ctx, ctx.obj(args[0]))
    if conc is None:
        h = ctx.hooks.get('list_of')
        if h:
            return h(ctx, args[0], node)
        r = keys_list(ctx, args[0], node, ordered=False)
        if r is not None:
            return r
        raise Unsupported('list() of symbolic iterable', node)
    return ctx.new_obj('list', meta={'items': conc})


def keys_list(ctx, it, node, ordered):
    """the keys of a symbolic map as a symbolic list: each key exactly once (multiset view = the domain), every
    element a key, every key at some index; ascending if `ordered` (sorted()), in no particular order otherwise
    (list(map), sorted(..., key/reverse)).  None if `it` is not such a map."""
    from .ground import All, base_array
    m = None
    if isinstance(it, VFunc) and it.kind == 'iterview' and it.name in ('keys', 'iterkeys'):
        m = ctx.obj(it.selfv)
    elif isinstance(it, VRef) and ctx.obj(it).kind == 'map':
        m = ctx.obj(it)
    if m is None or m.kind != 'map' or not m.meta['keykind'].startswith('bytes'):
        return None
    role = ctx.roles.arrays.get(base_array(m.f['dom']).get_id())
    if role is None:
        return None
    r = new_slist(ctx, m.meta['keykind'], 'sorted_keys' if ordered else 'listed_keys', bag=True)
    o = ctx.obj(r)
    arr, ln, bag, md = o.f['arr'], o.f['len'], o.f['bag'], m.f['dom']
    ctx.roles.array(bag, role)
    ctx.roles.array(arr, 'sidx')
    o.meta['keys_of'] = md
    ctx.assume(All([role], lambda k: z3.Select(bag, k) == z3.If(z3.Select(md, k), 1, 0)))
    ctx.assume(All(['sidx'], lambda i: z3.Implies(z3.And(i >= 0, i < ln), z3.Select(md, z3.Select(arr, i)))))
    if ordered:
        ctx.assume(All(['sidx', 'sidx'], lambda i, j: z3.Implies(
            z3.And(i >= 0, i < j, j < ln), z3.Select(arr, i) < z3.Select(arr, j))))
    # ghost: where each key sits in the list (every key occurs)
    at = z3.Array(fresh_name('index_of_key'), I, I)
    ctx.roles.array(at, role)
    o.meta['index_of_key'] = at
    ctx.assume(All([role], lambda k: z3.Implies(z3.Select(md, k), z3.And(
        z3.Select(at, k) >= 0, z3.Select(at, k) < ln, z3.Select(arr, z3.Select(at, k)) == k))))
    return r


@prim('builtins.sorted')
def p_sorted(ctx, interp, args, kwargs, node):
    """sorted(map / map.keys()): the keys as a symbolic list - each key once, ascending; the multiset
    view is the domain (what the modelled consumers use: iteration, extend, membership)"""
    from .ground import All, base_array
    it = args[0] if args else None
    if kwargs and len(args) == 1 and concrete_iter(ctx, it, node) is None:
        # sorted(x, key=..., reverse=...): SOME rearrangement of the elements (the order itself is not modelled)
        if isinstance(it, VRef) and ctx.obj(it).kind == 'slist':
            src = ctx.obj(it)
            r = new_slist(ctx, src.meta['elemkind'], 'rearranged', bag='bag' in src.f)
            o = ctx.obj(r)
            ctx.assume(o.f['len'] == src.f['len'])
            if 'bag' in src.f:
                o.f['bag'] = src.f['bag']
            return r
        r = keys_list(ctx, it, node, ordered=False)
        if r is not None:
            return r
    if kwargs or len(args) != 1:
        raise Unsupported('sorted() with key/reverse', node)
    conc = concrete_iter(ctx, it, node)
    if conc is not None:
        vals = [v.conc_bytes() if isinstance(v, VBytes) else (v.conc() if isinstance(v, VInt) else None)
                for v in conc]
        if all(v is not None for v in vals):
            order = sorted(range(len(conc)), key=lambda i: vals[i])
            return ctx.new_obj('list', meta={'items': [conc[i] for i in order]})
        raise Unsupported('sorted() of symbolic values', node)
    r = keys_list(ctx, it, node, ordered=True)
    if r is None:
        raise Unsupported('sorted() of %r' % (it,), node)
    return r


@prim('builtins.tuple')
def p_tuple(ctx, interp, args, kwargs, node):
    if not args:
        return VTuple([])
    conc = concrete_iter(ctx, args[0], node)
    if conc is None:
        raise Unsupported('tuple() of symbolic iterable', node)
    return VTuple(conc)


@prim('builtins.dict')
def p_dict(ctx, interp, args, kwargs, node):
    if args:
        raise Unsupported('dict(iterable)', node)
    return ctx.new_obj('pydict', meta={'pairs': [(VStr(k), v) for k, v in kwargs.items()]})


@prim('builtins.map')
def p_map(ctx, interp, args, kwargs, node):
    fn, seq = args[0], args[1]
    conc = concrete_iter(ctx, seq, node)
    if conc is None:
        raise Unsupported('map() over symbolic', node)
    return ctx.new_obj('list', meta={'items': [interp.call_value(ctx, fn, [x], {}, node)
                                               for x in conc]})


@prim('builtins.range')
def p_range(ctx, interp, args, kwargs, node):
    cs = [a.conc() if isinstance(a, VInt) else None for a in args]
    if all(c is not None for c in cs):
        return ctx.new_obj('range', meta={'conc': list(range(*cs))})
    raise Unsupported('symbolic range', node)


@prim('builtins.getattr')
def p_getattr(ctx, interp, args, kwargs, node):
    if not isinstance(args[1], VStr) or args[1].s is None:
        raise Unsupported('getattr with non-literal name', node)
    try:
        return interp.get_attr(ctx, args[0], args[1].s, node)
    except Unsupported:
        if len(args) > 2:
            if isinstance(args[0], VRef) and ctx.obj(args[0]).kind == 'inst':
                return args[2]
            if isinstance(args[0], VNone):
                return args[2]
        raise


@prim('builtins.hasattr')
def p_hasattr(ctx, interp, args, kwargs, node):
    if not isinstance(args[1], VStr) or args[1].s is None:
        raise Unsupported('hasattr with non-literal name', node)
    v = args[0]
    if isinstance(v, VRef) and ctx.obj(v).kind == 'inst':
        o = ctx.obj(v)
        if args[1].s in o.f:
            return VBool(True)
        q, fn = source.find_method(o.cls, args[1].s)
        if fn is not None:
            return VBool(True)
        m, a = source.find_class_attr(o.cls, args[1].s)
        return VBool(a is not None)
    raise Unsupported('hasattr on %r' % (v,), node)


@prim('builtins.print')
def p_print(ctx, interp, args, kwargs, node):
    ctx.ex.dropped.add('print call')
    return NONE


@prim('builtins.id')
def p_id(ctx, interp, args, kwargs, node):
    return VInt(z3.Int(fresh_name('id')))


@prim('struct.pack')
def p_struct_pack(ctx, interp, args, kwargs, node):
    if not isinstance(args[0], VStr) or args[0].s is None:
        raise Unsupported('struct.pack with symbolic format', node)
    return struct_pack(ctx, args[0].s, args[1:], node)


@prim('struct.unpack')
def p_struct_unpack(ctx, interp, args, kwargs, node):
    if not isinstance(args[0], VStr) or args[0].s is None:
        raise Unsupported('struct.unpack with symbolic format', node)
    return struct_unpack(ctx, args[0].s, args[1], node)


@prim('struct.calcsize')
def p_calcsize(ctx, interp, args, kwargs, node):
    return VInt(sum(n for _, n in parse_fmt(args[0].s, node)))


@prim('logging.getLogger')
def p_getlogger(ctx, interp, args, kwargs, node):
    return LOGGER


@prim('os.fsync')
def p_fsync(ctx, interp, args, kwargs, node):
    fd = args[0]
    if not isinstance(fd, VFd):
        raise Unsupported('fsync of %r' % (fd,), node)
    h = ctx.hooks.get('io_fault')
    if h:
        h(ctx, fd.ref, 'fsync', node)
    o = ctx.obj(fd.ref)
    # fsync forces what has reached the OS: buffered (dirty) data is not covered
    o.f['unsynced'] = z3.simplify(z3.And(o.f['unsynced'], o.f['dirty']))
    ctx.event('fsync', fd.ref)
    return NONE


def construct(ctx, interp, clsname, args, kwargs, node):
    h = ctx.hooks.get('construct:' + clsname)
    if h:
        return h(ctx, interp, args, kwargs, node)
    c = CONSTRUCTORS.get(clsname)
    if c is None:
        raise Unsupported('constructor of %s has no model' % clsname, node)
    return c(ctx, interp, args, kwargs, node)


CONSTRUCTORS = {}


def ctor(name):
    def deco(fn):
        CONSTRUCTORS[name] = fn
        return fn
    return deco


@ctor('ext:struct.Struct')
def c_struct(ctx, interp, args, kwargs, node):
    return VStruct(args[0].s)


@ctor('builtins:bytes')
def c_bytes(ctx, interp, args, kwargs, node):
    return p_bytes(ctx, interp, args, kwargs, node)


@ctor('builtins:int')
def c_int(ctx, interp, args, kwargs, node):
    return p_int(ctx, interp, args, kwargs, node)


@ctor('builtins:str')
def c_str(ctx, interp, args, kwargs, node):
    return p_str(ctx, interp, args, kwargs, node)


@ctor('builtins:list')
def c_list(ctx, interp, args, kwargs, node):
    return p_list(ctx, interp, args, kwargs, node)


@ctor('builtins:tuple')
def c_tuple(ctx, interp, args, kwargs, node):
    return p_tuple(ctx, interp, args, kwargs, node)


@ctor('builtins:dict')
def c_dict(ctx, interp, args, kwargs, node):
    return p_dict(ctx, interp, args, kwargs, node)


@ctor('builtins:type')
def c_type(ctx, interp, args, kwargs, node):
    v = args[0]
    if isinstance(v, VNone):
        return VClass('builtins:NoneType')
    if isinstance(v, VBytes):
        return VClass('builtins:bytes')
    if isinstance(v, VStr):
        return VClass('builtins:str')
    if isinstance(v, (VInt,)):
        return VClass('builtins:int')
    raise Unsupported('type() of %r' % (v,), node)


@ctor('builtins:object')
def c_object(ctx, interp, args, kwargs, node):
    # object(): a fresh object distinct from every other value (the `marker = object()` idiom)
    return VOpaque(z3.Const(fresh_name('marker'), Obj), 'marker')


@ctor('builtins:bool')
def c_bool(ctx, interp, args, kwargs, node):
    return p_bool(ctx, interp, args, kwargs, node)


@prim('builtins.open')
def p_open(ctx, interp, args, kwargs, node):
    h = ctx.hooks.get('open')
    if h:
        r = h(ctx, args, kwargs, node)
        if r is not None:
            return r
    mode = 'r'
    if len(args) > 1 and isinstance(args[1], VStr) and args[1].s is not None:
        mode = args[1].s
    elif 'mode' in kwargs and isinstance(kwargs['mode'], VStr):
        mode = kwargs['mode'].s
    elif len(args) > 1:
        raise Unsupported('open() with symbolic mode', node)
    if mode.startswith('w'):
        f = new_file(ctx, 'newfile', arr=z3.K(I, z3.IntVal(0)), size=z3.IntVal(0),
                     pos=z3.IntVal(0), mode=mode)
    else:
        f = new_file(ctx, 'openedfile', pos=z3.IntVal(0), mode=mode)
    ctx.event('open', f, args[0], mode)
    return f
