"""Run the verification of a set of specs in a process pool; collect verdicts."""
import importlib
import multiprocessing as mp
import os
import sys
import time
import traceback

from . import btrees, contract, engine, prims, solve, source  # noqa: F401 (btrees registers models)


def build_registry(modules):
    reg = contract.Registry()
    specs = []
    for mn in modules:
        m = importlib.import_module(mn)
        for cls in getattr(m, 'SPECS', []):
            s = cls()
            s.key = s.func
            reg.add(s)
            specs.append(s)
        for cls in getattr(m, 'VARIANTS', []):
            # further explorations of a function already under contract (crash / fault hooks
            # switched on); never used at call sites
            s = cls()
            s.key = '%s#%s' % (s.func, s.label)
            reg.variants[s.key] = s
            specs.append(s)
        for q in getattr(m, 'INLINE', []):
            reg.inline.add(q)
        for k, v in getattr(m, 'OVERRIDES', {}).items():
            reg.overrides[k] = v
        if hasattr(m, 'register'):
            m.register(reg)
    return reg, specs


def _verdict_dict(vc, use_cvc5):
    v = solve.discharge(vc, use_cvc5=use_cvc5)
    return {
        'name': v.name, 'status': v.status, 'backend': v.backend, 'time': v.time,
        'reason': v.reason, 'model': v.model, 'site': v.site, 'func': v.func,
        'path': list(v.path), 'trivial': v.trivial,
        'goal': (str(vc.goal)[:600] if v.status != 'discharged' else None),
    }


def discharge_all(vcs, use_cvc5, nproc):
    """discharge the VCs of one function; with nproc > 1 the (unpicklable) z3 terms are shared
    with forked children, which send back plain verdict dicts"""
    import json
    if nproc <= 1 or len(vcs) <= 6:
        return [_verdict_dict(vc, use_cvc5) for vc in vcs]
    nproc = min(nproc, len(vcs))
    kids = []
    for k in range(nproc):
        r, w = os.pipe()
        pid = os.fork()
        if pid == 0:
            os.close(r)
            try:
                out = [(i, _verdict_dict(vcs[i], use_cvc5)) for i in range(k, len(vcs), nproc)]
                data = json.dumps(out, default=str).encode()
            except BaseException:
                data = json.dumps({'error': traceback.format_exc()}).encode()
            with os.fdopen(w, 'wb') as f:
                f.write(data)
            os._exit(0)
        os.close(w)
        kids.append((pid, r))
    res = [None] * len(vcs)
    for pid, r in kids:
        with os.fdopen(r, 'rb') as f:
            data = f.read()
        os.waitpid(pid, 0)
        out = json.loads(data.decode() or '[]')
        if isinstance(out, dict):
            raise RuntimeError('VC worker failed: ' + out.get('error', '?'))
        for i, vd in out:
            res[i] = vd
    for i, vd in enumerate(res):
        if vd is None:
            raise RuntimeError('VC worker lost verdict %d' % i)
    return res


def _work(arg):
    modules, func, use_cvc5, sub = arg
    t0 = time.time()
    try:
        reg, specs = build_registry(modules)
        spec = reg.variants.get(func) or reg.specs[func]
        fr = contract.verify_function(reg, spec)
        verdicts = discharge_all(fr.vcs, use_cvc5, sub)
        return {
            'func': func, 'status': fr.status, 'message': fr.message, 'paths': fr.paths,
            'exits': fr.exits, 'inlined': fr.inlined, 'contracts_used': fr.contracts_used,
            'dropped': fr.dropped, 'time_explore': fr.time_explore, 'verdicts': verdicts,
            'props': list(spec.props), 'tier': spec.tier,
            'assumptions': list(spec.assumptions), 'time': time.time() - t0,
        }
    except Exception:
        return {'func': func, 'status': 'error', 'message': traceback.format_exc(),
                'paths': 0, 'exits': {}, 'inlined': [], 'contracts_used': [], 'dropped': [],
                'time_explore': 0.0, 'verdicts': [], 'props': [], 'tier': 1,
                'assumptions': [], 'time': time.time() - t0}


def run_specs(modules, funcs, jobs=None, use_cvc5=True):
    jobs = jobs or min(16, max(1, len(funcs)))
    sub = max(1, min(8, 16 // max(1, min(len(funcs), jobs))))
    args = [(modules, f, use_cvc5, sub) for f in funcs]
    if jobs == 1 or len(funcs) == 1:
        return [_work(a) for a in args]
    ctxm = mp.get_context('fork')
    with ctxm.Pool(jobs) as pool:
        return pool.map(_work, args, chunksize=1)


def main(argv):
    modules = argv[0].split(',')
    reg, specs = build_registry(modules)
    funcs = [s.key for s in specs if getattr(s, 'verify', True) and
             (not argv[1:] or any(a in s.key for a in argv[1:]))]
    results = run_specs(modules, funcs)
    for r in results:
        nd = sum(1 for v in r['verdicts'] if v['status'] == 'discharged')
        print('%-55s %-11s paths=%-4d vcs=%-4d discharged=%-4d %.1fs %s' % (
            r['func'].split(':')[1], r['status'], r['paths'], len(r['verdicts']), nd, r['time'],
            r['message'][-int(os.environ.get('PYVC_MSG', 300)):]))
        for v in r['verdicts']:
            if v['status'] != 'discharged':
                print('     %-9s %s  [%s] %s path=%s' % (v['status'], v['name'], v['func'],
                                                        v['site'], v['path']))
                if os.environ.get('PYVC_SHOW_GOAL'):
                    print('        goal:', v['goal'])
                if v['model'] and os.environ.get('PYVC_SHOW_MODEL'):
                    for k, val in sorted(v['model'].items()):
                        print('        ', k, '=', val)


if __name__ == '__main__':
    sys.path.insert(0, os.path.dirname(os.path.dirname(os.path.abspath(__file__))))
    main(sys.argv[1:])
