"""Discharge of verification conditions (DESIGN 3.5).

Stage 1: z3 (in-process) on  pc /\ not goal.   unsat -> discharged.
Stage 2 (only if stage 1 is not unsat): cvc5 binary on the SMT-LIB rendering (when the VC has no
lambda - cvc5 1.0 does not read z3's lambda syntax) -> unsat discharges.
Anything else: 'refuted' (z3 said sat: model attached) or 'unknown' (with the solver's reason).
"""
import os
import subprocess
import tempfile
import time

import z3

Z3_TIMEOUT_MS = int(os.environ.get('PYVC_Z3_TIMEOUT_MS', '20000'))
CVC5 = '/usr/bin/cvc5'


class Verdict:
    __slots__ = ('name', 'status', 'backend', 'time', 'reason', 'model', 'site', 'func', 'path',
                 'kind', 'trivial')

    def __init__(self, vc):
        self.name = vc.name
        self.site = vc.site
        self.func = vc.func
        self.path = vc.path
        self.kind = vc.kind
        self.status = None   # discharged | refuted | unknown
        self.backend = None
        self.time = 0.0
        self.reason = ''
        self.model = None
        self.trivial = False


def model_to_dict(m, limit=400):
    out = {}
    for d in m.decls():
        try:
            v = m[d]
            s = str(v)
            if len(s) > 300:
                s = s[:300] + '...'
            out[d.name()] = s
        except Exception:
            pass
        if len(out) >= limit:
            break
    return out


def discharge(vc, use_cvc5=True, timeout_ms=None):
    from . import ground
    v = Verdict(vc)
    t0 = time.time()
    if isinstance(vc.goal, z3.ExprRef) and z3.is_true(vc.goal):
        v.status, v.backend, v.trivial = 'discharged', 'simplifier', True
        return v
    pc_plain = [b for b in vc.pc if isinstance(b, z3.ExprRef)]
    pc_q = [b for b in vc.pc if not isinstance(b, z3.ExprRef)]
    ground_model = None
    if pc_q or not isinstance(vc.goal, z3.ExprRef):
        # ground stage (primary): own instantiation, quantifier-free query
        r, gs, stats = ground.ground_check(vc.pc, vc.goal, vc.roles or ground.Roles(),
                                           timeout_ms=timeout_ms or Z3_TIMEOUT_MS)
        v.time = time.time() - t0
        if r == z3.unsat:
            v.status, v.backend = 'discharged', 'ground'
            return v
        if r == z3.sat:
            try:
                ground_model = model_to_dict(gs.model())
            except Exception:
                ground_model = None
        ground_reason = 'ground-stage: %s (%s)' % (r, stats)
        if os.environ.get('PYVC_NO_QUANT'):
            v.status, v.backend, v.reason, v.model = 'unknown', 'ground', ground_reason, ground_model
            return v
        pc_full = pc_plain + [ground.to_z3(b) for b in pc_q]
        goal_full = ground.to_z3(vc.goal)
        qt = min(timeout_ms or Z3_TIMEOUT_MS, 10000)
    else:
        pc_full, goal_full, qt, ground_reason = pc_plain, vc.goal, timeout_ms or Z3_TIMEOUT_MS, ''
    s = z3.Solver()
    s.set('timeout', qt)
    for b in pc_full:
        s.add(b)
    s.add(z3.Not(goal_full))
    r = s.check()
    v.time = time.time() - t0
    if r == z3.unsat:
        v.status, v.backend = 'discharged', 'z3'
        return v
    z3_reason = s.reason_unknown() if r == z3.unknown else 'sat'
    model = None
    if r == z3.sat:
        try:
            model = model_to_dict(s.model())
        except Exception:
            model = None
    # stage 1b: a second z3 configuration (different quantifier strategy) on unknown
    if r == z3.unknown:
        s2 = z3.Solver()
        s2.set('timeout', qt)
        s2.set('smt.mbqi', False)
        s2.set('smt.random_seed', 7)
        for b in pc_full:
            s2.add(b)
        s2.add(z3.Not(goal_full))
        r2 = s2.check()
        if r2 == z3.unsat:
            v.status, v.backend = 'discharged', 'z3-ematching'
            v.time = time.time() - t0
            return v
    if use_cvc5 and os.path.exists(CVC5):
        smt = s.to_smt2()
        if 'lambda' not in smt:
            rc = run_cvc5(smt, min(timeout_ms or Z3_TIMEOUT_MS, 20000) // 1000 + 1)
            if rc == 'unsat':
                v.status, v.backend = 'discharged', 'cvc5'
                v.time = time.time() - t0
                return v
            if rc == 'sat' and r == z3.unknown:
                z3_reason += '; cvc5: sat'
    v.time = time.time() - t0
    if r == z3.sat:
        v.status, v.backend, v.reason, v.model = 'refuted', 'z3', 'sat', model
    else:
        v.status, v.backend, v.reason = 'unknown', 'z3', (ground_reason + '; ' if ground_reason
                                                          else '') + 'z3: ' + z3_reason
        v.model = ground_model
    return v


def run_cvc5(smt, tlimit_s):
    txt = '(set-logic ALL)\n' + smt
    with tempfile.NamedTemporaryFile('w', suffix='.smt2', delete=False) as f:
        f.write(txt)
        p = f.name
    try:
        out = subprocess.run([CVC5, '--tlimit=%d' % (tlimit_s * 1000), p],
                             capture_output=True, text=True, timeout=tlimit_s + 5)
        first = out.stdout.strip().split('\n')[0] if out.stdout.strip() else ''
        return first
    except Exception:
        return 'error'
    finally:
        try:
            os.unlink(p)
        except OSError:
            pass


def cover_check(pc, timeout_ms=5000):
    s = z3.Solver()
    s.set('timeout', timeout_ms)
    for b in pc:
        s.add(b)
    return s.check()
