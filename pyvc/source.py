"""Extraction of the real source: every run re-parses the files under REPO/src.

Qualified names are 'pkg.module:Class.method' or 'pkg.module:function'.
"""
import ast
import hashlib
import os

REPO = os.environ.get('PYVC_REPO', '/repo')
SRC = os.path.join(REPO, 'src')


class ModuleInfo:
    def __init__(self, name, path):
        self.name = name
        self.path = path
        with open(path, 'rb') as f:
            raw = f.read()
        self.sha256 = hashlib.sha256(raw).hexdigest()
        self.tree = ast.parse(raw.decode('utf-8'), filename=path)
        self.funcs = {}      # 'f' / 'C.m' -> FunctionDef
        self.classes = {}    # 'C' -> ClassDef
        self.assigns = {}    # module-level name -> ast expr (last simple assignment)
        self.imports = {}    # local name -> ('mod', dotted) | ('from', module, name)
        self.class_attrs = {}  # 'C' -> {name: ast expr}
        self._index(self.tree.body, '')

    def _index(self, body, prefix):
        for node in body:
            if isinstance(node, (ast.FunctionDef, ast.AsyncFunctionDef)):
                self.funcs[prefix + node.name] = node
            elif isinstance(node, ast.ClassDef):
                self.classes[prefix + node.name] = node
                attrs = {}
                for sub in node.body:
                    if isinstance(sub, ast.Assign):
                        for t in sub.targets:          # also  a = b = None
                            if isinstance(t, ast.Name):
                                attrs[t.id] = sub.value
                self.class_attrs[prefix + node.name] = attrs
                self._index(node.body, prefix + node.name + '.')
            elif prefix == '':
                if isinstance(node, ast.Assign):
                    for t in node.targets:
                        if isinstance(t, ast.Name):
                            self.assigns[t.id] = node.value
                elif isinstance(node, ast.Import):
                    for a in node.names:
                        self.imports[a.asname or a.name.split('.')[0]] = (
                            'mod', a.name if a.asname else a.name.split('.')[0])
                elif isinstance(node, ast.ImportFrom):
                    mod = node.module or ''
                    if node.level:
                        parts = self.name.split('.')
                        # a module 'a.b.c' at level 1 -> package 'a.b'; a package
                        # __init__ 'a.b' at level 1 -> 'a.b'
                        drop = node.level - (1 if self.path.endswith('__init__.py') else 0)
                        base = parts[:len(parts) - drop]
                        mod = '.'.join(base + ([mod] if mod else []))
                    for a in node.names:
                        self.imports[a.asname or a.name] = ('from', mod, a.name)
                elif isinstance(node, (ast.If, ast.Try)):
                    # module-level conditional definitions (e.g. utils.Lock): index
                    # the *else* / body branches conservatively: only imports/assigns
                    for sub in ast.walk(node):
                        if isinstance(sub, ast.ImportFrom) and not sub.level:
                            for a in sub.names:
                                self.imports.setdefault(
                                    a.asname or a.name, ('from', sub.module, a.name))


_cache = {}


def module_path(name):
    p = os.path.join(SRC, *name.split('.'))
    if os.path.isfile(p + '.py'):
        return p + '.py'
    if os.path.isfile(os.path.join(p, '__init__.py')):
        return os.path.join(p, '__init__.py')
    return None


def load_module(name):
    if name in _cache:
        return _cache[name]
    p = module_path(name)
    if p is None:
        _cache[name] = None
        return None
    m = ModuleInfo(name, p)
    _cache[name] = m
    return m


def clear_cache():
    _cache.clear()


def loaded_hashes():
    return {m.path: m.sha256 for m in _cache.values() if m is not None}


def split_qual(qual):
    mod, _, name = qual.partition(':')
    return mod, name


def find_function(qual):
    mod, name = split_qual(qual)
    m = load_module(mod)
    if m is None:
        return None, None
    return m, m.funcs.get(name)


def resolve_class(modname, expr):
    """Resolve a base-class expression (ast) seen in module `modname` to a class qual
    'mod:Class' in the repo, or ('ext', dotted) for external classes."""
    m = load_module(modname)
    if isinstance(expr, ast.Name):
        nm = expr.id
        if nm in m.classes:
            return '%s:%s' % (modname, nm)
        if nm in m.imports:
            imp = m.imports[nm]
            if imp[0] == 'from':
                tm = load_module(imp[1])
                if tm is not None:
                    if imp[2] in tm.classes:
                        return '%s:%s' % (imp[1], imp[2])
                    if imp[2] in tm.imports or imp[2] in tm.assigns:
                        # re-exported / aliased
                        a = tm.assigns.get(imp[2])
                        if a is not None:
                            return resolve_class(imp[1], a)
                        return resolve_class(imp[1], ast.Name(id=imp[2]))
                return 'ext:%s.%s' % (imp[1], imp[2])
        if nm in m.assigns:
            return resolve_class(modname, m.assigns[nm])
        return 'builtins:%s' % nm
    if isinstance(expr, ast.Attribute):
        # e.g. POSException.StorageError, ZODB.interfaces.X
        dotted = []
        e = expr
        while isinstance(e, ast.Attribute):
            dotted.append(e.attr)
            e = e.value
        if isinstance(e, ast.Name):
            dotted.append(e.id)
            dotted.reverse()
            head = dotted[0]
            if head in m.imports:
                imp = m.imports[head]
                base = imp[1] if imp[0] == 'mod' else (imp[1] + '.' + imp[2] if imp[1] else imp[2])
                full = '.'.join([base] + dotted[1:-1])
                tm = load_module(full)
                if tm is not None and dotted[-1] in tm.classes:
                    return '%s:%s' % (full, dotted[-1])
                return 'ext:%s.%s' % (full, dotted[-1])
        return 'ext:?'
    return 'ext:?'


_mro_cache = {}


def class_bases(cq):
    mod, name = split_qual(cq)
    m = load_module(mod)
    if m is None or name not in m.classes:
        return []
    return [resolve_class(mod, b) for b in m.classes[name].bases]


def mro(cq):
    """C3 linearisation over repo classes (external/builtin bases are kept as leaves)."""
    if cq in _mro_cache:
        return _mro_cache[cq]
    bases = class_bases(cq)
    seqs = [list(mro(b)) for b in bases] + [list(bases)]
    res = [cq]
    seqs = [s for s in seqs if s]
    while seqs:
        for s in seqs:
            cand = s[0]
            if not any(cand in t[1:] for t in seqs):
                break
        else:
            cand = seqs[0][0]  # inconsistent hierarchy: degrade gracefully
        res.append(cand)
        seqs = [[x for x in s if x != cand] for s in seqs]
        seqs = [s for s in seqs if s]
    _mro_cache[cq] = res
    return res


def find_method(cq, name):
    """-> (qual of function, FunctionDef) following the MRO, or (None, None)"""
    for c in mro(cq):
        mod, cn = split_qual(c)
        if mod in ('ext', 'builtins'):
            continue
        m = load_module(mod)
        if m is None:
            continue
        fn = m.funcs.get(cn + '.' + name)
        if fn is not None:
            return '%s:%s.%s' % (mod, cn, name), fn
        # class-level alias  `iterkeys = __iter__`
        a = m.class_attrs.get(cn, {}).get(name)
        if isinstance(a, ast.Name) and (cn + '.' + a.id) in m.funcs:
            return '%s:%s.%s' % (mod, cn, a.id), m.funcs[cn + '.' + a.id]
        if isinstance(a, ast.Name) and a.id in m.funcs:
            # class attribute bound to a module-level function (used as a method)
            return '%s:%s' % (mod, a.id), m.funcs[a.id]
    # functions attached after the class statement:  Class.name = function
    for c in mro(cq):
        mod, cn = split_qual(c)
        if mod in ('ext', 'builtins'):
            continue
        m = load_module(mod)
        if m is None:
            continue
        for node in m.tree.body:
            if isinstance(node, ast.Assign) and len(node.targets) == 1:
                t = node.targets[0]
                if isinstance(t, ast.Attribute) and isinstance(t.value, ast.Name) \
                        and t.value.id == cn.split('.')[-1] and t.attr == name \
                        and isinstance(node.value, ast.Name) and node.value.id in m.funcs:
                    return '%s:%s' % (mod, node.value.id), m.funcs[node.value.id]
    return None, None


def find_class_attr(cq, name):
    for c in mro(cq):
        mod, cn = split_qual(c)
        if mod in ('ext', 'builtins'):
            continue
        m = load_module(mod)
        if m is None:
            continue
        a = m.class_attrs.get(cn, {}).get(name)
        if a is not None:
            return mod, a
    return None, None


BUILTIN_EXC = {
    'BaseException': [],
    'Exception': ['BaseException'],
    'ArithmeticError': ['Exception'],
    'LookupError': ['Exception'],
    'KeyError': ['LookupError'],
    'IndexError': ['LookupError'],
    'ValueError': ['Exception'],
    'TypeError': ['Exception'],
    'AttributeError': ['Exception'],
    'AssertionError': ['Exception'],
    'OSError': ['Exception'],
    'IOError': ['Exception'],
    'EOFError': ['Exception'],
    'RuntimeError': ['Exception'],
    'NotImplementedError': ['RuntimeError'],
    'StopIteration': ['Exception'],
    'UnicodeError': ['ValueError'],
    'UnicodeDecodeError': ['UnicodeError'],
    'UnicodeEncodeError': ['UnicodeError'],
    'OverflowError': ['ArithmeticError'],
    'ZeroDivisionError': ['ArithmeticError'],
    'KeyboardInterrupt': ['BaseException'],
    'SystemExit': ['BaseException'],
    'MemoryError': ['Exception'],
    'Warning': ['Exception'],
    'UserWarning': ['Warning'],
    'DeprecationWarning': ['Warning'],
}
EXT_EXC = {
    'ext:struct.error': ['builtins:Exception'],
    'ext:zodbpickle.pickle.UnpicklingError': ['builtins:Exception'],
    'ext:zodbpickle.pickle.PicklingError': ['builtins:Exception'],
    'ext:zc.lockfile.LockError': ['builtins:Exception'],
    'ext:transaction.interfaces.TransientError': ['builtins:Exception'],
}


def exc_supers(cq):
    """All superclasses (transitively, including itself) of an exception class."""
    seen = []
    todo = [cq]
    while todo:
        c = todo.pop()
        if c in seen:
            continue
        seen.append(c)
        mod, cn = split_qual(c)
        if mod == 'builtins':
            if cn == 'IOError':
                todo.append('builtins:OSError')
            todo.extend('builtins:' + b for b in BUILTIN_EXC.get(cn, []))
        elif mod == 'ext':
            todo.extend(EXT_EXC.get(c, []))
        else:
            todo.extend(class_bases(c))
    return seen


def is_subclass(cq, sup):
    if sup == 'builtins:IOError':
        sup = 'builtins:OSError'
    return sup in exc_supers(cq)
