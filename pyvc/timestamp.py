"""Model of persistent.TimeStamp (C extension; assumed contract, T5) and of the clock.

A TimeStamp is a heap object with one field raw (Int, 0 <= raw < 2^64).  Constructed from a
clock reading it is an unconstrained input (the clock may stall or step back); constructed
from 8 bytes it is their number.  laterThan(o): result.raw > o.raw and result.raw >= self.raw,
and the result is self when self.raw > o.raw (assumed)."""
import z3

from . import prims
from .engine import Unsupported, bytes_num, num_to_bytes
from .values import NONE, VBool, VBytes, VInt, VOpaque, VRef, VTuple, Obj, fresh_name

ASSUMPTIONS = [
    'A-TIMESTAMP: persistent.TimeStamp: TimeStamp(8 bytes).raw() is the identity; laterThan(o) returns a '
    'stamp with raw > o.raw and >= self.raw; ordering of stamps is ordering of raw; the clock '
    '(time.time/gmtime) is an unconstrained input',
]


LATER = z3.Function('ts_later', z3.IntSort(), z3.IntSort())


def new_ts(ctx, raw=None):
    if raw is None:
        raw = z3.Int(fresh_name('clock'))
        ctx.assume(z3.And(raw >= 0, raw < 2 ** 64))
    return ctx.new_obj('timestamp', 'ext:persistent.TimeStamp.TimeStamp', {'raw': raw},
                       {'name': 'TimeStamp'})


def c_timestamp(ctx, interp, args, kwargs, node):
    if len(args) == 1 and isinstance(args[0], VBytes):
        if args[0].conc_len() != 8:
            raise Unsupported('TimeStamp of non-8-byte string', node)
        return new_ts(ctx, bytes_num(ctx, args[0], node))
    return new_ts(ctx)


prims.CONSTRUCTORS['ext:persistent.TimeStamp.TimeStamp'] = c_timestamp
prims.CONSTRUCTORS['ext:persistent.timestamp.TimeStamp'] = c_timestamp
prims.EXT_CLASSES.add('persistent.timestamp.TimeStamp')


def ts_method(ctx, interp, ref, o, name, args, kwargs, node):
    if name == 'raw':
        return num_to_bytes(ctx, o.f['raw'], 8, 'tsraw')
    if name == 'laterThan':
        other = ctx.obj(args[0])
        if other.kind != 'timestamp':
            raise Unsupported('laterThan(non-timestamp)', node)
        mine, oth = o.f['raw'], other.f['raw']
        i = ctx.choose([mine > oth, mine <= oth], 'laterThan')
        if i == 0:
            return ref
        # the next representable stamp after `other` (raw+1 except when the fractional part
        # wraps): an uninterpreted function of other.raw of which only the order is assumed
        r = LATER(oth)
        ctx.assume(z3.And(r > oth, r < 2 ** 64))
        return new_ts(ctx, r)
    if name == 'timeTime':
        return VOpaque(z3.Const(fresh_name('float'), Obj), 'float')
    raise Unsupported('TimeStamp method %s' % name, node)


prims.KIND_METHOD['timestamp'] = ts_method


@prims.prim('time.time')
def p_time(ctx, interp, args, kwargs, node):
    return VOpaque(z3.Const(fresh_name('now'), Obj), 'float')


@prims.prim('time.gmtime')
def p_gmtime(ctx, interp, args, kwargs, node):
    return VTuple([VOpaque(z3.Const(fresh_name('tm'), Obj), 'float') for _ in range(9)])


def binop_hook(ctx, op, a, b, node):
    if isinstance(a, VOpaque) and a.tag == 'float' or isinstance(b, VOpaque) and b.tag == 'float':
        return VOpaque(z3.Const(fresh_name('float'), Obj), 'float')
    return None


def compare_hook(ctx, op, a, b, node):
    import ast
    if isinstance(a, VRef) and isinstance(b, VRef):
        oa, ob = ctx.obj(a), ctx.obj(b)
        if oa.kind == 'timestamp' and ob.kind == 'timestamp':
            x, y = oa.f['raw'], ob.f['raw']
            return {ast.Lt: x < y, ast.LtE: x <= y, ast.Gt: x > y, ast.GtE: x >= y}[type(op)]
    if isinstance(a, VOpaque) and a.tag == 'float' or isinstance(b, VOpaque) and b.tag == 'float':
        return z3.Bool(fresh_name('floatcmp'))
    return None


def install(hooks):
    hooks.setdefault('binop', binop_hook)
    hooks.setdefault('compare', compare_hook)
