"""Symbolic value model of pyvc (see DESIGN.md section 3.3).

Every Python value met while symbolically executing the real ZODB source is one
of the classes below.  Values are immutable; mutable things (instances, files,
maps, lists, locks) live in the heap (engine.HObj) and are referenced by VRef.
"""
import z3

I = z3.IntSort()
B = z3.BoolSort()
Obj = z3.DeclareSort('Obj')          # opaque python objects (transactions, pickles, ...)

_counter = [0]


def fresh_name(base):
    _counter[0] += 1
    return '%s!%d' % (base, _counter[0])


def reset_names():
    _counter[0] = 0


class V:
    pass


class VInt(V):
    __slots__ = ('t',)

    def __init__(self, t):
        if isinstance(t, bool):
            t = int(t)
        if isinstance(t, int):
            t = z3.IntVal(t)
        self.t = t

    def conc(self):
        s = z3.simplify(self.t)
        if z3.is_int_value(s):
            return s.as_long()
        return None

    def __repr__(self):
        return 'VInt(%s)' % self.t


class VBool(V):
    __slots__ = ('t',)

    def __init__(self, t):
        if isinstance(t, bool):
            t = z3.BoolVal(t)
        self.t = t

    def conc(self):
        s = z3.simplify(self.t)
        if z3.is_true(s):
            return True
        if z3.is_false(s):
            return False
        return None

    def __repr__(self):
        return 'VBool(%s)' % self.t


class VNone(V):
    def __repr__(self):
        return 'VNone'


NONE = VNone()


class VBytes(V):
    """A rope: list of segments.
    ('b', [t0, t1, ...])      concrete-length run of byte terms (z3 Int, each in 0..255)
    ('a', arr, off, ln)       slice arr[off:off+ln] of a z3 Array(Int,Int); off/ln z3 Int terms
    """
    __slots__ = ('segs',)

    def __init__(self, segs):
        out = []
        for s in segs:
            if s[0] == 'b':
                if not s[1]:
                    continue
                if out and out[-1][0] == 'b':
                    out[-1] = ('b', out[-1][1] + list(s[1]))
                    continue
                out.append(('b', list(s[1])))
            else:
                out.append(s)
        self.segs = out

    @staticmethod
    def lit(b):
        return VBytes([('b', [z3.IntVal(x) for x in b])])

    def conc_len(self):
        n = 0
        for s in self.segs:
            if s[0] == 'b':
                n += len(s[1])
            else:
                ln = z3.simplify(s[3]) if not isinstance(s[3], int) else z3.IntVal(s[3])
                if z3.is_int_value(ln):
                    n += ln.as_long()
                else:
                    return None
        return n

    def length(self):
        n = z3.IntVal(0)
        for s in self.segs:
            if s[0] == 'b':
                n = n + len(s[1])
            else:
                n = n + s[3]
        return z3.simplify(n)

    def conc_bytes(self):
        """python bytes if fully concrete else None"""
        out = []
        for s in self.segs:
            if s[0] != 'b':
                return None
            for t in s[1]:
                t = z3.simplify(t)
                if not z3.is_int_value(t):
                    return None
                out.append(t.as_long())
        return bytes(out)

    def __repr__(self):
        cb = self.conc_bytes()
        if cb is not None:
            return 'VBytes(%r)' % cb
        return 'VBytes(len=%s)' % self.length()


class VStr(V):
    """Either a concrete python str, or a fixed-length list of code point terms."""
    __slots__ = ('s', 'codes')

    def __init__(self, s=None, codes=None):
        self.s = s
        self.codes = codes

    def code_terms(self):
        if self.s is not None:
            return [z3.IntVal(ord(ch)) for ch in self.s]
        return self.codes

    def __repr__(self):
        return 'VStr(%r)' % (self.s if self.s is not None else self.codes)


class VTuple(V):
    __slots__ = ('items',)

    def __init__(self, items):
        self.items = list(items)

    def __repr__(self):
        return 'VTuple(%r)' % (self.items,)


class VRef(V):
    """Reference to a heap object (python-side identity)."""
    __slots__ = ('id',)

    def __init__(self, id):
        self.id = id

    def __repr__(self):
        return 'VRef(%d)' % self.id


class VOpaque(V):
    """Opaque python object: an element of the uninterpreted sort Obj."""
    __slots__ = ('t', 'tag')

    def __init__(self, t, tag=''):
        self.t = t
        self.tag = tag

    def __repr__(self):
        return 'VOpaque(%s:%s)' % (self.tag, self.t)


class VFunc(V):
    """A callable: repo function (qual 'mod:Qual.name'), primitive ('prim', name) or
    a contract-level closure.  `selfv` is the bound receiver or None."""
    __slots__ = ('kind', 'name', 'selfv', 'extra')

    def __init__(self, kind, name, selfv=None, extra=None):
        self.kind = kind
        self.name = name
        self.selfv = selfv
        self.extra = extra

    def __repr__(self):
        return 'VFunc(%s,%s)' % (self.kind, self.name)


class VClass(V):
    __slots__ = ('name',)

    def __init__(self, name):
        self.name = name

    def __repr__(self):
        return 'VClass(%s)' % self.name


class VModule(V):
    __slots__ = ('name',)

    def __init__(self, name):
        self.name = name

    def __repr__(self):
        return 'VModule(%s)' % self.name


class VExc(V):
    """An exception instance."""
    __slots__ = ('cls', 'args', 'attrs')

    def __init__(self, cls, args=(), attrs=None):
        self.cls = cls
        self.args = list(args)
        self.attrs = attrs or {}

    def __repr__(self):
        return 'VExc(%s)' % self.cls


class VCtxMgr(V):
    """A context manager value produced by a primitive: enter() -> Value, exit()"""
    __slots__ = ('enter', 'exit')

    def __init__(self, enter, exit):
        self.enter = enter
        self.exit = exit
