"""C01 concretiser (family K): crash-image enumeration on the real FileStorage.
Histories: fixed small programs (commits of 1-3 objects, payloads 1..300 bytes, metadata, aborts
before/after vote, overwrite of the same oid in one transaction).  For every prefix of the raw
write/truncate sequence and torn cuts of each write, the image is reopened with the real
FileStorage and must show exactly L or L+[T] (T = the transaction in flight), and every commit
that had returned must be present; tpc_finish must not return before an fsync that follows its
last raw write."""
import os

from . import fsharness as H
from ZODB.utils import p64


def programs(tier):
    big = b'x' * 300
    ps = [
        [('commit', [(p64(1), b'a')]), ('commit', [(p64(1), b'bb'), (p64(2), big)]),
         ('abort', [(p64(2), b'zz')], 'vote'), ('commit', [(p64(3), b'c' * 40)])],
        [('commit', [(p64(1), big)], (b'user', b'some description', b'')),
         ('abort', [(p64(1), b'q')], 'store'), ('commit', [(p64(1), b'r'), (p64(1), b's')]),
         ('abort', [(p64(5), big)], 'vote'), ('commit', [(p64(5), b't')])],
    ]
    if tier == 'thorough':
        ps.append([('commit', [(p64(i), bytes([65 + i]) * (i * 7 + 1))]) for i in range(1, 8)])
    return ps


def run_program(prog):
    w = H.World(record=True)
    try:
        for step in prog:
            if step[0] == 'commit':
                w.commit(step[1], meta=step[2] if len(step) > 2 else (b'', b'', b''))
            else:
                w.commit(step[1], stop_after=step[2])
        log = list(w.rec.log)
        hist = list(w.hist)
        returned = list(w.returned)
        path = w.path
        # the file as created (magic) precedes the log: rebuild base from the first write
        return log, hist, returned, path
    finally:
        w.close()


def check_program(prog, tier):
    log, hist, returned, path = run_program(prog)
    cases = 0
    # durability: between the last raw write before each 'finished' mark and the mark there is an fsync
    last_write = None
    synced = True
    for i, ev in enumerate(log):
        if ev[0] in ('write', 'truncate') and ev[1] == path:
            last_write, synced = i, False
        elif ev[0] == 'fsync' and ev[1] == path:
            synced = True
        elif ev[0] == 'mark' and ev[1] == 'finished':
            cases += 1
            if not synced:
                return {'found': True, 'cases': cases,
                        'input': {'program': repr(prog), 'at': 'tpc_finish return #%d' % cases},
                        'expected': 'an fsync of the data file after its last raw write and before '
                                    'tpc_finish returns',
                        'observed': 'raw write at log index %d not followed by fsync' % last_write}
    # crash images
    n_committed_at = {}
    k = 0
    for idx in range(len(log) + 1):
        while k < len(returned) and returned[k][0] <= idx:
            k += 1
        n_committed_at[idx] = returned[k - 1][1] if k else 0
    seen = set()
    for label, image, idx in H.crash_images(log, path):
        if image in seen or len(image) < 4:
            continue   # the property starts "after the storage has been created" (magic written)
        seen.add(image)
        cases += 1
        got, err, last = H.reopen_image(image)
        must = n_committed_at[idx]
        if err is not None:
            return {'found': True, 'cases': cases,
                    'input': {'program': repr(prog), 'crash_point': label, 'image_hex': image.hex()[:4000]},
                    'expected': 'reopen succeeds', 'observed': err}
        ok = any(got == hist[:n] for n in range(must, len(hist) + 1))
        if not ok:
            return {'found': True, 'cases': cases,
                    'input': {'program': repr(prog), 'crash_point': label, 'image_hex': image.hex()[:4000]},
                    'expected': 'a prefix of the committed history with at least %d transactions' % must,
                    'observed': 'history of %d transactions: %r' % (len(got), got[-1:])}
        if got and last != got[-1][0] or (not got and last != H.z64):
            return {'found': True, 'cases': cases,
                    'input': {'program': repr(prog), 'crash_point': label, 'image_hex': image.hex()[:4000]},
                    'expected': 'lastTransaction() = tid of the last transaction shown (%r)' % (
                        got[-1][0] if got else H.z64),
                    'observed': 'lastTransaction() = %r' % last}
    return {'found': False, 'cases': cases}


def search(func, candidate, seed, tier, obligation=''):
    total = 0
    for prog in programs(tier):
        r = check_program(prog, tier)
        total += r.get('cases', 0)
        if r.get('found'):
            r['cases'] = total
            return r
    return {'found': False, 'cases': total}
