"""C02 concretiser (family P): sequential multi-connection programs on a real DB, checked against a
snapshot model (each connection reads the committed state as of its last transaction boundary,
plus its own changes).  Bound: 2 storages (mapping, file) x fixed + 60 (thorough: 600) random
programs of <= 16 steps over 3 connections and 3 objects (read, write, savepoint, commit, abort, reopen; seed VERIF_SEED); pooled reuse included;
the fixed and the first 20 random programs again with a frozen wall clock (adjacent tids: last + 1).
Thread schedules are NOT explored here."""
import logging
import os
import random
import shutil
import tempfile

import transaction
from persistent import Persistent

import ZODB
from ZODB.MappingStorage import MappingStorage
from ZODB.POSException import ConflictError


class P(Persistent):
    def __init__(self, v=0):
        self.v = v


NAMES = ['x', 'y', 'z']


def run_program(prog, kind):
    """kind 'x-frozen-clock': the wall clock does not advance during the program, so every commit gets the tid
    FOLLOWING the previous one (last + 1 = the exclusive snapshot bound of a connection opened in between)"""
    if kind.endswith('-frozen-clock'):
        import time
        real = time.time
        now = real()
        time.time = lambda: now
        try:
            return run_program(prog, kind[:-len('-frozen-clock')])
        finally:
            time.time = real
    d = None
    if kind == 'file':
        d = tempfile.mkdtemp(prefix='c02-')
        from ZODB.FileStorage import FileStorage
        st = FileStorage(os.path.join(d, 'Data.fs'))
    else:
        st = MappingStorage()
    db = ZODB.DB(st)
    try:
        tm0 = transaction.TransactionManager()
        c0 = db.open(tm0)
        for n in NAMES:
            c0.root()[n] = P(0)
        tm0.commit()
        c0.close()
        committed = {n: 0 for n in NAMES}
        conns = {}
        counter = 0

        def open_conn(k):
            tm = transaction.TransactionManager()
            conns[k] = {'tm': tm, 'conn': db.open(tm), 'snap': dict(committed), 'own': {}}

        for k in range(3):
            open_conn(k)
        for step, op in enumerate(prog):
            kind_, k = op[0], op[1]
            cn = conns[k]
            if kind_ == 'read':
                n = op[2]
                exp = cn['own'].get(n, cn['snap'][n])
                got = cn['conn'].root()[n].v
                if got != exp:
                    return (step, 'connection %d reads %s == %r (its snapshot)' % (k, n, exp),
                            'reads %r' % got)
            elif kind_ == 'write':
                n = op[2]
                counter += 1
                cn['conn'].root()[n].v = counter
                cn['own'][n] = counter
            elif kind_ == 'commit':
                try:
                    cn['tm'].commit()
                    committed.update(cn['own'])
                except ConflictError:
                    cn['tm'].abort()
                cn['own'] = {}
                cn['snap'] = dict(committed)
            elif kind_ == 'savepoint':
                cn['tm'].savepoint()
            elif kind_ == 'abort':
                cn['tm'].abort()
                cn['own'] = {}
                cn['snap'] = dict(committed)
            elif kind_ == 'reopen':
                cn['tm'].abort()
                cn['conn'].close()
                open_conn(k)
            elif kind_ == 'readall':
                got = tuple(cn['conn'].root()[n].v for n in NAMES)
                exp = tuple(cn['own'].get(n, cn['snap'][n]) for n in NAMES)
                if got != exp:
                    return (step, 'connection %d reads %r (one snapshot)' % (k, exp), 'reads %r' % (got,))
        return None
    finally:
        for cn in conns.values() if 'conns' in dir() else []:
            try:
                cn['tm'].abort()
                cn['conn'].close()
            except Exception:
                pass
        db.close()
        if d:
            shutil.rmtree(d, ignore_errors=True)


FIXED = [
    # a conflict while the data of a savepoint is committed: everything this transaction wrote is forgotten
    [('readall', 1), ('write', 1, 'x'), ('write', 1, 'y'), ('savepoint', 1), ('write', 2, 'x'), ('commit', 2),
     ('commit', 1), ('readall', 1), ('abort', 1), ('readall', 1)],
    # the reader is a connection that did not create the objects (connection 0 is the pooled creator: all cached)
    [('read', 2, 'x'), ('write', 1, 'x'), ('write', 1, 'y'), ('commit', 1), ('read', 2, 'y'),
     ('readall', 2), ('abort', 2), ('readall', 2)],
    [('read', 0, 'x'), ('write', 1, 'x'), ('write', 1, 'y'), ('commit', 1), ('read', 0, 'y'),
     ('readall', 0), ('abort', 0), ('readall', 0)],
    [('readall', 0), ('write', 1, 'x'), ('commit', 1), ('reopen', 0), ('readall', 0),
     ('write', 2, 'y'), ('commit', 2), ('readall', 0), ('commit', 0), ('readall', 0)],
    [('read', 0, 'x'), ('write', 1, 'x'), ('write', 1, 'y'), ('commit', 1), ('read', 0, 'x'),
     ('commit', 0), ('read', 0, 'x'), ('write', 2, 'x'), ('write', 2, 'y'), ('commit', 2),
     ('commit', 0), ('readall', 0)],
]


def random_program(rnd):
    prog = []
    for _ in range(rnd.randint(5, 16)):
        k = rnd.randint(0, 2)
        r = rnd.random()
        if r < 0.3:
            prog.append(('read', k, rnd.choice(NAMES)))
        elif r < 0.5:
            prog.append(('write', k, rnd.choice(NAMES)))
        elif r < 0.7:
            prog.append(('commit', k))
        elif r < 0.74:
            prog.append(('savepoint', k))
        elif r < 0.78:
            prog.append(('abort', k))
        elif r < 0.86:
            prog.append(('reopen', k))
        else:
            prog.append(('readall', k))
    return prog


def search(func, candidate, seed, tier, obligation=''):
    logging.disable(logging.CRITICAL)
    rnd = random.Random(seed)
    progs = list(FIXED) + [random_program(rnd) for _ in range(60 if tier == 'quick' else 600)]
    cases = 0
    for kind in ('mapping', 'file', 'mapping-frozen-clock', 'file-frozen-clock'):
        for prog in (progs if '-' not in kind else progs[:len(FIXED) + 20]):
            cases += 1
            try:
                r = run_program(prog, kind)
            except Exception as e:  # noqa
                r = (len(prog), 'program runs', '%s: %s' % (type(e).__name__, e))
            if r:
                return {'found': True, 'cases': cases,
                        'input': {'storage': kind, 'program': prog, 'failing_step': r[0]},
                        'expected': r[1], 'observed': r[2]}
    return {'found': False, 'cases': cases}
